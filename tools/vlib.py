"""Shared machinery for the h3 Lean-proof checks.

One check run for property P:
  1. tools/extract.py regenerates lean/H3/Gen/*.lean from /repo's working tree
  2. lake build h3drv (models + driver) and the property's theorem modules
  3. audit: forbidden tokens, `#print axioms` of every property theorem
  4. cargo build of the harness against /repo's working tree (hooks on)
  5. same case lines through h3run (real code) and h3drv (model ## spec); diff
  6. on any break: search impl-vs-spec for a concrete failing input, shrink, write replay
  7. write evidence/<P>.json
"""
import fcntl
import hashlib
import json
import os
import random
import re
import subprocess
import sys
import time

ROOT = os.path.dirname(os.path.dirname(os.path.abspath(__file__)))
WORK = os.path.join(ROOT, ".work")
LEAN = os.path.join(ROOT, "lean")
HARNESS = os.path.join(ROOT, "harness")
def _repo():
    r = os.environ.get("VERIF_REPO")
    f = os.path.join(ROOT, ".repo_path")   # only present in private working copies of /verif
    if not r and os.path.exists(f):
        r = open(f).read().strip()
    return r or "/repo"


REPO = _repo()
DRV = os.path.join(LEAN, ".lake", "build", "bin", "h3drv")
RUN = os.path.join(HARNESS, "target", "release", "h3run")
ALLOWED_AXIOMS = {"propext", "Classical.choice", "Quot.sound"}
FORBIDDEN = re.compile(
    r"\b(sorry|admit|native_decide|bv_decide|implemented_by|unsafe)\b|^\s*axiom\s|maxHeartbeats\s+0\b"
)

os.makedirs(WORK, exist_ok=True)


def env():
    e = dict(os.environ)
    e["CARGO_NET_OFFLINE"] = "true"
    e.pop("RUSTFLAGS", None)  # harness/.cargo/config.toml sets the cfg flag
    return e


class Lock:
    def __init__(self, name):
        self.path = os.path.join(WORK, name + ".lock")

    def __enter__(self):
        self.f = open(self.path, "w")
        fcntl.flock(self.f, fcntl.LOCK_EX)
        return self

    def __exit__(self, *a):
        fcntl.flock(self.f, fcntl.LOCK_UN)
        self.f.close()


def sh(cmd, cwd=None, timeout=None, inp=None):
    p = subprocess.run(
        cmd, cwd=cwd, env=env(), input=inp, stdout=subprocess.PIPE, stderr=subprocess.STDOUT,
        timeout=timeout, text=True,
    )
    return p.returncode, p.stdout


def repo_head():
    rc, out = sh(["git", "-C", REPO, "rev-parse", "HEAD"])
    rc2, st = sh(["git", "-C", REPO, "status", "--porcelain", "--untracked-files=no"])
    return out.strip() + ("+dirty" if st.strip() else "")


# ------------------------------------------------------------------ translator

def regen():
    """Regenerate lean/H3/Gen from /repo. Returns (ok, log)."""
    with Lock("lean"):
        rc, out = sh([sys.executable, os.path.join(ROOT, "tools", "extract.py"), REPO,
                      os.path.join(LEAN, "H3", "Gen")])
    return rc == 0, out


def lean_imports(mods):
    """transitive closure of `import H3.…` lines starting from the given module names"""
    seen = set()
    todo = list(mods)
    while todo:
        m = todo.pop()
        if m in seen:
            continue
        seen.add(m)
        path = os.path.join(LEAN, *m.split(".")) + ".lean"
        try:
            src = open(path).read()
        except OSError:
            continue
        for im in re.findall(r"^import\s+(H3(?:\.\w+)+)", src, re.M):
            if im not in seen:
                todo.append(im)
    return seen


# ------------------------------------------------------------------ Lean side

def lake_build(targets):
    with Lock("lean"):
        rc, out = sh(["lake", "build"] + list(targets), cwd=LEAN, timeout=3000)
        if rc != 0:
            # a build is deterministic: a module that really does not check fails again at once (only the failed
            # module is re-elaborated); what a second attempt removes is a process killed on a loaded machine
            # (seen once: a cold clone, eleven checks side by side, `lake build` non-zero with no error line)
            rc, out2 = sh(["lake", "build"] + list(targets), cwd=LEAN, timeout=3000)
            out = out2 if rc == 0 else out + "\n" + out2
    return rc == 0, out


def strip_comments(src):
    # remove /- ... -/ (nested not handled beyond one level, fine for our files) and -- comments
    out = []
    depth = 0
    i = 0
    n = len(src)
    while i < n:
        if src.startswith("/-", i):
            depth += 1
            i += 2
        elif src.startswith("-/", i) and depth > 0:
            depth -= 1
            i += 2
        elif depth > 0:
            if src[i] == "\n":
                out.append("\n")
            i += 1
        elif src.startswith("--", i):
            while i < n and src[i] != "\n":
                i += 1
        else:
            out.append(src[i])
            i += 1
    return "".join(out)


def lean_files():
    res = []
    for d, _, fs in os.walk(os.path.join(LEAN, "H3")):
        for f in fs:
            if f.endswith(".lean"):
                res.append(os.path.join(d, f))
    res.append(os.path.join(LEAN, "Main.lean"))
    return sorted(res)


def forbidden_tokens():
    hits = []
    for f in lean_files():
        code = strip_comments(open(f).read())
        for ln, line in enumerate(code.split("\n"), 1):
            # string literals may mention words; drop them
            line2 = re.sub(r'"([^"\\]|\\.)*"', '""', line)
            if FORBIDDEN.search(line2):
                hits.append("%s:%d: %s" % (os.path.relpath(f, ROOT), ln, line.strip()))
    return hits


def theorems_of(module):
    path = os.path.join(LEAN, *module.split(".")) + ".lean"
    code = strip_comments(open(path).read())
    ns = re.search(r"^namespace\s+(\S+)", code, re.M)
    prefix = ns.group(1) + "." if ns else ""
    return [prefix + m for m in re.findall(r"^theorem\s+(C\d\d_\w+)", code, re.M)]


def aux_theorems_of(module):
    """Every (non-private) theorem of a helper module listed in `modules` that has no property theorems of its
    own (agreement lemmas, lemma files a property names): audited for axioms, not counted as obligations.
    Names are qualified by the namespaces open at the point of declaration."""
    path = os.path.join(LEAN, *module.split(".")) + ".lean"
    code = strip_comments(open(path).read())
    stack = []
    names = []
    for line in code.split("\n"):
        m = re.match(r"^namespace\s+(\S+)", line)
        if m:
            stack.append(m.group(1))
            continue
        m = re.match(r"^end\s+(\S+)", line)
        if m and stack and stack[-1] == m.group(1):
            stack.pop()
            continue
        m = re.match(r"^(?:@\[[^\]]*\]\s*)*(?:protected\s+)?theorem\s+([^\s:({\[]+)", line)
        if m:
            n = m.group(1)
            if n.startswith("_root_."):
                names.append(n[len("_root_."):])
            else:
                names.append(".".join(stack + [n]))
    return names


def print_axioms(module, names):
    """Returns {name: [axioms]} or None when the file does not elaborate."""
    tmp = os.path.join(WORK, "axioms_%s.lean" % module.replace(".", "_"))
    with open(tmp, "w") as f:
        f.write("import %s\n" % module)
        for n in names:
            f.write("#print axioms %s\n" % n)
    with Lock("lean"):
        rc, out = sh(["lake", "env", "lean", tmp], cwd=LEAN, timeout=1200)
    res = {}
    # output: "'name' depends on axioms: [a, b]" or "'name' does not depend on any axioms"
    for m in re.finditer(r"'([^']+)' depends on axioms: \[([^\]]*)\]", out.replace("\n", " ")):
        res[m.group(1)] = [a.strip() for a in m.group(2).split(",") if a.strip()]
    for m in re.finditer(r"'([^']+)' does not depend on any axioms", out):
        res[m.group(1)] = []
    return res, out


def leanchecker(module):
    with Lock("lean"):
        rc, out = sh(["lake", "env", "leanchecker", module], cwd=LEAN, timeout=3000)
    return rc == 0, out


# ------------------------------------------------------------------ Rust side

def harness_build():
    lock = os.path.join(HARNESS, "Cargo.lock")
    src = os.path.join(REPO, "Cargo.lock")
    if not os.path.exists(lock) and os.path.exists(src):
        import shutil
        shutil.copy(src, lock)
    toml = os.path.join(HARNESS, "Cargo.toml")
    if True:  # always point the path dependencies at the repository this run checks (a private working copy may
        # point at a scratch clone; a merged Cargo.toml must never keep such a path)
        t = open(toml).read()
        t2 = re.sub(r'path = "[^"]*/(h3[a-z-]*)"', lambda m: 'path = "%s/%s"' % (REPO, m.group(1)), t)
        if t2 != t:
            open(toml, "w").write(t2)
    with Lock("cargo"):
        rc, out = sh(["cargo", "build", "--release", "--offline"], cwd=HARNESS, timeout=3000)
    return rc == 0, out


def run_lines(binary, lines, timeout=3000):
    inp = "\n".join(lines) + "\n"
    p = subprocess.run([binary], input=inp, stdout=subprocess.PIPE, stderr=subprocess.PIPE,
                       text=True, timeout=timeout, env=env())
    out = p.stdout.split("\n")
    if out and out[-1] == "":
        out.pop()
    return p.returncode, out, p.stderr


SKIPPED = "skipped-time-budget"
BATCH_CAP = {"cap": None, "per_line": None, "max_hangs": None}     # set by run_check from the property (default: unchanged behaviour)


def _run_impl_batch(lines, timeout):
    """Runs the real code on a batch. If the process dies (abort/stack overflow) or does not come back within
    the per-attempt cap (a line that never terminates), the offending line is recorded (`abort` / `hang`) and
    the run continues after it; when the overall `timeout` is used up the rest of the batch is marked skipped."""
    res = []
    rest = list(lines)
    t0 = time.time()
    # per-attempt cap: `Prop.batch_timeout` (seconds; with `Prop.batch_line_allowance` seconds per line of the batch)
    # for properties whose cases all run in milliseconds, so that a line that never returns costs seconds, not minutes
    cap = float(BATCH_CAP["cap"] if BATCH_CAP["cap"] is not None else os.environ.get("VERIF_BATCH_TIMEOUT", "300"))
    per_line = float(BATCH_CAP["per_line"] if BATCH_CAP["per_line"] is not None else 0.5)
    if len(lines) == 1 and BATCH_CAP["cap"] is not None:
        cap = max(1.0, cap / 10)     # a single line (shrinking, replay) of such a property
    hangs = 0
    while rest:
        left = timeout - (time.time() - t0)
        if left <= 0:
            res.extend([SKIPPED] * len(rest))
            break
        try:
            rc, out, err = run_lines(RUN, rest, timeout=min(left, max(cap, per_line * len(rest))))
        except subprocess.TimeoutExpired as e:
            got = (e.stdout or b"")
            got = got.decode() if isinstance(got, bytes) else got
            outl = got.split("\n")[:-1] if got else []
            outl = outl[:len(rest)]
            res.extend(outl)
            n = len(outl)
            if n < len(rest):
                res.append("hang")          # the line being executed when time ran out
                rest = rest[n + 1:]
                hangs += 1
                # `Prop.batch_max_hangs`: that many lines of one batch never returned - the rest of the batch is
                # not executed (and reported as such): further hangs would add minutes, not information
                if BATCH_CAP["max_hangs"] is not None and hangs >= BATCH_CAP["max_hangs"]:
                    res.extend([SKIPPED] * len(rest))
                    break
                continue
            break
        res.extend(out[:len(rest)])
        if rc == 0 and len(out) >= len(rest):
            break
        # the process died on line len(out): record it and continue after it
        died = len(out)
        res.append("abort")
        rest = rest[died + 1:]
    return res[:len(lines)]


def workers_for(prop=None):
    """number of harness / driver processes run side by side; properties whose engines are
    sensitive to CPU contention (real Quinn loopback, OS threads parked at hooks) say
    `parallel = False`"""
    if prop is not None and not getattr(prop, "parallel", True):
        return 1
    try:
        w = int(os.environ.get("VERIF_WORKERS", "0") or "0")
    except ValueError:
        w = 0
    if w <= 0:
        w = max(1, min(8, (os.cpu_count() or 2) // 2))
    return w


def run_impl(lines, budget=None, workers=1):
    """Runs the real code on all lines, in batches (each batch a fresh process, `workers` of them
    side by side), within a wall-clock budget (seconds); lines not reached are marked SKIPPED
    (the caller drops them and says so)."""
    if budget is None:
        return _run_impl_batch(lines, 3000)
    t0 = time.time()
    step = 2000
    starts = list(range(0, len(lines), step))

    def one(i):
        left = budget - (time.time() - t0)
        n = min(step, len(lines) - i)
        if left <= 0:
            return [SKIPPED] * n
        return _run_impl_batch(lines[i:i + step], left)

    if workers <= 1 or len(starts) <= 1:
        parts = [one(i) for i in starts]
    else:
        from concurrent.futures import ThreadPoolExecutor
        with ThreadPoolExecutor(max_workers=workers) as ex:
            parts = list(ex.map(one, starts))
    res = []
    for part in parts:
        res.extend(part)
    return res


def _run_model_part(lines):
    rc, out, err = run_lines(DRV, lines)
    if rc != 0 or len(out) != len(lines):
        raise RuntimeError("h3drv failed rc=%s out=%d/%d %s" % (rc, len(out), len(lines), err[-400:]))
    return out


def run_model(lines, workers=1):
    if workers <= 1 or len(lines) < 4000:
        out = _run_model_part(lines)
    else:
        from concurrent.futures import ThreadPoolExecutor
        n = (len(lines) + workers - 1) // workers
        chunks = [lines[i:i + n] for i in range(0, len(lines), n)]
        with ThreadPoolExecutor(max_workers=workers) as ex:
            parts = list(ex.map(_run_model_part, chunks))
        out = [o for part in parts for o in part]
    model, spec = [], []
    for o in out:
        if " ## " in o:
            m, s = o.split(" ## ", 1)
        else:
            m, s = o, "?"
        model.append(m.strip())
        spec.append(s.strip())
    return model, spec


def untag(model_out):
    """The model marks a known-defective branch with a site tag (` #D-15`); the tag is not part
    of the result the implementation is compared with."""
    return re.sub(r"\s*#D-[0-9a-z]+", "", model_out)


def spec_match(spec, impl):
    """spec: '?' = no opinion; alternatives separated by ' || '; '*' matches one token;
    a trailing '**' matches any remaining tokens."""
    if spec == "?":
        return True
    for alt in spec.split(" || "):
        st = alt.split()
        it = impl.split()
        if st and st[-1] == "**":
            st = st[:-1]
            if len(it) < len(st):
                continue
            it = it[:len(st)]
        if len(st) != len(it):
            continue
        if all(_tok_match(a, b) for a, b in zip(st, it)):
            return True
    return False


def _tok_match(pat, tok):
    """`*` alone matches any token; inside a token it matches any run of characters."""
    if pat == "*" or pat == tok:
        return True
    if "*" not in pat:
        return False
    parts = pat.split("*")
    if not tok.startswith(parts[0]) or not tok.endswith(parts[-1]):
        return False
    pos = len(parts[0])
    for mid in parts[1:-1]:
        i = tok.find(mid, pos)
        if i < 0:
            return False
        pos = i + len(mid)
    return pos <= len(tok) - len(parts[-1])


# ------------------------------------------------------------------ findings

def load_findings():
    p = os.path.join(ROOT, "known_findings.json")
    if not os.path.exists(p):
        return {"findings": [], "fixed": []}
    return json.load(open(p))


def findings_for(prop, line, model_out, findings):
    """The open findings whose key names this very case line (`case:<line>`) or a defect site tag
    the model printed for it (`site:<tag>`)."""
    tags = re.findall(r"#(D-[0-9a-z]+)", model_out)
    res = []
    for f in findings.get("findings", []):
        if f.get("property") != prop or f.get("status", "open") != "open":
            continue
        k = f.get("key", "")
        if k == "case:" + line or (k.startswith("site:") and k[5:] in tags):
            res.append(f)
    return res


def finding_for(prop, line, model_out, findings):
    """An open finding suppresses a violation only when its key names this very case line
    (`case:<line>`) or the defect site tag the model printed for it (`site:<tag>`)."""
    fs = findings_for(prop, line, model_out, findings)
    return fs[0] if fs else None


def waiving_findings(prop, line, impl, model_out, spec, findings):
    """The known findings that explain a specification mismatch of this case (empty list = it is a
    failing input).  A finding is considered only if the model reproduces the implementation's answer
    (tags aside) and names the finding (`findings_for`).  By default that suffices (suppression per
    LINE).  A property may refine this with `finding_applies(line, impl, model, spec, finding)`
    (suppression per OP: C20 waives a line only if every op whose answer mismatches the specification
    carries, in the model's output, the site tag of a listed finding)."""
    if untag(impl) != untag(model_out):
        return []
    fs = findings_for(prop.id, line, model_out, findings)
    hook = getattr(prop, "finding_applies", None)
    if hook is not None:
        fs = [f for f in fs if hook(line, impl, model_out, spec, f)]
    return fs


# ------------------------------------------------------------------ corpus

def corpus_lines(prop):
    d = os.path.join(ROOT, "corpus", prop)
    res = []
    if os.path.isdir(d):
        for f in sorted(os.listdir(d)):
            for l in open(os.path.join(d, f)):
                l = l.strip()
                if l and not l.startswith("#"):
                    res.append(l)
    return res


# ------------------------------------------------------------------ the check

class Prop:
    id = "C00"
    modules = []          # Lean theorem modules
    engines = []          # names, informational
    trusted = []
    assumptions = []
    design_ref = ""
    claim = True          # False while the theorems are still being built (not listed in MANIFEST)

    def cases(self, tier, rng):
        return []

    def project(self, line, impl):
        """Projection of the implementation's raw result line onto what this property's model
        and specification talk about (identity by default).  Applied before any comparison."""
        return impl

    def project_all(self, lines, impls):
        """Batch form of `project` (override when the projection needs one external call for all lines)."""
        return [self.project(l, o) for l, o in zip(lines, impls)]

    def klass(self, line, impl):
        return impl.split(" ")[0] if impl else "empty"

    def trivial(self, line, impl):
        return False

    def shrink_candidates(self, line):
        """Smaller variants of a failing case line (engine specific); default none."""
        return []

    def extra(self, tier, rng, ctx):
        """Additional checks (e.g. source inventories). Returns list of (kind, message, replay_dict)."""
        return []


COMMON_TRUSTED = [
    "Lean 4.33.0 kernel (theorems re-elaborated by `lake build` on this run)",
    "axioms allowed in property theorems: propext, Classical.choice, Quot.sound (audited with #print axioms on this run)",
    "hand-written Lean models under lean/H3/Model tied to /repo by differential execution of the same case lines (h3run vs h3drv) on this run",
    "tools/extract.py (tables/constants regenerated from /repo's sources on this run)",
    "Lean compiler/runtime executing h3drv agrees with the kernel's view of the same definitions",
    "specifications in lean/H3/Spec and the spec halves of lean/H3/Drv are my transcription of the RFCs",
]


def write_replay(prop, name, data):
    d = os.path.join(ROOT, "replays")
    os.makedirs(d, exist_ok=True)
    p = os.path.join(d, "%s_%s.json" % (prop, name))
    data = dict(data)
    data["property"] = prop
    data["repo_head"] = repo_head()
    with open(p, "w") as f:
        json.dump(data, f, indent=1)
    return p


def shrink(prop, line, still_fails):
    """Greedy shrink using the property's candidate generator.  `Prop.shrink_budget` (optional, seconds): stop
    shrinking one failing case after that long and report what has been reached (C17: a failing case over real
    Quinn can take seconds per attempt)."""
    cur = line
    budget = getattr(prop, "shrink_budget", None)
    t0 = time.time()
    for _ in range(200):
        progressed = False
        for cand in prop.shrink_candidates(cur):
            if budget is not None and time.time() - t0 > budget:
                return cur
            if cand != cur and still_fails(cand):
                cur = cand
                progressed = True
                break
        if not progressed:
            break
    return cur


def run_check(prop, tier, seed):
    t0 = time.time()
    rng = random.Random(seed * 1000003 + int(hashlib.sha1(prop.id.encode()).hexdigest()[:6], 16))
    findings = load_findings()
    BATCH_CAP["cap"] = getattr(prop, "batch_timeout", None)
    BATCH_CAP["per_line"] = getattr(prop, "batch_line_allowance", None)
    BATCH_CAP["max_hangs"] = getattr(prop, "batch_max_hangs", None)
    broken = []        # names of obligations / correspondences that no longer check
    notes = []
    violations = []    # (replay path, suffix)
    known = []
    checker_cmds = []

    ok, log = regen()
    checker_cmds.append("python3 tools/extract.py /repo lean/H3/Gen")
    if not ok:
        # a refusal concerns this property only if the generated file is among the (transitive) imports of
        # its theorem modules or of its driver; another property's table is that property's obligation
        deps = lean_imports(list(prop.modules) + ["H3.Drv." + prop.id] + list(getattr(prop, "drv_modules", [])))
        for ln in log.strip().split("\n"):
            m = re.match(r"^extract: (\w+): \[([^\]]*)\] (.*)$", ln)
            if not m:
                if ln.startswith("extract:") or "Traceback" in ln or "Error" in ln:
                    broken.append("translator: " + ln[:300])
                continue
            gen = m.group(2)
            mod = "H3.Gen." + gen[:-5] if gen.endswith(".lean") else None
            if mod is None or mod in deps:
                broken.append("translator: extract: %s: %s" % (m.group(1), m.group(3)[:300]))
            else:
                notes.append("translator refused `%s` (%s); that file is not imported by this property's modules or driver, "
                             "so it is not an obligation of this property: %s" % (m.group(1), gen, m.group(3)[:160]))

    ok_drv, log = lake_build(["h3drv"])
    checker_cmds.append("lake build h3drv")
    if not ok_drv:
        broken.append("model-build: h3drv does not build: " + _first_error(log))

    thms = []
    discharged = []
    for m in prop.modules:
        names = theorems_of(m)
        thms += names
        okm, log = lake_build([m])
        checker_cmds.append("lake build " + m)
        if not okm:
            broken.append("theorem-module %s does not build: %s" % (m, _first_error(log)))
            continue
        aux = [] if names else aux_theorems_of(m)
        ax, raw = print_axioms(m, names + aux)
        checker_cmds.append("lake env lean <#print axioms of %d theorems of %s>" % (len(names) + len(aux), m))
        for n in names + aux:
            if n not in ax:
                broken.append("theorem %s: no #print axioms output" % n)
            elif not set(ax[n]) <= ALLOWED_AXIOMS:
                broken.append("theorem %s depends on axioms %s" % (n, ax[n]))
            elif n in names:
                discharged.append(n)
        if tier == "thorough":
            okc, logc = leanchecker(m)
            checker_cmds.append("lake env leanchecker " + m)
            if not okc:
                broken.append("leanchecker rejects %s: %s" % (m, logc.strip()[-300:]))
    bad = forbidden_tokens()
    if bad:
        broken.append("forbidden tokens: " + "; ".join(bad[:5]))

    ok_h, log = harness_build()
    if not ok_h:
        broken.append("harness-build: h3run does not build against /repo: " + _first_error(log))

    lines = []
    impl = model = spec = []
    classes = {}
    nontrivial = set()
    corr_bad = []
    spec_bad = []
    panics = []
    if ok_h:
        corpus = corpus_lines(prop.id)
        gen = prop.cases(tier, rng)
        rounds = int(getattr(prop, "thorough_rounds", 1)) if tier == "thorough" else 1
        for r in range(1, rounds):   # further rounds of the random parts (duplicates are dropped below)
            gen += prop.cases(tier, random.Random(rng.getrandbits(64) + r))
        nworkers = workers_for(prop)
        if rounds > 1:
            notes.append("thorough tier: %d independently seeded rounds of the random generators, duplicates dropped" % rounds)
        notes.append("implementation / model runs: %d process(es) side by side, batches of 2000 cases" % nworkers)
        seen = set()
        for l in corpus + gen:
            if l not in seen:
                seen.add(l)
                lines.append(l)
        budget = float(os.environ.get("VERIF_IMPL_BUDGET", "2400" if tier == "thorough" else "600"))
        raw = run_impl(lines, budget, nworkers)
        if SKIPPED in raw:
            kept = [i for i, r in enumerate(raw) if r != SKIPPED]
            notes.append("time budget of %.0f s for the implementation run exhausted: %d of %d cases not executed"
                         % (budget, len(lines) - len(kept), len(lines)))
            lines = [lines[i] for i in kept]
            raw = [raw[i] for i in kept]
        impl = prop.project_all(lines, raw)
        # a case on which the harness process died (`abort`: stack overflow, allocation failure, …) or did not
        # come back within the time budget (`hang`) is never projected away: no model or specification says so
        for i, r in enumerate(raw):
            if r in ("hang", "abort"):
                impl[i] = "process-" + r
        if ok_drv:
            model, spec = run_model(lines, nworkers)
        else:
            model, spec = ["?"] * len(lines), ["?"] * len(lines)
        for i, l in enumerate(lines):
            k = prop.klass_raw(l, raw[i]) if hasattr(prop, "klass_raw") else prop.klass(l, impl[i])
            classes[k] = classes.get(k, 0) + 1
            if not (prop.trivial_raw(l, raw[i]) if hasattr(prop, "trivial_raw") else prop.trivial(l, impl[i])):
                nontrivial.add(l)
            if ok_drv and untag(impl[i]) != untag(model[i]):
                corr_bad.append(i)
            if not spec_match(spec[i], impl[i]):
                spec_bad.append(i)
        for kind, msg, rep in prop.extra(tier, rng, {"lines": lines, "impl": impl, "model": model, "spec": spec}):
            if kind == "broken":
                broken.append(msg)
            elif kind == "violation":
                p = write_replay(prop.id, "extra%d" % len(violations), rep)
                violations.append((p, ""))
            elif kind == "known":      # a listed finding reproduced by a probe of `extra`: (finding, its case line)
                known.append((rep, msg))
            else:
                notes.append(msg)

    if corr_bad:
        i = corr_bad[0]
        broken.append("correspondence: %d case(s) differ, first: `%s` impl=`%s` model=`%s`"
                      % (len(corr_bad), lines[i], impl[i], model[i]))

    # failing inputs: implementation against the specification
    reported = set()
    for i in spec_bad:
        fs = waiving_findings(prop, lines[i], impl[i], model[i] if model else "", spec[i], findings)
        if fs:
            for f in fs:
                if f["key"] not in reported:
                    reported.add(f["key"])
                    known.append((f, lines[i]))
            continue
        if len(violations) >= 5:
            continue

        def still(c):
            # a smaller case must still fail AND still not be explained by a known finding (shrinking
            # must not walk from an unexplained failure into a recorded one and so hide it)
            try:
                im = prop.project_all([c], [run_impl([c])[0]])[0]
                mo, sp = run_model([c])
                return not spec_match(sp[0], im) and not waiving_findings(prop, c, im, mo[0], sp[0], findings)
            except Exception:
                return False
        small = shrink(prop, lines[i], still) if ok_drv else lines[i]
        im = prop.project_all([small], [run_impl([small])[0]])[0]
        mo, sp = (run_model([small]) if ok_drv else (["?"], ["?"]))
        fs2 = waiving_findings(prop, small, im, mo[0], sp[0], findings)
        if fs2:
            for f2 in fs2:
                if f2["key"] not in reported:
                    reported.add(f2["key"])
                    known.append((f2, small))
            continue
        p = write_replay(prop.id, "case%d" % len(violations), {
            "case": small, "original_case": lines[i], "impl": im, "model": mo[0], "spec": sp[0],
            "broken": broken, "seed": seed, "kind": "implementation disagrees with the specification",
        })
        violations.append((p, ""))

    if broken and not violations:
        p = write_replay(prop.id, "broken", {
            "broken": broken, "seed": seed,
            "kind": "a proof obligation or the model/code correspondence no longer checks; no input on which the implementation contradicts the specification was found in this run",
            "cases_searched": len(lines),
        })
        violations.append((p, " no-failing-input-found"))

    for f, l in known:
        print("KNOWN-FINDING: property=%s %s [case `%s`]" % (prop.id, f.get("what", f.get("key")), l))
    for b in broken:
        print("BROKEN: " + b)
    for n in notes:
        print("NOTE: " + n)

    # evidence
    samples = []
    step = max(1, len(lines) // 6)
    for i in list(range(0, len(lines), step))[:6]:
        samples.append({"case": lines[i], "impl": impl[i], "model": model[i], "spec": spec[i]})
    ev = {
        "property_id": prop.id,
        "tier": tier,
        "seed": seed,
        "level": "proof",
        "coverage": {
            "obligations": len(thms),
            "discharged": len(discharged),
            "checker_cmd": " && ".join(checker_cmds),
            "trusted_base": COMMON_TRUSTED + list(prop.trusted),
            "theorems": thms,
            "evaluations": len(lines),
            "distinct_nontrivial": len(nontrivial),
            "rule": prop.rule if hasattr(prop, "rule") else "",
            "samples": samples,
            "result_classes": classes,
            "correspondence": {"engines": prop.engines, "cases": len(lines), "disagreements": len(corr_bad)},
            "impl_vs_spec_disagreements": len(spec_bad),
            "broken": broken,
            "notes": notes,
        },
        "assumptions": list(prop.assumptions),
        "wall_s": round(time.time() - t0, 2),
        "violations": len(violations),
        "known_findings": [f.get("key") for f, _ in known],
        "repo_head": repo_head(),
    }
    os.makedirs(os.path.join(ROOT, "evidence"), exist_ok=True)
    with open(os.path.join(ROOT, "evidence", prop.id + ".json"), "w") as f:
        json.dump(ev, f, indent=1)

    print("%s tier=%s seed=%d theorems=%d/%d cases=%d nontrivial=%d corr_diff=%d spec_diff=%d wall=%.1fs"
          % (prop.id, tier, seed, len(discharged), len(thms), len(lines), len(nontrivial),
             len(corr_bad), len(spec_bad), time.time() - t0))
    for p, suffix in violations:
        print("VIOLATION property=%s replay=%s%s" % (prop.id, p, suffix))
    return 1 if violations else 0


def _first_error(log):
    for l in log.split("\n"):
        if l.startswith("error"):
            return l[:300]
    return log.strip()[-300:]


def replay(path, props):
    data = json.load(open(path))
    pid = data["property"]
    prop = props[pid]
    regen()
    okd, _ = lake_build(["h3drv"])
    okh, _ = harness_build()
    rc = 0
    if "case" in data and okd and okh:
        c = data["case"]
        raw = run_impl([c])[0]
        im = prop.project_all([c], [raw])[0]
        mo, sp = run_model([c])
        print("case : " + c)
        if raw != im:
            print("raw  : " + raw)
        print("impl : " + im)
        print("model: " + mo[0])
        print("spec : " + sp[0])
        if not spec_match(sp[0], im):
            print("VIOLATION property=%s replay=%s" % (pid, path))
            rc = 1
        elif untag(im) != untag(mo[0]):
            print("implementation and model differ (correspondence), specification satisfied")
    else:
        print(json.dumps(data, indent=1))
        # re-evaluate the named obligations
        for m in prop.modules:
            okm, log = lake_build([m])
            print("%s: %s" % (m, "builds" if okm else "DOES NOT BUILD: " + _first_error(log)))
            if not okm:
                rc = 1
        if rc:
            print("VIOLATION property=%s replay=%s no-failing-input-found" % (pid, path))
    return rc
