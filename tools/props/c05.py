import os
import re

import vlib
from vlib import Prop

# error kinds: local codes (h3 detected), QUIC-trait internal error (local, H3_INTERNAL_ERROR),
# remote close, timeout, undefined transport error
LOCAL = ["I261.%d", "I262.%d", "I257.%d", "I256.%d", "I512.%d"]
KINDS = ["I", "Qi", "Qa", "Qt", "Qu"]


def mk_err(kind, rng, tag):
    if kind == "I":
        return rng.choice(LOCAL) % tag
    if kind == "Qi":
        return "Qi.%d" % tag
    if kind == "Qa":
        return "Qa%d" % rng.choice([256, 258, 268, 0, 4611686018427387903])
    if kind == "Qt":
        return "Qt"
    return "Qu.%d" % tag


def interleavings(seqs):
    """all merges of the given label sequences (each keeps its own order)"""
    seqs = [list(s) for s in seqs if s]
    if not seqs:
        yield []
        return
    for i, s in enumerate(seqs):
        head, rest = s[0], s[1:]
        others = seqs[:i] + ([rest] if rest else []) + seqs[i + 1:]
        for tail in interleavings(others):
            yield [head] + tail


def n_interleavings(lens):
    from math import factorial
    r = factorial(sum(lens))
    for l in lens:
        r //= factorial(l)
    return r


def random_merge(seqs, rng):
    seqs = [list(s) for s in seqs if s]
    out = []
    while seqs:
        # uniform over merges: pick a sequence with probability proportional to its length
        tot = sum(len(s) for s in seqs)
        k = rng.randrange(tot)
        for s in seqs:
            if k < len(s):
                out.append(s.pop(0))
                break
            k -= len(s)
        seqs = [s for s in seqs if s]
    return out


POLL = ["D.poll", "D.pce", "D.pce", "D.park"]
LATER_D = ["D.poll", "D.pce", "D.pce", "D.park", "D.poll", "D.pce", "D.pce"]
ACC_ROUNDS = 3  # poll_connection_error calls in one poll of server::Connection::accept and of client::Connection::
                # poll_close / wait_idle on an idle connection (poll_control, poll_accept_recv, poll_accept_bi); the
                # harness answers `bad-flow` when the real control flow makes another number of calls


class C05(Prop):
    id = "C05"
    parallel = False   # engine is timing-sensitive (real Quinn loopback / OS threads parked at hooks): one harness process at a time
    modules = ["H3.Props.C05", "H3.Lemmas.GenAgreeDgSend"]
    engines = ["cell", "cellmv", "flt5", "hnd5"]
    design_ref = "DESIGN.md section 7, C05; Appendix B.2"
    level_text = ("Lean theorems over a small-step model of the connection error cell (OnceLock cell, AtomicWaker, executor "
                  "notification, driver pc/handled/close calls, n stream handles): for every number of handles, every error "
                  "assignment and every schedule (induction over the schedule): the cell changes at most once and every value "
                  "returned to any handle or by the driver is convert(cell), for ever; close is called at most once, only for a "
                  "locally detected winner, with exactly its code; with register-before-check no reachable quiescent state has the "
                  "cell set and the driver parked without a pending notification; with check-before-register a five-step schedule "
                  "loses the wake-up (decide); shutdown() starts with the same check without a waker (check_connection_error): in "
                  "every reachable state with the cell set it answers convert(cell), closes exactly closeOf(cell), and with a "
                  "handled error it decides to report it before sent_closing or the control stream are touched; the tail of "
                  "client poll_close (poll_accept_bi Ready with a stream or with the transport's error, then "
                  "handle_connection_error(H3_STREAM_CREATION_ERROR)) is a driver step of the model (DOp.bidi) covered by all "
                  "of the above, and in every reachable state it ends the poll with the error already in the cell if there is "
                  "one, else the transport's, else 0x0103, closed exactly closeOf(winner); Drop for server::Connection "
                  "(close(H3_NO_ERROR), unconditional) appends one call and never changes the first close call (reading R-05); "
                  "the shutdown() check is a step of the small-step machine (DOp.shut = check_connection_error, enabled while the "
                  "driver is not inside a poll, so every forall-schedule theorem ranges over histories with shutdown calls) that is "
                  "Setup.checkError on every state (C05_shutdown_step_is_the_check), and the plan of the whole-connection model "
                  "flt5 (handled alone) is the plan made from cell AND handled on every state a connection without request "
                  "handles can reach (C05_shutdownPlan_is_the_check)")
    level_note = ("trusted: Lean kernel + 3 standard axioms; the model is tied to the code by executing every interleaving (at the "
                  "granularity of the pre-emption hooks) of driver polls with 1..3 raising handles on the real SharedState/"
                  "ConnectionInner of a real server::Connection over the in-memory transport, OS threads parked at the hooks; "
                  "PARTIAL: OnceLock/AtomicWaker internals and weak-memory effects are assumed linearizable with their documented "
                  "semantics, the model's steps are their documented atomic operations")
    rule = ("cases: all interleavings of one driver poll [poll, pce, pce, park] with 1..3 handles [store, wake] (15 + 420 x all 25 "
            "ordered pairs of error kinds + 18900), each followed by later calls on every handle and two more driver polls; all "
            "interleavings of a poll ending in a driver-detected error and of two successive polls with 1..2 handles; all "
            "interleavings of one poll of the real accept() future (3 poll_connection_error rounds, ending in Pending or in a "
            "transport error) with 1..2 handles; the same for the client's driver, as client::Connection::poll_close called "
            "directly (mode clo) and as the wait_idle() future (mode idl), ending in Pending, in a transport error (raised by "
            "poll_accept_bi, H3_STREAM_CREATION_ERROR raised behind it) or in a server-initiated bidirectional stream (the "
            "error h3 detects itself there), quick tier: 1 handle all, 2 handles a random 35 %; engine `flt5` (tools/props/faults.py): whole connections over SimQuic whose "
            "transport fails at every call of the setup (the `*_raw` error paths used before the connection object exists), at "
            "the own control stream's writes, at poll_accept_recv / poll_accept_bidi / reads, on the grease stream, x every "
            "ConnectionErrorIncoming / StreamErrorIncoming variant, followed by later accept/wait_idle/shutdown calls; the history "
            "is judged by H3.Spec.Faults (one outcome, reported by every later driver call incl. shutdown, close exactly for "
            "locally detected errors, once, with that code), plus (faults.drop_cases) the application dropping the driver "
            "before / between / after the calls that meet the error, every error source x both roles x grease on/off: the "
            "first close is judged as before, the Drop's close(H3_NO_ERROR) is accepted once behind the drop (R-05); label D.shut "
            "(engine cell: the real shutdown() of server::Connection / client::Connection in modes acc/clo/idl, "
            "check_connection_error in mode pce) in every interleaving with 1..2 handles' store/wake, alone, behind a parked "
            "poll, in front of a poll, and in the random histories; the cell oracle admits only `reported and closed` once "
            "every driver call made behind the winner must have reported (a shutdown call, or a complete poll_connection_error "
            "call of a poll that began behind the winner's store); engine hnd5 (tools/props/handles.py): whole connections "
            "over SimQuic in which a REAL request handle detects the error (resolve_request / recv_response on a request "
            "stream carrying DATA before HEADERS, SETTINGS, a frame cut by the end of the stream, a HEADERS frame QPACK "
            "cannot decode; a pending read meeting the transport's timeout / close), merged in every order (all merges up to "
            "60, else 60 random; thorough 400) with accept / wait_idle / shutdown / send_request and a second handle that is "
            "healthy or poisoned with another error, judged by H3.Drv.Hnd.verdict; `cell dg`: the datagram handle of "
            "h3-datagram on the real code (it answers the cell's winner: D-05g repaired); flt5 histories with a token outside the oracle's alphabet are "
            "refused (bad:unknown-token), never `ok`; non-trivial = some error was raised and the line is not "
            "bad-op/bad-flow/panic")
    trusted = ["futures_util::task::AtomicWaker and std::sync::OnceLock are linearizable with their documented semantics "
               "(register stores the waker, wake takes and wakes it, get_or_init stores at most once)",
               "the harness scheduler (one OS thread per task, exactly one released at a time) realises the schedule it is given"]
    assumptions = ["an executor polls a task again after its waker has fired (woken=1 is not a lost wake-up)",
                   "scope of the no-lost-wake-up theorem: polls that answer Pending only after a poll_connection_error call of "
                   "the same poll has answered Pending (the model's `park` is enabled only in pc `armed`). True of every POLLED "
                   "driver entry point, because all of them go through the three ConnectionInner methods poll_control, "
                   "poll_accept_recv, poll_accept_bi, each of which starts with `poll_connection_error(cx)?` (re-read from the "
                   "source on every run: note `entry points`): server::Connection::accept in its polling phase and the "
                   "feature-gated poll_accept_request_stream (both = poll_accept_request_stream_internal: server poll_control -> "
                   "poll_next_control -> inner.poll_control -> inner.poll_accept_recv, then inner.poll_accept_bi), "
                   "client::Connection::poll_close and wait_idle (inner.poll_control, then inner.poll_accept_bi before Pending); "
                   "3 calls per poll on an idle connection, executed as the real futures in modes acc / clo / idl (another number "
                   "of calls is `bad-flow`); h3-webtransport polls the connection through the server's "
                   "poll_accept_request_stream and inner.poll_accept_recv only",
                   "NOT true of shutdown (server::Connection::shutdown, client::Connection::shutdown, and the shutdown(0) that "
                   "accept runs after Ok(None)): ConnectionInner::shutdown looks at the error once, on entry, with "
                   "check_connection_error — the check of poll_connection_error WITHOUT registering a waker (since ef36900; "
                   "modelled: Setup.checkError / shutdownPlan; proved: C05_shutdown_reports_error, "
                   "C05_shutdown_after_error_writes_nothing; checked on whole connections by engine flt5, whose oracle demands the "
                   "error of every shutdown call made after it was reported) — and afterwards answers Pending only from the "
                   "transport (stream::write of the GOAWAY frame waiting for write credit on the control stream), in a poll in "
                   "which the connection's waker was not registered. An error raised while shutdown waits there is reported by "
                   "the NEXT driver call, not by that shutdown call, and the connection is not closed before; the theorem makes "
                   "no statement about a driver parked inside shutdown's write (real code: `conn server g0,ev=1 o2 s2:000400 o0 "
                   "s0:0100 conn.A cw3:0 conn.S:0 s0:0d00 q0.res` => q0.res=err:conn:local:QPACK_DECOMPRESSION_FAILED, "
                   "closed=[], pending=[conn.S]; with `gw3:100 conn.A` appended: conn.S=ok, then close:512 and the error)",
                   "the builder (ConnectionInner::new, send_control_stream_headers) runs before a request handle exists; its "
                   "error paths are flt5's",
                   "reading R-05: `closed with exactly that error's code` is judged on the FIRST close call (the one that closes "
                   "the QUIC connection), strictly; the close(H3_NO_ERROR) that Drop for server::Connection adds when the "
                   "application drops the driver is accepted once, only behind `<task>.D=ok` (engine flt5, "
                   "faults.drop_cases); a close made by nobody but the driver is demanded only once a driver call has met the "
                   "error",
                   "engine hnd5: what the bytes on a request stream make the handle detect is a table over the generator's "
                   "pool on the model side (the frame layer is C02/C03's subject; a wrong entry is a correspondence difference) "
                   "and the RFC's rule on the oracle side (RFC 9114 4.1, 7.1, 7.2.4; RFC 9204 2.2.3); within one op's segment the "
                   "request handles' answers are compared as a sorted list (the order in which the executor polls tasks woken "
                   "together is not modelled), close calls and the driver's answers in their order",
                   "the datagram handle (h3-datagram DatagramSender) counts as a handle of C05: it is a ConnectionState "
                   "implementor bound to a request stream id, usable from any task, and writes the connection's error cell "
                   "through set_conn_error_and_wake like every request handle; its report is judged like theirs (reading R-05c; D-05g, repaired)"]

    # ---------------------------------------------------------------- cases

    def line(self, mode, errs, labels):
        specs = " ".join("S%d=%s" % (i + 1, ",".join(e) if e else "-") for i, e in enumerate(errs))
        return "cell %s %s : %s" % (mode, specs, " ".join(labels))

    def later(self, n):
        # later calls: every handle raises once more, the driver is polled twice more
        tail = []
        for k in range(n):
            tail += ["S%d" % (k + 1)] * 2
        return tail + LATER_D

    def cases(self, tier, rng):
        L = []
        big = tier == "thorough"
        tag = [0]

        def errs_for(kinds, second=True):
            out = []
            for k in kinds:
                tag[0] += 1
                e = [mk_err(k, rng, tag[0] % 97)]
                if second:
                    tag[0] += 1
                    e.append(mk_err(rng.choice(KINDS), rng, tag[0] % 97))
                out.append(e)
            return out

        # the defect witness first (D-05): check . store . wake . register . park
        L.append("cell pce S1=I261.1 : D.poll D.pce S1 S1 D.pce D.park")
        # 1 handle: every interleaving x every kind
        for il in interleavings([POLL, ["S1", "S1"]]):
            for k in KINDS:
                L.append(self.line("pce", errs_for([k]), il + self.later(1)))
        # 2 handles: every interleaving x every ordered pair of kinds
        for il in interleavings([POLL, ["S1", "S1"], ["S2", "S2"]]):
            for k1 in KINDS:
                for k2 in KINDS:
                    if not big and rng.random() < 0.5:
                        continue
                    L.append(self.line("pce", errs_for([k1, k2]), il + self.later(2)))
        # 3 handles: every interleaving, kinds drawn
        for il in interleavings([POLL, ["S1", "S1"], ["S2", "S2"], ["S3", "S3"]]):
            reps = 3 if big else 1
            for _ in range(reps):
                ks = [rng.choice(KINDS) for _ in range(3)]
                L.append(self.line("pce", errs_for(ks, second=False), il + ["D.poll", "D.pce", "D.pce"]))
        # a poll that ends with an error the driver detects itself
        for n in (1, 2):
            for il in interleavings([["D.poll", "D.pce", "D.pce", "D.det:X"]] + [["S%d" % (k + 1)] * 2 for k in range(n)]):
                for kd in KINDS:
                    tag[0] += 1
                    d = "D.det:" + mk_err(kd, rng, tag[0] % 97)
                    ks = [rng.choice(KINDS) for _ in range(n)]
                    L.append(self.line("pce", errs_for(ks), [d if x == "D.det:X" else x for x in il] + self.later(n)))
        # a driver-detected error before any poll_connection_error call of the poll
        for il in interleavings([["D.poll", "D.det:X"], ["S1", "S1"]]):
            for kd in KINDS:
                tag[0] += 1
                d = "D.det:" + mk_err(kd, rng, tag[0] % 97)
                L.append(self.line("pce", errs_for([rng.choice(KINDS)]), [d if x == "D.det:X" else x for x in il] + self.later(1)))
        # two successive polls (the waker registered by the first is still there)
        for n in (1, 2):
            for il in interleavings([POLL + POLL] + [["S%d" % (k + 1)] * 2 for k in range(n)]):
                ks = [rng.choice(KINDS) for _ in range(n)]
                L.append(self.line("pce", errs_for(ks, second=False), il + ["D.poll", "D.pce", "D.pce"]))
        # polls with several poll_connection_error rounds, every interleaving with one handle
        for rounds in (2, 3):
            for il in interleavings([["D.poll"] + ["D.pce"] * (2 * rounds) + ["D.park"], ["S1", "S1"]]):
                L.append(self.line("pce", errs_for([rng.choice(KINDS)]), il + self.later(1)))
        # the real accept() future: 3 rounds, then Pending or a transport error
        acc = ["D.poll"] + ["D.pce"] * (2 * ACC_ROUNDS)
        for n in (1, 2):
            for end in ("D.park", "D.det:Q"):
                for il in interleavings([acc + [end]] + [["S%d" % (k + 1)] * 2 for k in range(n)]):
                    tag[0] += 1
                    d = "D.det:" + mk_err(rng.choice(["Qi", "Qa", "Qt", "Qu"]), rng, tag[0] % 97)
                    ks = [rng.choice(KINDS) for _ in range(n)]
                    L.append(self.line("acc", errs_for(ks, second=False),
                                       [d if x == "D.det:Q" else x for x in il] + acc + ["D.park"]))
        # the client's driver in real-future mode: `clo` = client::Connection::poll_close called directly, `idl` = the
        # wait_idle() future; the same 3 rounds, then the transport's poll_accept_bidi answers Pending (D.park), fails
        # (D.det:<quic error>; poll_accept_bi raises it, then poll_close raises H3_STREAM_CREATION_ERROR behind it) or
        # hands out a server-initiated bidirectional stream (D.det:I259.0: the error h3 detects itself at this point)
        for mode in ("clo", "idl"):
            for n in (1, 2):
                for end in ("D.park", "D.det:Q", "D.det:B"):
                    for il in interleavings([acc + [end]] + [["S%d" % (k + 1)] * 2 for k in range(n)]):
                        if n == 2 and not big and rng.random() < 0.65:
                            continue
                        tag[0] += 1
                        d = "D.det:" + mk_err(rng.choice(["Qi", "Qa", "Qt", "Qu"]), rng, tag[0] % 97)
                        ks = [rng.choice(KINDS) for _ in range(n)]
                        sub = {"D.det:Q": d, "D.det:B": "D.det:I259.0"}
                        L.append(self.line(mode, errs_for(ks, second=False), [sub.get(x, x) for x in il] + acc + ["D.park"]))
        # shutdown() (label D.shut: `check_connection_error`, the check without a waker) against the handles' raises:
        # before / between / after a handle's store and wake, alone, behind a parked poll, in front of a poll; mode pce
        # calls check_connection_error directly, so the label may stand anywhere the driver is idle
        n_shut = len(L)
        for dseq in (["D.shut", "D.shut"], POLL + ["D.shut"], ["D.shut"] + POLL, POLL + ["D.shut"] + POLL):
            for n in (1, 2):
                if n == 2 and len(dseq) > 5 and not big:
                    continue
                for il in interleavings([dseq] + [["S%d" % (k + 1)] * 2 for k in range(n)]):
                    for k1 in (KINDS if n == 1 else [rng.choice(KINDS)]):
                        ks = [k1] + [rng.choice(KINDS) for _ in range(n - 1)]
                        L.append(self.line("pce", errs_for(ks), il + self.later(n) + ["D.park", "D.shut"]))
        # ... and on the real futures: shutdown() of server::Connection / client::Connection itself, called between two
        # polls of accept() / poll_close / wait_idle once a handle has stored its error (on an empty cell the real
        # shutdown() would write its GOAWAY and change what the next poll does: the pce lines cover that side)
        for mode in ("acc", "clo", "idl"):
            for n in (1, 2):
                for il in interleavings([acc + ["D.park", "D.shut"]] + [["S%d" % (k + 1)] * 2 for k in range(n)]):
                    if min(il.index("S%d" % (k + 1)) for k in range(n)) > il.index("D.shut"):
                        continue
                    if n == 2 and not big and rng.random() < 0.8:
                        continue
                    ks = [rng.choice(KINDS) for _ in range(n)]
                    L.append(self.line(mode, errs_for(ks, second=False), il + acc + ["D.park", "D.shut"]))
                for pre in ([], ["D.shut"]):
                    for il in interleavings([["D.shut"] + acc + ["D.park"]] + [["S%d" % (k + 1)] * 2 for k in range(n)]):
                        if min(il.index("S%d" % (k + 1)) for k in range(n)) > il.index("D.shut"):
                            continue
                        if not big and rng.random() < (0.5 if n == 1 else 0.9):
                            continue
                        ks = [rng.choice(KINDS) for _ in range(n)]
                        L.append(self.line(mode, errs_for(ks, second=False), il + pre + ["D.poll", "D.pce"]))
        self.n_shut = len(L) - n_shut
        # random longer histories: several polls, detections, shutdown calls, up to 3 handles raising up to 3 errors
        for _ in range(20000 if big else 3000):
            n = rng.randrange(1, 4)
            errs = []
            for k in range(n):
                m = rng.randrange(1, 4)
                es = []
                for _ in range(m):
                    tag[0] += 1
                    es.append(mk_err(rng.choice(KINDS), rng, tag[0] % 97))
                errs.append(es)
            d = []
            for _ in range(rng.randrange(1, 4)):
                if rng.random() < 0.3:
                    d.append("D.shut")
                d.append("D.poll")
                d += ["D.pce"] * (2 * rng.randrange(0, 3) + rng.choice([0, 0, 0, 1]))
                r = rng.random()
                if r < 0.6:
                    d.append("D.park")
                elif r < 0.8:
                    tag[0] += 1
                    d.append("D.det:" + mk_err(rng.choice(KINDS), rng, tag[0] % 97))
                if rng.random() < 0.15:
                    d.append("D.shut")
            seqs = [d] + [["S%d" % (k + 1)] * (2 * len(errs[k])) for k in range(n)]
            L.append(self.line("pce", errs, random_merge(seqs, rng)))
        # the same scenarios with the driver polled from a different task each time (every poll has
        # its own waker; only a wake through the latest one reaches the parked task): engine `cellmv`
        # compares the cell, the reports, the close calls and `lost`
        mv = [l for l in L if l.startswith("cell ") and l.count("D.poll") >= 2]
        rng.shuffle(mv)
        for l in mv[:(20000 if big else 4000)]:
            L.append("cellmv " + l[len("cell "):])
        # whole connections whose transport fails (setup, control stream writes, accept, reads, grease stream)
        from props import faults
        L += ["flt5 " + l[len("flt "):] for l in faults.cases(big, rng)]
        # ... and the application dropping the driver before / between / after the calls that meet the error (R-05)
        L += ["flt5 " + l[len("flt "):] for l in faults.drop_cases(big, rng)]
        # whole connections in which a REAL request handle detects the connection error (a frame error / QPACK failure on
        # its request stream, a pending read meeting the transport's error), the driver's, send_request's and the other
        # handles' calls in every order (engine hnd5: tools/props/handles.py, lean/H3/Drv/Hnd.lean)
        from props import handles
        L += handles.cases(big, rng)
        # the datagram handle of the sibling crate (h3-datagram DatagramSender, a ConnectionState implementor bound to a
        # request stream id): the transport fails its send_datagram, with the cell empty or holding an earlier error
        for first in ("-", "I261.1", "I512.2", "Qa256", "Qt", "Qi.2"):
            for q in ("Qt", "Qa256", "Qa0", "Qi.3", "Qu.5"):
                L.append("cell dg %s %s" % (first, q))
        return L

    def project_all(self, lines, impls):
        from props import faults, handles
        res = list(impls)
        for pre, mod in (("flt", faults), ("hnd5 ", handles)):
            idx = [i for i, l in enumerate(lines) if l.startswith(pre)]
            for i, p in zip(idx, mod.project_all([lines[i] for i in idx], [impls[i] for i in idx])):
                res[i] = p
        return res

    # ---------------------------------------------------------------- statistics

    def klass(self, line, impl):
        w = line.split()
        if w[0].startswith("flt"):
            from props import faults
            return faults.klass(line, impl)
        if w[0] == "hnd5":
            from props import handles
            return handles.klass(line, impl)
        if w[:2] == ["cell", "dg"]:
            t = impl.split()
            return "dg/first=%s/q=%s/%s" % (w[2][:2], w[3][:2], "same" if len(t) > 2 and t[1][3:] == t[2][4:] else "different")
        n = sum(1 for x in w if x.startswith("S") and "=" in x)
        toks = impl.split(" | ")[0].split()
        f = dict(t.split("=", 1) for t in toks if "=" in t)
        for k in ("woken", "parked", "quiet"):
            if k in toks[:-1]:
                f[k] = toks[toks.index(k) + 1]
        if not f:
            return "%s/%s" % (w[1], impl.split(" ")[0] if impl else "empty")
        drv = f.get("drv", "?")
        drv = "err" if drv.startswith("E:") else drv
        cell = f.get("cell", "-")
        kind = "none" if cell == "-" else (cell[:1] if cell[0] == "I" else cell[:2])
        # how the notification reached the driver: while it was parked, inside a poll, or never
        parked = woken = False
        path = set()
        for t in impl.split(" | ")[1].split() if " | " in impl else []:
            now = t.endswith("!")
            if t.startswith("D.poll"):
                parked = False
            if now and not woken:
                path.add("parked" if parked else "running")
            if t.startswith("D.park"):
                parked = True
            woken = now
        return "%s/n%d/win=%s/drv=%s/closed=%s/parked=%s/woken=%s/wake=%s" % (
            w[1], n, kind, drv, "0" if f.get("closes") == "-" else "1", f.get("parked"), f.get("woken"),
            "+".join(sorted(path)) or "none")

    def trivial(self, line, impl):
        if line.startswith("flt"):
            from props import faults
            return faults.trivial(line, impl)
        if line.startswith("hnd5 "):
            from props import handles
            return handles.trivial(line, impl)
        if line.startswith("cell dg "):
            return False
        return not impl.startswith("cell=") or impl.startswith("cell=- ")

    def shrink_candidates(self, line):
        if line.startswith("cell dg "):
            return []
        if line.startswith("hnd5 "):
            from props import handles
            return handles.shrink_candidates(line)
        if line.startswith("flt"):
            w = line.split()
            return [" ".join(w[:3] + w[3:3 + i] + w[4 + i:]) for i in range(len(w) - 3) if len(w) > 4]
        head, _, sched = line.partition(" : ")
        labels = sched.split()
        out = []
        for i in range(len(labels) - 1, -1, -1):
            out.append(head + " : " + " ".join(labels[:i] + labels[i + 1:]))
        w = head.split()
        if len(w) > 3:
            k = len(w) - 2
            out.append(" ".join(w[:-1]) + " : " + " ".join(l for l in labels if l != "S%d" % k))
        for i, s in enumerate(w[2:]):
            name, _, es = s.partition("=")
            if "," in es:
                out.append(" ".join(w[:2 + i] + [name + "=" + es.rsplit(",", 1)[0]] + w[3 + i:]) + " : " + sched)
        return [o for o in out if o.split(" : ")[1:] and o.split(" : ")[1].strip()]

    # ---------------------------------------------------------------- source inventory

    def extra(self, tier, rng, ctx):
        """The harness raises errors through its own `CloseStream` implementor, which uses the
        trait's default methods. That stands for the real handles only while (a) no implementor in
        the repository overrides a method of `CloseStream`/`ConnectionState` other than
        `shared_state`, and (b) the error cell and the connection waker are touched nowhere but in
        the two modelled files."""
        res = []
        src = os.path.join(vlib.REPO, "h3", "src")
        files = []
        for d, _, fs in os.walk(src):
            for f in fs:
                if f.endswith(".rs"):
                    files.append(os.path.join(d, f))
        n_impl = 0
        for p in sorted(files):
            code = open(p).read()
            rel = os.path.relpath(p, vlib.REPO)
            for m in re.finditer(r"impl\s*(<[^{]*?>)?\s*CloseStream\s+for\s+[^{]*\{([^}]*)\}", code, re.S):
                n_impl += 1
                if m.group(2).strip():
                    res.append(("broken", "source inventory: %s overrides a CloseStream method: the harness handle no longer "
                                "stands for it" % rel, {}))
            for m in re.finditer(r"impl\s*(<[^{]*?>)?\s*ConnectionState\s+for\s+[^{]*\{(.*?)\n\}", code, re.S):
                fns = re.findall(r"fn\s+(\w+)", m.group(2))
                if fns != ["shared_state"]:
                    res.append(("broken", "source inventory: %s overrides ConnectionState methods %s" % (rel, fns), {}))
            if not rel.endswith(("shared_state.rs", "connection_error_creators.rs", "verif_hooks.rs")):
                for pat in (r"\.connection_error\b", r"waker\(\)\s*\.\s*(register|wake|take)\s*\(", r"\bget_conn_error\s*\(",
                            r"\bset_conn_error(_and_wake)?\s*\("):
                    if re.search(pat, code):
                        res.append(("broken", "source inventory: %s touches the error cell / connection waker directly (%s)"
                                    % (rel, pat), {}))
        if n_impl < 4:
            res.append(("broken", "source inventory: found only %d CloseStream implementors (parser out of date?)" % n_impl, {}))
        res += self.entry_points()
        res.append(("note", "source inventory: %d CloseStream implementors, all with the default methods; error cell and "
                    "connection waker are used only in shared_state.rs and connection_error_creators.rs" % n_impl, {}))
        res += self.sibling_inventory()
        return res

    def sibling_inventory(self):
        """The same questions for the sibling crates, whose handles share the connection's `SharedState`, and for the places
        where a `ConnectionError` value is BUILT (a handle that builds one itself can report another error than the cell's).
        Expected, and re-read on every run (anything else is `BROKEN`): h3-datagram and h3-webtransport implement
        `ConnectionState` with `shared_state` only and `CloseStream` with the default methods; there is NO direct use of the
        cell outside h3 (D-05g repaired: `DatagramSender::handle_send_datagram_error` goes through the default
        `handle_quic_stream_error` like every other handle); the only place outside `connection_error_creators.rs` that builds
        a `ConnectionError` is the second arm of the `match` on that call's answer in the same function, which is not reachable
        (`handle_quic_stream_error` answers `StreamError::ConnectionError` to a `ConnectionErrorIncoming`: read on every run by
        the translator, `dg_send_arms`) — executed on the real code by the `cell dg` lines."""
        res = []
        n_state = n_close = 0
        direct, built = {}, {}
        for crate in ("h3", "h3-datagram", "h3-webtransport", "h3-quinn"):
            for d, _, fs in os.walk(os.path.join(vlib.REPO, crate, "src")):
                if os.sep + "tests" in d:
                    continue
                for f in sorted(fs):
                    if not f.endswith(".rs"):
                        continue
                    rel = os.path.relpath(os.path.join(d, f), vlib.REPO)
                    code = "\n".join(ln.split("//")[0] for ln in open(os.path.join(d, f)).read().split("\n"))
                    if crate != "h3":
                        for m in re.finditer(r"impl\s*(<[^{]*?>)?\s*CloseStream\s+for\s+[^{]*\{([^}]*)\}", code, re.S):
                            n_close += 1
                            if m.group(2).strip():
                                res.append(("broken", "sibling inventory: %s overrides a CloseStream method" % rel, {}))
                        for m in re.finditer(r"impl\s*(<[^{]*?>)?\s*ConnectionState\s+for\s+[^{]*\{(.*?)\n\}", code, re.S):
                            n_state += 1
                            fns = re.findall(r"fn\s+(\w+)", m.group(2))
                            if fns != ["shared_state"]:
                                res.append(("broken", "sibling inventory: %s overrides ConnectionState methods %s" % (rel, fns), {}))
                        for pat in (r"\.connection_error\b", r"waker\(\)\s*\.\s*(register|wake|take)\s*\(", r"\bget_conn_error\s*\(",
                                    r"\bset_conn_error(_and_wake)?\s*\("):
                            n = len(re.findall(pat, code))
                            if n:
                                direct[(rel, pat)] = n
                    # `ConnectionError::X` followed by `=>` / `if` / `{ error }` inside a `match` is a pattern; what is left
                    # is counted per file and compared with the expected table
                    n = 0
                    for m in re.finditer(r"\bConnectionError::(Local|Remote|Timeout)\b", code):
                        if re.search(r"\b(quinn|quic)::\s*$", code[max(0, m.start() - 8):m.start()]):
                            continue
                        tail = code[m.end():m.end() + 160]
                        if re.match(r"\s*(\{[^}]*\}|\([^)]*\)(\s*\))?)?\s*(=>|if\b)", tail, re.S):
                            continue
                        n += 1
                    if n:
                        built[rel] = n
        want_direct = {}
        if direct != want_direct:
            res.append(("broken", "sibling inventory: direct uses of the error cell / waker in the sibling crates are %s, expected "
                        "none (a handle that writes the cell itself can drop its winner: D-05g)" % sorted(direct.items()), {}))
        want_built = {"h3/src/error/connection_error_creators.rs": 7, "h3-datagram/src/datagram_handler.rs": 1}
        got = {k: v for k, v in built.items() if not k.endswith("error/error.rs")}
        if got != want_built:
            res.append(("broken", "sibling inventory: ConnectionError values are built in %s, expected %s (the common conversion, "
                        "the two *_raw paths used before the connection exists, and the unreachable arm of the datagram sender behind "
                        "handle_quic_stream_error)"
                        % (sorted(got.items()), sorted(want_built.items())), {}))
        if n_state < 4 or n_close < 3:
            res.append(("broken", "sibling inventory: found only %d ConnectionState / %d CloseStream implementors in the sibling "
                        "crates (parser out of date?)" % (n_state, n_close), {}))
        if not any(k == "broken" for k, _, _ in res):
            res.append(("note", "sibling inventory: h3-datagram / h3-webtransport: %d ConnectionState implementors (shared_state only), "
                        "%d CloseStream implementors (default methods); no direct use of the cell outside h3; one "
                        "ConnectionError built outside connection_error_creators.rs (7 there): the arm of "
                        "DatagramSender::handle_send_datagram_error behind an answer handle_quic_stream_error does not give "
                        "(lines `cell dg`; D-05g repaired)" % (n_state, n_close), {}))
        return res


    # ---------------------------------------------------------------- driver entry points

    @staticmethod
    def fn_body(code, name):
        """text of the body of `fn <name>` (first definition), None if there is none"""
        m = re.search(r"\bfn\s+%s\b" % re.escape(name), code)
        if not m:
            return None
        i = code.index("{", m.end())
        depth, j = 0, i
        while j < len(code):
            if code[j] == "{":
                depth += 1
            elif code[j] == "}":
                depth -= 1
                if depth == 0:
                    return code[i + 1:j]
            j += 1
        return None

    @staticmethod
    def statements(body):
        """the body without comments, attributes and the verification hook calls, white space collapsed"""
        out = []
        for ln in body.split("\n"):
            t = ln.split("//")[0].strip()
            if not t or t.startswith("#[") or "verif_hooks::point" in t:
                continue
            out.append(t)
        return re.sub(r"\s+", " ", " ".join(out))

    def entry_points(self):
        """The assumption `a poll answers Pending only after poll_connection_error answered Pending in it` is a statement
        about the source; what can be read off syntactically is re-read on every run: (a) the three ConnectionInner methods
        every polled entry point goes through start with `poll_connection_error(cx)?`, `shutdown` starts with
        `check_connection_error()?`; (b) the polled / async methods of server::Connection and client::Connection are the ones
        listed in the assumption text and reach the transport only through (a); (c) nobody else calls the two checks."""
        res = []

        def src(rel):
            return open(os.path.join(vlib.REPO, rel)).read()

        def need(rel, code, fn, pattern, what):
            body = self.fn_body(code, fn)
            st = self.statements(body) if body is not None else None
            if st is None or not re.match(pattern, st):
                res.append(("broken", "entry points: %s `%s` %s (found: %s)" % (rel, fn, what, (st or "no such fn")[:90]), {}))

        rel = "h3/src/connection.rs"
        inner = src(rel)
        first = r"^let _ = self\.poll_connection_error\(cx\)\?;"
        for fn in ("poll_accept_bi", "poll_accept_recv", "poll_control"):
            need(rel, inner, fn, first, "does not start with poll_connection_error(cx)?")
        need(rel, inner, "shutdown", r"^self\.check_connection_error\(\)\?;", "does not start with check_connection_error()?")
        # the transport's accept calls are made by these methods only
        for pat, owner in ((r"\.conn\s*\.\s*poll_accept_bidi\(", "poll_accept_bi"), (r"\.conn\s*\.\s*poll_accept_recv\(", "poll_accept_recv")):
            if len(re.findall(pat, inner)) != 1 or len(re.findall(pat, self.fn_body(inner, owner) or "")) != 1:
                res.append(("broken", "entry points: %s calls the transport's accept (%s) outside `%s`" % (rel, pat, owner), {}))
        rel_s, rel_c = "h3/src/server/connection.rs", "h3/src/client/connection.rs"
        server, client = src(rel_s), src(rel_c)
        need(rel_s, server, "poll_accept_request_stream_internal",
             r"^let _ = self\.poll_control\(cx\)\?; let _ = self\.poll_requests_completion\(cx\); (?:let mut \w+ = false; )?loop \{ let conn = "
             r"self\.inner\.poll_accept_bi\(cx\)\?;", "does not run poll_control, then inner.poll_accept_bi")
        need(rel_s, server, "poll_control", r"^while \(self\.poll_next_control\(cx\)\?\)\.is_ready\(\) \{\} Poll::Pending$",
             "is not the loop over poll_next_control")
        need(rel_s, server, "poll_next_control", r"^let frame = ready!\(self\.inner\.poll_control\(cx\)\)\?;",
             "does not start with inner.poll_control")
        need(rel_s, server, "accept", r"^let stream = match poll_fn\(\|cx\| self\.poll_accept_request_stream_internal\(cx\)\)"
             r"\.await\? \{ Some\(s\) => .*? None => \{ self\.shutdown\(0\)\.await\?; return Ok\(None\); \} \};",
             "is not poll_accept_request_stream_internal, then shutdown(0) on None")
        need(rel_s, server, "shutdown", r".*self\.inner\.shutdown\(&mut self\.sent_closing, max_id\)\.await$",
             "does not end in inner.shutdown")
        need(rel_c, client, "poll_close", r"^while let Poll::Ready\(result\) = self\.inner\.poll_control\(cx\) \{.*\} "
             r"if self\.inner\.poll_accept_bi\(cx\)\.is_ready\(\) \{ return Poll::Ready\( self\.inner "
             r"\.handle_connection_error\(.*\); \} Poll::Pending$", "is not the poll_control loop, then inner.poll_accept_bi, then Pending")
        need(rel_c, client, "wait_idle", r"^future::poll_fn\(\|cx\| self\.poll_close\(cx\)\)\.await$", "is not poll_fn(poll_close)")
        need(rel_c, client, "shutdown", r".*self\.inner\.shutdown\(&mut self\.sent_closing, PushId\(0\)\)\.await$",
             "does not end in inner.shutdown")
        # every other `Poll::Pending` of the client's poll_close would be a way to park without the check
        body = self.fn_body(client, "poll_close") or ""
        if self.statements(body).count("Poll::Pending") != 1:
            res.append(("broken", "entry points: client poll_close has more than one way to answer Pending", {}))
        # the polled / async methods of the two driver types are the ones the assumption lists
        want = {rel_s: {"new", "accept", "shutdown", "poll_accept_request_stream", "poll_accept_request_stream_internal",
                        "poll_control", "poll_next_control", "poll_requests_completion"},
                rel_c: {"send_request", "shutdown", "wait_idle", "poll_close"}}
        for r_, code in ((rel_s, server), (rel_c, client)):
            code = "\n".join(ln.split("//")[0] for ln in code.split("\n"))
            got = set(re.findall(r"\basync\s+fn\s+(\w+)", code))
            got |= set(m.group(1) for m in re.finditer(r"\bfn\s+(\w+)\s*\([^)]*\bcx\s*:", code))
            if got != want[r_]:
                res.append(("broken", "entry points: polled/async methods of %s are %s, the assumption text lists %s"
                            % (r_, sorted(got), sorted(want[r_])), {}))
        # who calls the two checks
        callers = {}
        for d, _, fs in os.walk(os.path.join(vlib.REPO, "h3", "src")):
            for f in fs:
                if f.endswith(".rs"):
                    code = open(os.path.join(d, f)).read()
                    for name in ("poll_connection_error", "check_connection_error"):
                        n = len(re.findall(r"\.%s\(" % name, code))
                        if n:
                            callers.setdefault(name, {})[os.path.relpath(os.path.join(d, f), vlib.REPO)] = n
        if callers != {"poll_connection_error": {"h3/src/connection.rs": 3}, "check_connection_error": {"h3/src/connection.rs": 1}}:
            res.append(("broken", "entry points: callers of the error checks changed: %s" % callers, {}))
        if not any(k == "broken" and m.startswith("entry points") for k, m, _ in res):
            res.append(("note", "entry points: poll_accept_bi / poll_accept_recv / poll_control start with poll_connection_error(cx)? "
                        "and are its only callers; shutdown starts with check_connection_error()? (its only caller) and has no "
                        "poll_connection_error; server accept / poll_accept_request_stream and client poll_close / wait_idle reach "
                        "the transport only through them; no other polled method on the two driver types", {}))
        return res


PROP = C05()
