"""C17 — the Quinn adapter. Case lines are scenarios over a real Quinn loopback connection:

  quinn <cfg> <op> <op> ...

cfg: comma-separated `sw=` stream receive window, `cw=` connection receive window, `tw=` send window
(0/absent = Quinn's default), `role=c|s` (adapter side is QUIC client/server), `kind=bi|uni`,
`dir=open|acc` (adapter side opens / accepts the stream), `skip=n` (streams opened before it), `idle=ms`.

ops, adapter side (only through the h3::quic traits):
  sd:F:n:seed   send_data(WriteBuf of frame F in D,H,G,U with an n-byte payload)   -> sd=ok|refused
  pr1 / pr      poll_ready once / awaited to Ready                                  -> pr=ok|pending|err:<class>
  w:F:n:seed    send_data + awaited poll_ready (h3's write())
  fin, rst:c    poll_finish, reset(c)          sid, rid   send_id(), recv_id()      -> sid=<id> | rid=<id>|panic
  pd1 / pdc / pd / rdall   poll_data once / started and cancelled / awaited / until end or error
  stop:c  stop_sending(c)     dropr  drop the receive half     aclose:c  OpenStreams::close(c)
ops, raw Quinn peer:
  pbg / pjoin   read everything in the background / its result -> peer=<len>:<hash>:fin | reset:<c> | stopped
  pstop:c  pw:n:seed  pfin  prst:c  prstnow:c  pstopped  pclose:c  pclosed  settle:ms

The generator stays inside the region where Quinn's behaviour is a function of the scenario (no races):
see the comments on each template."""
from vlib import Prop

VMAX = 2**62 - 1
H3_CODES = [0x100, 0x101, 0x102, 0x10b, 0x10c, 0x10d, 0x110]


def enc_len(n):
    return 1 if n < 64 else 2 if n < 16384 else 4 if n < 2**30 else 8


def wire_len(f, n):
    if f == "G":
        return 1 + 1 + enc_len(n)
    if f == "U":
        return 2 + 1 + enc_len(n) + n
    return 1 + enc_len(n) + n


class Gen:
    def __init__(self, rng, big):
        self.rng = rng
        self.big = big

    def code(self):
        r = self.rng
        return r.choice([0, 1, VMAX, r.choice(H3_CODES), r.getrandbits(r.choice([8, 16, 32, 62])), r.randrange(2**61, 2**62)])

    def seed(self):
        return self.rng.randrange(0, 2**32)

    def cfg(self, send=False, recv=False, sw=0, cw=0, tw=0, idle=0, need_peer_send=False):
        """a stream shape that has the halves the template needs."""
        r = self.rng
        shapes = []
        for role in "cs":
            for d in ("open", "acc"):
                shapes.append((role, "bi", d))
            if send and not recv and not need_peer_send:
                shapes.append((role, "uni", "open"))
            if recv and not send:
                shapes.append((role, "uni", "acc"))
        role, kind, d = r.choice(shapes)
        skip = r.choice([0, 0, 0, 1, 2, 3, 5, 17])
        parts = []
        if sw:
            parts.append("sw=%d" % sw)
        if cw:
            parts.append("cw=%d" % cw)
        if tw:
            parts.append("tw=%d" % tw)
        parts += ["role=" + role, "kind=" + kind, "dir=" + d]
        if skip:
            parts.append("skip=%d" % skip)
        if idle:
            parts.append("idle=%d" % idle)
        return ",".join(parts), (role, kind, d)

    def frame(self, sizes):
        r = self.rng
        f = r.choice(["D", "D", "D", "H", "U", "G"])
        n = r.choice(sizes)
        if f == "G":
            n = r.choice([0, 63, 64, 16383, 16384, 2**30, VMAX])
        return f, n

    def announce(self, shape):
        """a peer that did not open the stream learns of it only once the adapter side has written to it
        (the peer reads in the background so that the write completes whatever the window)."""
        return ["pbg", "w:D:%d:%d" % (self.rng.choice([0, 1, 5]), self.seed())] if shape[1] == "bi" and shape[2] == "open" else []

    def idq(self, shape, p=0.6):
        out = []
        if self.rng.random() < p:
            if shape[1] == "bi" or shape[2] == "open":
                out.append("sid")
            if shape[1] == "bi" or shape[2] == "acc":
                out.append("rid")
        return out

    # ------------------------------------------------------------------ templates

    def t_write(self, sizes, windows):
        """every buffer reaches the peer exactly once, complete, in order, whatever the windows:
        the peer reads in the background, each write is awaited like h3's write()."""
        r = self.rng
        sw, cw, tw = r.choice(windows)
        cfg, shape = self.cfg(send=True, sw=sw, cw=cw, tw=tw)
        ops = self.idq(shape) + ["pbg"]
        for _ in range(r.randrange(1, 5)):
            f, n = self.frame(sizes)
            ops.append("w:%s:%d:%d" % (f, n, self.seed()))
            ops += self.idq(shape, 0.3)
        ops += ["fin"] + self.idq(shape, 0.5) + ["pjoin"] + self.idq(shape, 0.3)
        return "quinn %s %s" % (cfg, " ".join(ops))

    def t_write_noreader(self):
        """small writes that fit into the default windows; the peer only starts reading afterwards."""
        r = self.rng
        cfg, shape = self.cfg(send=True)
        ops = []
        for _ in range(r.randrange(1, 5)):
            f, n = self.frame([0, 1, 2, 100, 1024])
            ops.append("w:%s:%d:%d" % (f, n, self.seed()))
        ops += ["fin", "pbg", "pjoin"]
        return "quinn %s %s" % (cfg, " ".join(ops))

    def t_refuse(self, trunc=False):
        """flow-control budget W = min(sw, cw) smaller than the first buffer and nobody reading: the first
        poll_ready takes W bytes and is Pending; a second send_data must be refused and must not disturb
        the first buffer. (default send window, so W is what Quinn accepts at once)"""
        r = self.rng
        w = r.choice([1, 2, 3, 7, 16, 64, 1000])
        sw, cw = r.choice([(w, 0), (w, w * 4), (w, w)] if not trunc else [(w, 0), (w, w * 4)])
        if not trunc and r.random() < 0.3:
            sw, cw = w * 4, w
        cfg, shape = self.cfg(send=True, sw=sw, cw=cw)
        n1 = w + r.choice([0, 1, 100, 5000])
        ops = ["sd:D:%d:%d" % (n1, self.seed())] + self.idq(shape) + ["pr1"] + self.idq(shape)
        if trunc:
            # poll_finish does not look at `writing`: the peer gets the accepted prefix and FIN
            ops += ["fin", "pbg", "pjoin", "pr1", "sd:D:1:1"] + self.idq(shape)
            return "quinn %s %s" % (cfg, " ".join(ops))
        ops += ["%s:D:%d:%d" % (r.choice(["sd", "w"]), r.choice([0, 1, 50]), self.seed()), "pr1"] + self.idq(shape)
        ops += ["pbg", "pr"]
        if r.random() < 0.7:
            ops += ["sd:H:%d:%d" % (r.choice([0, 3, 2000]), self.seed()), "pr"]
        ops += ["fin", "pjoin"]
        return "quinn %s %s" % (cfg, " ".join(ops))

    def t_ids(self):
        """only identifiers: every role / kind / direction / index."""
        r = self.rng
        cfg, shape = self.cfg(send=r.random() < 0.5, recv=r.random() < 0.5)
        ops = self.idq(shape, 1.0) * 2
        return "quinn %s %s" % (cfg, " ".join(ops))

    def t_read_ids(self, sizes):
        """recv_id in every read state: idle, read pending, read cancelled, after data, after the end."""
        r = self.rng
        sw = r.choice([0, 0, 1, 16, 1000])
        cfg, shape = self.cfg(recv=True, sw=sw, need_peer_send=True)
        ops = ["rid", r.choice(["pd1", "pdc"]), "rid", r.choice(["pd1", "pdc"]), "rid"]
        ops += self.announce(shape)
        n = r.choice(sizes)
        if sw == 1:
            n = min(n, 65536)    # one round trip per byte: keep the slowest case at a few seconds
        ops += ["pw:%d:%d" % (n, self.seed())]
        if r.random() < 0.5:
            ops += ["pw:%d:%d" % (r.choice([1, 700]), self.seed())]
        ops += ["pfin", "rid", "rdall", "rid", "pd1", "rid"]
        if r.random() < 0.3:
            ops += ["stop:%d" % self.code(), "pd1", "rid"]
        return "quinn %s %s" % (cfg, " ".join(ops))

    def t_reset(self):
        """the peer resets its sending side with an arbitrary code, after all queued data (`prst`) or in
        the middle of a write blocked on flow control (`prstnow`)."""
        r = self.rng
        c = self.code()
        now = r.random() < 0.5
        sw = r.choice([1, 16, 1000]) if now else r.choice([0, 16, 1000])
        cfg, shape = self.cfg(recv=True, sw=sw, need_peer_send=True)
        ops = self.announce(shape)
        if r.random() < 0.5:
            ops += ["pd1", "rid"]
        if now:
            ops += ["pw:%d:%d" % (sw + r.choice([1, 100, 70000]), self.seed()), "prstnow:%d" % c]
        else:
            if r.random() < 0.7:
                ops += ["pw:%d:%d" % (r.choice([1, 10, 3000, 70000]), self.seed())]
            ops += ["prst:%d" % c]
        ops += ["rdall", "rid", "pd1", "rid"]
        return "quinn %s %s" % (cfg, " ".join(ops))

    def t_stop(self):
        """the peer stops reading with an arbitrary code while a write is blocked on flow control."""
        r = self.rng
        c = self.code()
        w = r.choice([1, 7, 16, 64, 1000])
        cfg, shape = self.cfg(send=True, sw=w, cw=r.choice([0, w * 2]))
        n = w + r.choice([1, 100, 70000])
        ops = ["sd:%s:%d:%d" % (r.choice("DH"), n, self.seed()), "pr1"] + self.idq(shape)
        ops += ["pstop:%d" % c, "pr", "sid", "sd:D:1:1", "pr1", "pr", "fin", "sid"]
        return "quinn %s %s" % (cfg, " ".join(ops))

    def t_close(self):
        """the peer closes the connection with an arbitrary application code while a write is blocked
        and/or a read is pending."""
        r = self.rng
        c = self.code()
        mode = r.choice(["both", "read", "write"])
        w = r.choice([1, 16, 1000])
        if mode == "read":
            cfg, shape = self.cfg(recv=True)
            ops = ["pd1", "rid", "pclose:%d" % c, r.choice(["pd", "rdall"]), "rid", "pd1", "rid"]
        elif mode == "write":
            cfg, shape = self.cfg(send=True, sw=w)
            ops = ["sd:D:%d:%d" % (w + r.choice([1, 5000]), self.seed()), "pr1", "sid", "pclose:%d" % c, "pr", "sid", "pr1",
                   "sd:D:0:0", "sid"]
        else:
            cfg, shape = self.cfg(send=True, recv=True, sw=w)
            ops = ["sd:D:%d:%d" % (w + r.choice([1, 5000]), self.seed()), "pr1", "pd1", "sid", "rid", "pclose:%d" % c]
            ops += r.choice([["pr", "pd"], ["pd", "pr"], ["rdall", "pr"]]) + ["sid", "rid", "pr1", "pd1", "pclosed"]
        return "quinn %s %s" % (cfg, " ".join(ops))

    def t_idle(self):
        """nothing happens for longer than max_idle_timeout."""
        r = self.rng
        idle = r.choice([300, 400])
        mode = r.choice(["read", "write", "both"])
        if mode == "read":
            cfg, shape = self.cfg(recv=True, idle=idle)
            ops = ["pd1", "rid", r.choice(["pd", "rdall"]), "rid", "pd1"]
        elif mode == "write":
            cfg, shape = self.cfg(send=True, sw=16, idle=idle)
            ops = ["sd:D:100:%d" % self.seed(), "pr1", "pr", "sid", "pr1"]
        else:
            cfg, shape = self.cfg(send=True, recv=True, sw=16, idle=idle)
            ops = ["sd:D:100:%d" % self.seed(), "pr1", "pd1", "pr", "sid", "rid", "pd", "pd1", "pr1", "pclosed"]
        return "quinn %s %s" % (cfg, " ".join(ops))

    def t_local(self):
        """conditions of the adapter side's own making: closed connection, stopped / finished / reset
        stream, codes that are not QUIC varints."""
        r = self.rng
        which = r.choice(["aclose", "aclose-bad", "stop-idle", "fin-write", "rst", "stop-bad"])
        if which == "aclose":
            c = self.code()
            cfg, shape = self.cfg(send=True, recv=True)
            ops = ["w:D:1:1", "aclose:%d" % c, "w:D:1:1", "pd1", "pr1", "sid", "rid", "pclosed"]
        elif which == "aclose-bad":
            cfg, shape = self.cfg(send=True)
            ops = ["aclose:%d" % r.choice([2**62, 2**64 - 1]), "pbg", "w:D:3:3", "fin", "pjoin"]
        elif which == "stop-idle":
            cfg, shape = self.cfg(recv=True, need_peer_send=True)
            c1, c2 = self.code(), self.code()
            ops = self.announce(shape) + ["rid", "stop:%d" % c1] + (["stop:%d" % c2] if r.random() < 0.5 else [])
            ops += ["rid", "pd1", "rid", "pstopped"]
        elif which == "fin-write":
            cfg, shape = self.cfg(send=True)
            ops = ["pbg", "w:D:4:4", "fin", "sid", "w:D:1:1", "pr1", "sd:D:1:1", "fin", "pjoin"]
        elif which == "rst":
            cfg, shape = self.cfg(send=True)
            c = r.choice([self.code(), 2**62, 2**64 - 1])
            ops = ["w:D:1:1", "pbg", "rst:%d" % c, "sid", "pjoin", "w:D:1:1", "fin", "sid"]
        else:
            cfg, shape = self.cfg(recv=True)
            ops = ["rid", "stop:%d" % r.choice([2**62, 2**63, 2**64 - 1]), "rid", "pd1", "rid"]
        return "quinn %s %s" % (cfg, " ".join(ops))

    def t_stop_pending(self):
        """stop_sending while the read future owns the stream: remembered, applied when the stream comes
        back (the last code wins), never applied when the receive half is dropped first (the peer then
        sees Quinn's implicit STOP_SENDING(0))."""
        r = self.rng
        cfg, shape = self.cfg(recv=True, need_peer_send=True)
        c1, c2 = self.code(), self.code()
        ops = self.announce(shape) + [r.choice(["pd1", "pdc"]), "rid", "stop:%d" % c1]
        if r.random() < 0.4:
            ops += ["stop:%d" % c2]
        ops += ["rid"]
        end = r.choice(["data", "drop", "rdall"])
        if end == "data":
            ops += ["pd1", "pw:%d:%d" % (r.choice([1, 3, 8]), self.seed()), "pd", "rid", "pstopped", "pd1", "rid"]
        elif end == "drop":
            ops += ["dropr", "pstopped"]
        else:
            ops += ["pw:%d:%d" % (r.choice([1, 3, 8]), self.seed()), "rdall", "rid"]
        return "quinn %s %s" % (cfg, " ".join(ops))


class C17(Prop):
    id = "C17"
    parallel = False   # engine is timing-sensitive (real Quinn loopback / OS threads parked at hooks): one harness process at a time
    modules = ["H3.Props.C17"]
    engines = ["quinn"]
    design_ref = "DESIGN.md section 7, C17"
    level_text = ("PARTIAL: Lean theorems over a model of the adapter's own logic (h3-quinn/src/lib.rs + WriteBuf): the write loop "
                  "against every acceptance script of poll_write (pending / partial ok / error, any number of poll_ready calls): "
                  "accepted bytes ++ held bytes = buffer, Ready(Ok) iff whole buffer, an error is the last call, a second send_data "
                  "is refused unchanged; the receive ownership machine over every operation sequence: recv_id = creation id, never "
                  "panics, a stop during a pending read is issued exactly once when the stream comes back and never twice; the three "
                  "error conversions as finite tables (application close / timeout / reset / stop <-> the four h3 classes, code "
                  "preserved) which are also compared with the match arms re-extracted from the source. Quinn, UDP and tokio are "
                  "outside the model: that real Quinn delivers the accepted bytes once and in order and raises those error values is "
                  "observed on real loopback connections on every run, not proved")
    level_note = ("trusted: Lean kernel + 3 standard axioms; model tied to the code by running the same scenarios through the real "
                  "adapter over real Quinn loopback connections (windows 1 byte..default, frames 0..256 KiB, ids in every read/write "
                  "state, peer close/reset/stop/idle timeout with codes 0..2^62-1) and through the model plus a small stated "
                  "environment for Quinn (lean/H3/Drv/C17.lean); payload Buf modelled as one contiguous Bytes")
    rule = ("cases: scenario templates write-fidelity / refusal / truncating finish / ids / read-state ids / peer reset / peer stop / "
            "peer close / idle timeout / local conditions / stop during pending read, parameters from the seeded PRNG; "
            "non-trivial = the scenario ran to the end on the real code (result is not bad-op/timeout/setup-failed/panic); "
            "distinct = distinct case lines")
    trusted = ["quinn 0.11 / quinn-proto / rustls / tokio / loopback UDP (observed, not modelled)",
               "the environment assumptions about Quinn in lean/H3/Drv/C17.lean (window budget, which Quinn error a peer action "
               "raises, first stop wins, implicit STOP_SENDING(0) on drop), each exercised by the correspondence run"]
    assumptions = ["payload Buf is contiguous (Bytes)",
                   "poll_write accepts at most the bytes it is offered",
                   "the h3::quic call pattern: poll_ready is driven to Ready before poll_finish (a finish with an unfinished "
                   "buffer truncates it: modelled and observed, outside the property's quantifier)"]

    def cases(self, tier, rng):
        big = tier == "thorough"
        g = Gen(rng, big)
        L = []
        K = 1024
        tiny = [(1, 0, 0), (1, 1, 0), (2, 7, 0), (7, 2, 0), (16, 16, 0), (64, 64, 0), (16, 0, 16), (64, 64, 64)]
        mid = [(1000, 1000, 0), (1000, 0, 4096), (65536, 65536, 0), (0, 65536, 0), (65536, 0, 65536)]
        large = [(0, 0, 0), (0, 0, 0), (1 << 20, 1 << 22, 0)]
        small_sizes = [0, 1, 2, 3, 63, 64, 100, K]
        all_sizes = [0, 1, 2, K, 64 * K, 256 * K]
        # every size x a tiny, a middle and the default window setting (the slow ones once each)
        for n in all_sizes:
            for win in ([(1, 1, 0)] if n <= 64 * K else []) + [(16, 16, 0), (64, 64, 64), (1000, 1000, 0), (65536, 0, 0), (0, 0, 0)]:
                cfg, shape = g.cfg(send=True, sw=win[0], cw=win[1], tw=win[2])
                L.append("quinn %s sid pbg w:D:%d:%d sid fin pjoin" % (cfg, n, g.seed()))
        for tw in (1, 8):
            cfg, shape = g.cfg(send=True, tw=tw)
            L.append("quinn %s pbg w:D:%d:%d w:H:%d:%d fin pjoin" % (cfg, 16 * tw, g.seed(), tw, g.seed()))
        m = 6 if big else 2
        for _ in range(30 * m):
            L.append(g.t_write(small_sizes, tiny))
        for _ in range(12 * m):
            L.append(g.t_write(all_sizes[:5], mid + tiny[3:]))
        for _ in range(8 * m):
            L.append(g.t_write(all_sizes, mid + large))
        for _ in range(10 * m):
            L.append(g.t_write_noreader())
        for _ in range(30 * m):
            L.append(g.t_refuse())
        for _ in range(12 * m):
            L.append(g.t_refuse(trunc=True))
        for _ in range(30 * m):
            L.append(g.t_ids())
        for _ in range(30 * m):
            L.append(g.t_read_ids([0, 1, 2, K, 64 * K] + ([256 * K] if big else [])))
        for _ in range(30 * m):
            L.append(g.t_reset())
        for _ in range(30 * m):
            L.append(g.t_stop())
        for _ in range(30 * m):
            L.append(g.t_close())
        for _ in range(6 * (3 if big else 1)):
            L.append(g.t_idle())
        for _ in range(36 * m):
            L.append(g.t_local())
        for _ in range(36 * m):
            L.append(g.t_stop_pending())
        return L

    def klass(self, line, impl):
        kinds = set()
        for t in impl.split():
            if "=" not in t:
                continue
            k, v = t.split("=", 1)
            v = v.split(":")
            if v[0] == "err":
                kinds.add("err:" + v[1])
            elif k in ("sid", "rid") and v[0] != "panic":
                kinds.add(k)
            elif k == "peer":
                kinds.add("peer:" + (v[-1] if v[-1] == "fin" else v[0]))
            elif v[0] in ("ok", "data", "end", "cancelled"):
                continue
            else:
                kinds.add(k + "=" + ("n" if v[0].isdigit() else v[0]))
        return "+".join(sorted(kinds)) or impl.split(" ")[0]

    def trivial(self, line, impl):
        return impl in ("bad-op", "timeout", "setup-failed", "panic", "abort") or "timeout" in impl.split("=")

    def shrink_candidates(self, line):
        w = line.split()
        out = []
        ops = w[2:]
        # drop one op (from the end), then shrink sizes, then simplify the configuration
        for i in range(len(ops) - 1, -1, -1):
            out.append(" ".join(w[:2] + ops[:i] + ops[i + 1:]))
        for i, op in enumerate(ops):
            p = op.split(":")
            if p[0] in ("sd", "w") and len(p) == 4 and int(p[2]) > 0:
                for n in (0, int(p[2]) // 2):
                    out.append(" ".join(w[:2] + ops[:i] + [":".join(p[:2] + [str(n), p[3]])] + ops[i + 1:]))
            if p[0] == "pw" and int(p[1]) > 1:
                out.append(" ".join(w[:2] + ops[:i] + ["pw:%d:%s" % (int(p[1]) // 2, p[2])] + ops[i + 1:]))
        kv = w[1].split(",")
        for i, x in enumerate(kv):
            if x.split("=")[0] in ("skip", "sw", "cw", "tw"):
                out.append(" ".join([w[0], ",".join(kv[:i] + kv[i + 1:])] + ops))
        return out


PROP = C17()
