"""C17 — the Quinn adapter. Case lines are scenarios over a real Quinn loopback connection:

  quinn <cfg> <op> <op> ...

cfg: comma-separated `sw=` stream receive window, `cw=` connection receive window, `tw=` send window
(0/absent = Quinn's default), `role=c|s` (adapter side is QUIC client/server), `kind=bi|uni`,
`dir=open|acc` (adapter side opens / accepts the stream), `skip=n` (streams opened before it), `idle=ms`.

ops, adapter side (only through the h3::quic traits):
  sd:F:n:seed   send_data(WriteBuf of frame F in D,H,G,U with an n-byte payload)   -> sd=ok|refused
  pr1 / pr      poll_ready once / awaited to Ready                                  -> pr=ok|pending|err:<class>
  w:F:n:seed    send_data + awaited poll_ready (h3's write())
  fin, rst:c    poll_finish, reset(c)          sid, rid   send_id(), recv_id()      -> sid=<id> | rid=<id>|panic
  pd1 / pdc / pd / rdall   poll_data once / started and cancelled / awaited / until end or error
  stop:c  stop_sending(c)     dropr  drop the receive half     aclose:c  OpenStreams::close(c)
ops, raw Quinn peer:
  pbg / pjoin   read everything in the background / its result -> peer=<len>:<hash>:fin | reset:<c> | stopped
  pstop:c  pw:n:seed  pfin  prst:c  prstnow:c  pstopped  pclose:c  pclosed  settle:ms

Second part (directed at adapter code the first part never reached):
cfg: `split=0` keep the bidirectional stream under test UNSPLIT (every op then goes through `BidiStream`'s
delegating impls) until op `split`; `mb=n` / `mu=n` the peer's max_concurrent_bidi/uni_streams = how many
streams the adapter side may open; `dga=0` / `dgp=0` datagrams disabled on the adapter / peer side;
`hs=rej|kill|z0|z0r|z0t|z0v` special connection set-ups that make real Quinn raise ConnectionClosed, Reset
(stateless reset), nothing (0-RTT accepted), ZeroRttRejected, TransportError, VersionMismatch.
ops, adapter side:
  ob1:W / ob:W / ou1:W / ou:W   poll_open_bidi / poll_open_send once / awaited, through W = c (the Connection),
                o (`Connection::opener()`), k (a clone of that opener)          -> ob=<id>|pending|err:<class>
  otag:n:seed   one DATA frame (n+j bytes) + finish on every stream opened by ob/ou and not yet used (the
                bidirectional ones through the unsplit stream)                   -> otag=<count>
  ab1 / ab / ar1 / ar   poll_accept_bidi / poll_accept_recv once / awaited         -> ab=<id>|pending|err:<class>
  oclose:W:code:reasonhex   OpenStreams::close(code, reason) through W
  ub:n:seed[:cut]   the caller's unframed buffer (two chunks when cut is given)
  ps1 / ps / psall  poll_send once / awaited / until the buffer is empty       -> ps1=<written>|pending|refused|err:<class> /<left>
  split   z0 (is_0rtt)   zacc (was 0-RTT accepted)
  dgs:sid:n:seed[:cut,cut…]  send_datagram (the payload a multi-chunk Buf when cuts are given)
  dgr1 / dgr  poll_incoming_datagram once / awaited     dgrd  … and decoded by h3-datagram -> dgrd=<sid>:<len>:<hash>
  sdm:n:seed:cut,cut…  the Chain variant of sd: a uni stream typed for a multi-chunk Buf is opened through the Connection,
         one DATA frame with the payload cut at these positions written (send_data + awaited poll_ready) and finished -> sdm=<id>
  dgmax  Quinn's max_datagram_size() right now (cfg `dgmax=<n>` = what the line says it is: the environment parameter of
         the model; with it MTU discovery is off and the path MTU is `mtu=<n>`, default 1200)     dgh  drop both handlers
ops, raw Quinn peer:
  pmb:n / pmu:n   set max_concurrent_bi/uni_streams    pob / pou   open one more stream (one byte written)
  pacc:bi|uni:n   accept the next n streams, read each to the end -> pacc=<id>:<len>:<hash>:fin,...
  pclosedr   like pclosed, with the reason    pdg / pdgs:n:seed[:sid]  read / send a datagram (varint(sid/4) in front)
  pkill   (hs=kill) the peer's endpoint disappears; a fresh endpoint with the same reset key takes its port

The generator stays inside the region where Quinn's behaviour is a function of the scenario (no races):
see the comments on each template."""
from vlib import Prop

VMAX = 2**62 - 1
H3_CODES = list(range(0x100, 0x111))     # every code RFC 9114 section 8.1 defines: H3_NO_ERROR ... H3_VERSION_FALLBACK
QPACK_CODES = [0x200, 0x201, 0x202]      # RFC 9204 section 6
POOL = H3_CODES + QPACK_CODES
H3_NO_ERROR = 0x100


def enc_len(n):
    return 1 if n < 64 else 2 if n < 16384 else 4 if n < 2**30 else 8


def wire_len(f, n):
    if f == "G":
        return 1 + 1 + enc_len(n)
    if f == "U":
        return 2 + 1 + enc_len(n) + n
    return 1 + enc_len(n) + n


DGMAX_CACHE = {}


def probe_dgmax(mtu):
    """Quinn's max_datagram_size() for a path MTU, asked of the real thing (the model takes it as a parameter)"""
    if mtu not in DGMAX_CACHE:
        import vlib
        line = "quinn role=c,kind=bi,dir=open,dgmax=0%s dgmax" % (",mtu=%d" % mtu if mtu else "")
        val = None
        try:
            rc, out, err = vlib.run_lines(vlib.RUN, [line])
            if rc == 0 and out and out[0].split(" #")[0].startswith("dgmax=") and out[0].split(" #")[0][6:].isdigit():
                val = int(out[0].split(" #")[0][6:])
        except Exception:
            val = None
        DGMAX_CACHE[mtu] = val
    return DGMAX_CACHE[mtu]


class Gen:
    def __init__(self, rng, big):
        self.rng = rng
        self.big = big

    def code(self):
        """a stop / reset / close code: the edges of the varint range, the codes HTTP/3 and QPACK define (the
        ones real peers send; H3_NO_ERROR, the one that does not sound like an error, more often), random ones"""
        r = self.rng
        return r.choice([0, 1, VMAX, H3_NO_ERROR, r.choice(POOL), r.choice(POOL),
                         r.getrandbits(r.choice([8, 16, 32, 62])), r.randrange(2**61, 2**62)])

    def seed(self):
        return self.rng.randrange(0, 2**32)

    def cfg(self, send=False, recv=False, sw=0, cw=0, tw=0, idle=0, need_peer_send=False, skip_max=None, extra=()):
        """a stream shape that has the halves the template needs."""
        r = self.rng
        shapes = []
        for role in "cs":
            for d in ("open", "acc"):
                shapes.append((role, "bi", d))
            if send and not recv and not need_peer_send:
                shapes.append((role, "uni", "open"))
            if recv and not send:
                shapes.append((role, "uni", "acc"))
        role, kind, d = r.choice(shapes)
        skip = r.choice([0, 0, 0, 1, 2, 3, 5, 17])
        if skip_max is not None:
            skip = min(skip, skip_max)
        parts = []
        if sw:
            parts.append("sw=%d" % sw)
        if cw:
            parts.append("cw=%d" % cw)
        if tw:
            parts.append("tw=%d" % tw)
        parts += ["role=" + role, "kind=" + kind, "dir=" + d]
        if skip:
            parts.append("skip=%d" % skip)
        if idle:
            parts.append("idle=%d" % idle)
        if kind == "bi" and r.random() < 0.3:
            parts.append("split=0")      # the unsplit BidiStream: same ops, delegating impls
        parts += list(extra)
        return ",".join(parts), (role, kind, d, skip)

    def line(self, cfg, ops):
        """an unsplit stream is split at some point (or never); `dropr` needs the halves"""
        ops = list(ops)
        if "split=0" in cfg.split(","):
            hi = ops.index("dropr") if "dropr" in ops else len(ops)
            if "dropr" in ops or self.rng.random() < 0.6:
                ops.insert(self.rng.randrange(0, hi + 1), "split")
        if self.rng.random() < 0.15 and any(o in ("rid", "pd1", "rdall") for o in ops):
            ops.insert(self.rng.randrange(0, len(ops) + 1), "z0")
            if "dropr" in ops and ops.index("z0") > ops.index("dropr"):
                ops.remove("z0")
        return "quinn %s %s" % (cfg, " ".join(ops))

    def frame(self, sizes):
        r = self.rng
        f = r.choice(["D", "D", "D", "H", "U", "G"])
        n = r.choice(sizes)
        if f == "G":
            n = r.choice([0, 63, 64, 16383, 16384, 2**30, VMAX])
        return f, n

    def announce(self, shape):
        """a peer that did not open the stream learns of it only once the adapter side has written to it
        (the peer reads in the background so that the write completes whatever the window)."""
        return ["pbg", "w:D:%d:%d" % (self.rng.choice([0, 1, 5]), self.seed())] if shape[1] == "bi" and shape[2] == "open" else []

    def idq(self, shape, p=0.6):
        out = []
        if self.rng.random() < p:
            if shape[1] == "bi" or shape[2] == "open":
                out.append("sid")
            if shape[1] == "bi" or shape[2] == "acc":
                out.append("rid")
        return out

    # ------------------------------------------------------------------ templates

    def t_write(self, sizes, windows):
        """every buffer reaches the peer exactly once, complete, in order, whatever the windows:
        the peer reads in the background, each write is awaited like h3's write()."""
        r = self.rng
        sw, cw, tw = r.choice(windows)
        cfg, shape = self.cfg(send=True, sw=sw, cw=cw, tw=tw)
        ops = self.idq(shape) + ["pbg"]
        for _ in range(r.randrange(1, 5)):
            f, n = self.frame(sizes)
            ops.append("w:%s:%d:%d" % (f, n, self.seed()))
            ops += self.idq(shape, 0.3)
        ops += ["fin"] + self.idq(shape, 0.5) + ["pjoin"] + self.idq(shape, 0.3)
        return self.line(cfg, ops)

    def t_write_noreader(self):
        """small writes that fit into the default windows; the peer only starts reading afterwards."""
        r = self.rng
        cfg, shape = self.cfg(send=True)
        ops = []
        for _ in range(r.randrange(1, 5)):
            f, n = self.frame([0, 1, 2, 100, 1024])
            ops.append("w:%s:%d:%d" % (f, n, self.seed()))
        ops += ["fin", "pbg", "pjoin"]
        return self.line(cfg, ops)

    def t_refuse(self, trunc=False):
        """flow-control budget W = min(sw, cw) smaller than the first buffer and nobody reading: the first
        poll_ready takes W bytes and is Pending; a second send_data must be refused and must not disturb
        the first buffer. (default send window, so W is what Quinn accepts at once)"""
        r = self.rng
        w = r.choice([1, 2, 3, 7, 16, 64, 1000])
        sw, cw = r.choice([(w, 0), (w, w * 4), (w, w)] if not trunc else [(w, 0), (w, w * 4)])
        if not trunc and r.random() < 0.3:
            sw, cw = w * 4, w
        cfg, shape = self.cfg(send=True, sw=sw, cw=cw)
        n1 = w + r.choice([0, 1, 100, 5000])
        ops = ["sd:D:%d:%d" % (n1, self.seed())] + self.idq(shape) + ["pr1"] + self.idq(shape)
        if trunc:
            # poll_finish does not look at `writing`: the peer gets the accepted prefix and FIN
            ops += ["fin", "pbg", "pjoin", "pr1", "sd:D:1:1"] + self.idq(shape)
            return self.line(cfg, ops)
        ops += ["%s:D:%d:%d" % (r.choice(["sd", "w"]), r.choice([0, 1, 50]), self.seed()), "pr1"] + self.idq(shape)
        ops += ["pbg", "pr"]
        if r.random() < 0.7:
            ops += ["sd:H:%d:%d" % (r.choice([0, 3, 2000]), self.seed()), "pr"]
        ops += ["fin", "pjoin"]
        return self.line(cfg, ops)

    def t_ids(self):
        """only identifiers: every role / kind / direction / index."""
        r = self.rng
        cfg, shape = self.cfg(send=r.random() < 0.5, recv=r.random() < 0.5)
        ops = self.idq(shape, 1.0) * 2
        return self.line(cfg, ops)

    def t_read_ids(self, sizes):
        """recv_id in every read state: idle, read pending, read cancelled, after data, after the end."""
        r = self.rng
        sw = r.choice([0, 0, 1, 16, 1000])
        cfg, shape = self.cfg(recv=True, sw=sw, need_peer_send=True)
        ops = ["rid", r.choice(["pd1", "pdc"]), "rid", r.choice(["pd1", "pdc"]), "rid"]
        ops += self.announce(shape)
        n = r.choice(sizes)
        if sw == 1:
            n = min(n, 65536)    # one round trip per byte: keep the slowest case at a few seconds
        ops += ["pw:%d:%d" % (n, self.seed())]
        if r.random() < 0.5:
            ops += ["pw:%d:%d" % (r.choice([1, 700]), self.seed())]
        ops += ["pfin", "rid", "rdall", "rid", "pd1", "rid"]
        if r.random() < 0.3:
            ops += ["stop:%d" % self.code(), "pd1", "rid"]
        return self.line(cfg, ops)

    def t_reset(self, c=None):
        """the peer resets its sending side with an arbitrary code, after all queued data (`prst`) or in
        the middle of a write blocked on flow control (`prstnow`).  The reset surfaces ONCE, on the first
        read that meets it; what Quinn answers to reads after that (`Ok(None)`: `pd1=end`) is Quinn's and the
        specification has no opinion on it (reading R-17, observation (b))."""
        r = self.rng
        c = self.code() if c is None else c
        now = r.random() < 0.5
        sw = r.choice([1, 16, 1000]) if now else r.choice([0, 16, 1000])
        cfg, shape = self.cfg(recv=True, sw=sw, need_peer_send=True)
        ops = self.announce(shape)
        if r.random() < 0.5:
            ops += ["pd1", "rid"]
        if now:
            ops += ["pw:%d:%d" % (sw + r.choice([1, 100, 70000]), self.seed()), "prstnow:%d" % c]
        else:
            if r.random() < 0.7:
                ops += ["pw:%d:%d" % (r.choice([1, 10, 3000, 70000]), self.seed())]
            ops += ["prst:%d" % c]
        ops += ["rdall", "rid", "pd1", "rid"]
        if r.random() < 0.4:
            ops += ["pd", "rid"]
        return self.line(cfg, ops)

    def t_stop(self, c=None, w=None, f=None):
        """the peer stops reading with an arbitrary code while a write is blocked on flow control."""
        r = self.rng
        c = self.code() if c is None else c
        w = r.choice([1, 7, 16, 64, 1000]) if w is None else w
        cfg, shape = self.cfg(send=True, sw=w, cw=r.choice([0, w * 2]))
        n = w + r.choice([1, 100, 70000])
        ops = ["sd:%s:%d:%d" % (f or r.choice("DH"), n, self.seed()), "pr1"] + self.idq(shape)
        ops += ["pstop:%d" % c, "pr", "sid", "sd:D:1:1", "pr1", "pr", "fin", "sid"]
        return self.line(cfg, ops)

    def t_close(self, c=None):
        """the peer closes the connection with an arbitrary application code while a write is blocked
        and/or a read is pending."""
        r = self.rng
        c = self.code() if c is None else c
        mode = r.choice(["both", "read", "write"])
        w = r.choice([1, 16, 1000])
        if mode == "read":
            cfg, shape = self.cfg(recv=True)
            ops = ["pd1", "rid", "pclose:%d" % c, r.choice(["pd", "rdall"]), "rid", "pd1", "rid"]
        elif mode == "write":
            cfg, shape = self.cfg(send=True, sw=w)
            ops = ["sd:D:%d:%d" % (w + r.choice([1, 5000]), self.seed()), "pr1", "sid", "pclose:%d" % c, "pr", "sid", "pr1",
                   "sd:D:0:0", "sid"]
        else:
            cfg, shape = self.cfg(send=True, recv=True, sw=w)
            ops = ["sd:D:%d:%d" % (w + r.choice([1, 5000]), self.seed()), "pr1", "pd1", "sid", "rid", "pclose:%d" % c]
            ops += r.choice([["pr", "pd"], ["pd", "pr"], ["rdall", "pr"]]) + ["sid", "rid", "pr1", "pd1", "pclosed"]
        return self.line(cfg, ops)

    def t_idle(self):
        """nothing happens for longer than max_idle_timeout."""
        r = self.rng
        idle = r.choice([300, 400])
        mode = r.choice(["read", "write", "both"])
        if mode == "read":
            cfg, shape = self.cfg(recv=True, idle=idle)
            ops = ["pd1", "rid", r.choice(["pd", "rdall"]), "rid", "pd1"]
        elif mode == "write":
            cfg, shape = self.cfg(send=True, sw=16, idle=idle)
            ops = ["sd:D:100:%d" % self.seed(), "pr1", "pr", "sid", "pr1"]
        else:
            cfg, shape = self.cfg(send=True, recv=True, sw=16, idle=idle)
            ops = ["sd:D:100:%d" % self.seed(), "pr1", "pd1", "pr", "sid", "rid", "pd", "pd1", "pr1", "pclosed"]
        return self.line(cfg, ops)

    def t_local(self):
        """conditions of the adapter side's own making: closed connection, stopped / finished / reset
        stream, codes that are not QUIC varints."""
        r = self.rng
        which = r.choice(["aclose", "aclose-bad", "stop-idle", "fin-write", "rst", "stop-bad"])
        if which == "aclose":
            c = self.code()
            cfg, shape = self.cfg(send=True, recv=True)
            ops = ["w:D:1:1", "aclose:%d" % c, "w:D:1:1", "pd1", "pr1", "sid", "rid", "pclosed"]
        elif which == "aclose-bad":
            cfg, shape = self.cfg(send=True)
            ops = ["aclose:%d" % r.choice([2**62, 2**64 - 1]), "pbg", "w:D:3:3", "fin", "pjoin"]
        elif which == "stop-idle":
            cfg, shape = self.cfg(recv=True, need_peer_send=True)
            c1, c2 = self.code(), self.code()
            ops = self.announce(shape) + ["rid", "stop:%d" % c1] + (["stop:%d" % c2] if r.random() < 0.5 else [])
            ops += ["rid", "pd1", "rid", "pstopped"]
        elif which == "fin-write":
            cfg, shape = self.cfg(send=True)
            ops = ["pbg", "w:D:4:4", "fin", "sid", "w:D:1:1", "pr1", "sd:D:1:1", "fin", "pjoin"]
        elif which == "rst":
            cfg, shape = self.cfg(send=True)
            c = r.choice([self.code(), 2**62, 2**64 - 1])
            ops = ["w:D:1:1", "pbg", "rst:%d" % c, "sid", "pjoin", "w:D:1:1", "fin", "sid"]
        else:
            cfg, shape = self.cfg(recv=True)
            ops = ["rid", "stop:%d" % r.choice([2**62, 2**63, 2**64 - 1]), "rid", "pd1", "rid"]
        return self.line(cfg, ops)

    def t_stop_pending(self, c=None):
        """stop_sending while the read future owns the stream: remembered, applied when the stream comes
        back (the last code wins), never applied when the receive half is dropped first (the peer then
        sees Quinn's implicit STOP_SENDING(0))."""
        r = self.rng
        cfg, shape = self.cfg(recv=True, need_peer_send=True)
        c1, c2 = (self.code() if c is None else c), self.code()
        ops = self.announce(shape) + [r.choice(["pd1", "pdc"]), "rid", "stop:%d" % c1]
        if r.random() < 0.4:
            ops += ["stop:%d" % c2]
        ops += ["rid"]
        end = r.choice(["data", "drop", "rdall"])
        if end == "data":
            ops += ["pd1", "pw:%d:%d" % (r.choice([1, 3, 8]), self.seed()), "pd", "rid", "pstopped", "pd1", "rid"]
        elif end == "drop":
            ops += ["dropr", "pstopped"]
        else:
            ops += ["pw:%d:%d" % (r.choice([1, 3, 8]), self.seed()), "rdall", "rid"]
        return self.line(cfg, ops)

    def t_stop_states(self, c=None, state=None):
        """stop_sending(c) in every read state, and the peer's writer asked what it was told (`pstopped`) BEFORE
        the adapter side starts another read.  Reading R-17: once the adapter has the Quinn stream in its hands
        - at the call when no read is in flight (never read / after data), otherwise when the read in flight
        (pending, or started and abandoned by the caller) completes - the peer must see STOP_SENDING with
        exactly c, also when the receive half is dropped right after.  `lost-*`: the read never completes; the
        remembered code is lost (Quinn's implicit 0 once the half is dropped, nothing while it lives): observed,
        modelled, not demanded."""
        r = self.rng
        c = self.code() if c is None else c
        cfg, shape = self.cfg(recv=True, need_peer_send=True)
        ops = self.announce(shape)
        state = state or r.choice(["idle", "after-data", "in-flight", "in-flight", "cancelled", "cancelled",
                                   "polled-again", "two-codes", "drop-after", "rdall", "lost-drop"])
        pw = lambda: "pw:%d:%d" % (r.choice([1, 3, 8, 700]), self.seed())
        stop = "stop:%d" % c
        if state == "idle":
            ops += ["rid", stop, "rid", "pstopped"]
        elif state == "after-data":
            ops += [pw(), "pd", "rid", stop, "rid", "pstopped", "pd1"]
        elif state in ("in-flight", "cancelled"):
            ops += ["pd1" if state == "in-flight" else "pdc", "rid", stop, "rid", pw(), "pd", "pstopped", "rid"]
            if r.random() < 0.5:
                ops += ["pd1", "rid"]
        elif state == "polled-again":
            ops += [r.choice(["pd1", "pdc"]), stop, r.choice(["pd1", "pdc"]), "rid", r.choice(["pd1", "pdc"]), pw(), "pd",
                    "pstopped"]
        elif state == "two-codes":
            # of two stops during one pending read either code is accepted (the adapter issues the last one)
            ops += [r.choice(["pd1", "pdc"]), stop, "stop:%d" % self.code(), "rid", pw(), "pd", "stop:%d" % self.code(),
                    "pstopped"]
        elif state == "drop-after":
            ops += [r.choice(["pd1", "pdc"]), stop, pw(), "pd", "dropr", "pstopped"]
        elif state == "rdall":
            ops += [r.choice(["pd1", "pdc"]), stop, pw(), "rdall", "pstopped", "rid"]
        elif state == "lost-drop":
            ops += [r.choice(["pd1", "pdc"]), "rid", stop, "rid", "dropr", "pstopped"]
        else:   # lost-alive: 5 s of waiting for nothing; thorough tier only
            ops += ["pd1", stop, "rid", "pstopped"]
        return self.line(cfg, ops)

    def t_conn_failed(self, how, c=None, shape=None):
        """audit leftover C17-3: EVERY accept / open call site of the adapter (poll_accept_bidi, poll_accept_recv,
        poll_open_bidi / poll_open_send of the Connection, of `opener()` and of a clone of it), polled once and
        awaited, after the connection has failed - peer close with code c, idle timeout, own close through an
        opener (or the Connection) - on a given connection shape.  The failure is made known by a call that WAITS
        for it (an awaited accept), not by a pause: from then on Quinn answers every open / accept with the
        connection's error at once, so the rest of the line does not depend on timing.  Demanded: peer close =>
        ApplicationClose{c} at every site (inside StreamErrorIncoming::ConnectionErrorIncoming on the open paths),
        idle timeout => Timeout; a close of the adapter side's own making (LocallyClosed => Undefined) is none of
        the property's four conditions: compared with the model only."""
        r = self.rng
        c = self.code() if c is None else c
        role, kind, d = shape or r.choice([(a, b, e) for a in "cs" for b in ("bi", "uni") for e in ("open", "acc")])
        parts = ["role=" + role, "kind=" + kind, "dir=" + d]
        skip = r.choice([0, 0, 1, 3])
        if skip:
            parts.append("skip=%d" % skip)
        if how == "idle":
            parts.append("idle=%d" % r.choice([300, 400]))
        if kind == "bi" and r.random() < 0.3:
            parts.append("split=0")
        ops = []
        if how == "pclose":
            ops += ["pclose:%d" % c, r.choice(["ab", "ar"])]
        elif how == "idle":
            ops += [r.choice(["ab", "ar"])]
        elif how == "oclose":
            ops += ["oclose:%s:%d:%s" % (self.who(), c, self.reason()), "pclosedr"]
        else:
            ops += ["aclose:%d" % c, "pclosed"]
        tail = ["ob1:c", "ob1:o", "ob1:k", "ou1:c", "ou1:o", "ou1:k", "ab1", "ar1",
                "ob:c", "ob:o", "ob:k", "ou:c", "ou:o", "ou:k", "ab", "ar"]
        r.shuffle(tail)
        ops += tail
        # the stream under test, where it has that half: the same condition through poll_data / poll_ready
        if kind == "bi" or d == "acc":
            ops += [r.choice(["pd1", "pd"]), "rid"]
        if kind == "bi" or d == "open":
            ops += ["sd:D:1:1", "pr1", "sid"]
        return "quinn %s %s" % (",".join(parts), " ".join(ops))

    # ------------------------------------------------------------------ templates, second part

    def who(self):
        return self.rng.choice("cok")

    def reason(self):
        r = self.rng
        n = r.choice([0, 1, 5, 40, 200])
        return "".join("%02x" % r.randrange(256) for _ in range(n)) or "-"

    def t_open(self):
        """streams opened THROUGH the adapter (Connection, opener(), a clone) under a stream limit: the
        credit is used up, the next polls are Pending through several openers, the peer raises the limit
        (awaited poll: Pending then Ready), the credit is used up again; every opened stream is written
        and finished (bidirectional ones through the unsplit stream) and the peer must accept exactly
        these streams, each once, with these bytes.  For unidirectional streams the peer's reading them
        to the end gives the credit back."""
        r = self.rng
        bi = r.random() < 0.5
        cfg0, shape = self.cfg(send=True, recv=r.random() < 0.5, skip_max=3)
        role, kind, d, skip = shape
        base = skip + 1 if (d == "open" and (kind == "bi") == bi) else 0
        m = base + r.choice([0, 1, 2, 3])
        if not bi:
            m = min(m, 5)          # m + up <= 7
            if m < base:
                bi = True
                m = base
        cfg = cfg0 + (",mb=%d" if bi else ",mu=%d") % m
        o1, o = ("ob1", "ob") if bi else ("ou1", "ou")
        ops = []
        n = 0
        for _ in range(m - base):
            ops.append("%s:%s" % (r.choice([o1, o]), self.who()))
            n += 1
        w1 = self.who()
        ops += ["%s:%s" % (o1, w1), "%s:%s" % (o1, self.who())]
        # Quinn announces new stream credit only when it exceeds 1/8 of max_concurrent: stay where every
        # increment is announced (unidirectional: credit comes back one stream at a time) or make it big enough
        up = r.choice([1, 2])
        if bi and m + up >= 8:
            up = 2
        ops += ["%s:%d" % ("pmb" if bi else "pmu", m + up), "%s:%s" % (o, r.choice([w1, self.who()]))]
        n += 1
        for _ in range(up - 1):
            ops.append("%s:%s" % (o1, self.who()))
            n += 1
        ops += ["%s:%s" % (o1, self.who())]
        if n:
            if r.random() < 0.5:
                k = r.randrange(0, n + 1)
                ops += ["otag:%d:%d" % (r.choice([0, 1, 30]), self.seed())] if k else []
                ops += ["otag:%d:%d" % (r.choice([0, 1, 30]), self.seed())]      # nothing left: otag=0
            else:
                ops += ["otag:%d:%d" % (r.choice([0, 1, 30]), self.seed())]
            k = r.randrange(1, n + 1)
            ops += ["pacc:%s:%d" % ("bi" if bi else "uni", k)]
            if n - k:
                ops += ["pacc:%s:%d" % ("bi" if bi else "uni", n - k)]
            if not bi:
                # the peer has read n streams to the end: n more may be opened, then no more
                back = r.randrange(1, n + 1)
                ops += ["%s:%s" % (o, self.who()), "settle:30"] + ["%s:%s" % (o1, self.who()) for _ in range(back - 1)]
                if back == n:
                    ops += ["%s:%s" % (o1, self.who())]
        return "quinn %s %s" % (cfg, " ".join(ops))

    def t_open_err(self):
        """opening and accepting after the connection failed: peer close with an arbitrary code, idle
        timeout, own close through an opener (with a reason the peer must see together with exactly the
        code) — through every opener, plus streams that arrived before the failure (Quinn drains them)."""
        r = self.rng
        how = r.choice(["pclose", "pclose", "idle", "oclose", "oclose", "aclose"])
        c = self.code()
        cfg, shape = self.cfg(send=r.random() < 0.7, recv=r.random() < 0.5, idle=r.choice([300, 400]) if how == "idle" else 0)
        ops = []
        if r.random() < 0.5:
            ops += ["%s:%s" % (r.choice(["ob1", "ou1"]), self.who())]
        if r.random() < 0.5:
            ops += [r.choice(["ab1", "ar1"])]
        arrived = []
        if how != "idle" and r.random() < 0.5:
            arrived = [r.choice(["pob", "pou"]) for _ in range(r.randrange(1, 3))]
            # no pause but a barrier: a datagram the peer sends AFTER it opened the streams; once the adapter side has
            # read it, the streams have arrived too (a pause of 30 ms was not enough on a machine other builds keep busy)
            ops += arrived + ["pdgs:1:%d" % self.seed(), "dgr"]
        if how == "pclose":
            # something that WAITS makes the close known (an open would succeed at once; an accept would take an
            # arrived stream first): an awaited accept, or an awaited datagram read when streams are waiting
            ops += ["pclose:%d" % c, r.choice(["ab", "ar", "dgr"])] if not arrived else ["pclose:%d" % c, "dgr"]
        elif how == "idle":
            ops += [r.choice(["ab", "ar", "dgr"])]
        elif how == "oclose":
            ops += ["oclose:%s:%d:%s" % (self.who(), c, self.reason()), "pclosedr"]
        else:
            ops += ["aclose:%d" % c, "pclosed"]
        tail = ["ob1:c", "ob1:o", "ob1:k", "ou1:c", "ou1:o", "ou1:k", "ab1", "ar1", "ob:%s" % self.who(), "ou:%s" % self.who(), "ab", "ar"]
        r.shuffle(tail)
        tail = tail[:r.randrange(3, 9)]
        if arrived:
            # the streams that arrived are handed out first, then the error
            tail = [("ab" if x == "pob" else "ar") for x in arrived] + tail
        ops += tail
        if how in ("oclose", "aclose") and r.random() < 0.3:
            ops += ["oclose:%s:%d:%s" % (self.who(), self.code(), self.reason()), "pclosedr"]    # the first close stands
        return "quinn %s %s" % (cfg, " ".join(ops))

    def t_close_bad(self):
        r = self.rng
        cfg, shape = self.cfg(send=True)
        return "quinn %s oclose:%s:%d:%s ob1:o" % (cfg, self.who(), r.choice([2**62, 2**63, 2**64 - 1]), self.reason())

    def t_accept(self):
        """streams the peer opens are accepted through the adapter in order, each once, with the ids
        RFC 9000 gives them; nothing there: Pending."""
        r = self.rng
        cfg, shape = self.cfg(send=r.random() < 0.5, recv=True, skip_max=5)
        ops = [r.choice(["ab1", "ar1"])]
        seq = [r.choice(["pob", "pou"]) for _ in range(r.randrange(1, 5))]
        if r.random() < 0.5:
            for x in seq:
                ops += [x, "ab" if x == "pob" else "ar"]
        else:
            ops += seq + [("ab" if x == "pob" else "ar") for x in r.sample(seq, len(seq))]
        ops += ["ab1", "ar1"]
        return "quinn %s %s" % (cfg, " ".join(ops))

    def ub(self, n, chunks=True):
        r = self.rng
        if chunks and n > 0 and r.random() < 0.5:
            return "ub:%d:%d:%d" % (n, self.seed(), r.randrange(0, n + 1))
        return "ub:%d:%d" % (n, self.seed())

    def t_unframed(self, sizes, windows):
        """the raw write path WebTransport uses: whatever is handed to poll_send reaches the peer exactly
        once, complete and in order, also between framed writes, whatever the windows and however the
        caller's buffer is chunked (the peer reads in the background, the loop runs like write_all)."""
        r = self.rng
        sw, cw, tw = r.choice(windows)
        cfg, shape = self.cfg(send=True, sw=sw, cw=cw, tw=tw)
        ops = self.idq(shape) + ["pbg"]
        for _ in range(r.randrange(1, 5)):
            if r.random() < 0.3:
                f, n = self.frame(sizes)
                ops.append("w:%s:%d:%d" % (f, n, self.seed()))
            else:
                ops += [self.ub(r.choice(sizes)), "psall"]
            ops += self.idq(shape, 0.2)
        ops += ["fin", "pjoin"]
        return self.line(cfg, ops)

    def t_unframed_partial(self):
        """nobody reads and the budget W = min(sw, cw) is smaller than the buffer: each poll_send takes what
        fits of the chunk it is offered and advances the caller's buffer by exactly that; then Pending."""
        r = self.rng
        w = r.choice([1, 2, 3, 7, 16, 64, 1000])
        sw, cw = r.choice([(w, 0), (w, w * 4), (w, w), (w * 4, w)])
        cfg, shape = self.cfg(send=True, sw=sw, cw=cw)
        n = w + r.choice([1, 2, 100, 5000])
        cut = r.choice([0, 1, w // 2, w, w + 1, n])
        ops = ["ub:%d:%d:%d" % (n, self.seed(), min(cut, n))]
        ops += ["ps1"] * r.randrange(2, 5) + self.idq(shape)
        ops += ["pbg", "psall"]
        if r.random() < 0.5:
            ops += [self.ub(r.choice([0, 1, 300])), "psall"]
        ops += ["fin", "pjoin"]
        return self.line(cfg, ops)

    def t_unframed_guard(self):
        """poll_send while a framed write is unfinished (send_data accepted, poll_ready Pending): refused
        like a second send_data, nothing interleaved; once the framed write is through, accepted."""
        r = self.rng
        w = r.choice([1, 2, 3, 7, 16, 64, 1000])
        cfg, shape = self.cfg(send=True, sw=w, cw=r.choice([0, w * 4]))
        n1 = w + r.choice([0, 1, 100, 5000])
        ops = ["sd:%s:%d:%d" % (r.choice("DH"), n1, self.seed())]
        if r.random() < 0.7:
            ops += ["pr1"]
        ops += [self.ub(r.choice([1, 3, 500])), r.choice(["ps1", "ps", "psall"])] + self.idq(shape)
        if r.random() < 0.5:
            ops += [r.choice(["ps1", "psall"]), "sd:D:1:1"]
        ops += ["pbg", "pr", "psall", "fin", "pjoin"]
        return self.line(cfg, ops)

    def t_unframed_err(self, c=None, how=None):
        """what poll_send reports when the write fails: the peer's stop (code preserved), the peer's close
        (code preserved), the idle timeout, and the conditions of the adapter side's own making."""
        r = self.rng
        how = how or r.choice(["pstop", "pstop", "pclose", "pclose", "idle", "aclose", "fin", "rst"])
        c = self.code() if c is None else c
        w = r.choice([1, 7, 16, 64, 1000])
        n = w + r.choice([1, 100, 70000])
        if how in ("pstop", "pclose", "idle"):
            cfg, shape = self.cfg(send=True, sw=w, cw=r.choice([0, w * 2]), idle=r.choice([300, 400]) if how == "idle" else 0)
            ops = [self.ub(n), "ps1", "ps1"] + self.idq(shape)
            if how != "idle":
                ops += ["%s:%d" % (how, c)]
            ops += [r.choice(["ps", "psall"]), "sid", r.choice(["ps1", "psall"])]
            # a later framed write meets the same condition; nothing is refused because of the failure
            ops += ["sd:D:1:1", "pr1", "sd:D:2:2", "pr", "sid"]
        else:
            cfg, shape = self.cfg(send=True)
            ops = ["w:D:1:1", self.ub(r.choice([1, 50]))]
            ops += {"aclose": ["aclose:%d" % c], "fin": ["fin"], "rst": ["rst:%d" % c]}[how]
            ops += [r.choice(["ps1", "ps", "psall"]), "sid", "ps1"]
        return self.line(cfg, ops)

    def t_datagram(self):
        """h3_quinn::datagram: what send_datagram is given (quarter stream id + payload) arrives as one
        datagram; what the peer sends is handed out unchanged; the error classes of both handlers."""
        r = self.rng
        how = r.choice(["ok", "ok", "off-a", "off-p", "pclose", "idle", "aclose"])
        extra = {"off-a": ["dga=0"], "off-p": ["dgp=0"]}.get(how, [])
        cfg, shape = self.cfg(send=r.random() < 0.5, recv=r.random() < 0.5, idle=r.choice([300, 400]) if how == "idle" else 0, extra=extra)
        sid = lambda: 4 * r.choice([0, 1, 15, 16, 4095, 4096, 2**28, 2**60 - 1])
        c = self.code()
        ops = []
        if how.startswith("off"):
            ops = ["dgs:%d:%d:%d" % (sid(), r.choice([0, 5]), self.seed()), "dgr1"]
        else:
            for _ in range(r.randrange(1, 4)):
                k = r.random()
                if k < 0.45:
                    ops += ["dgs:%d:%d:%d" % (sid(), r.choice([0, 1, 100, 1000]), self.seed()), "pdg"]
                elif k < 0.85:
                    ops += ["pdgs:%d:%d" % (r.choice([0, 1, 100, 1000]), self.seed()), "dgr"]
                else:
                    ops += ["dgs:%d:%d:%d" % (sid(), r.choice([2000, 65536]), self.seed())]
            ops += ["dgr1"]
            if how == "pclose":
                ops += ["pclose:%d" % c, "dgr", "dgs:0:1:1", "dgr1"]
            elif how == "idle":
                ops += ["dgr", "dgs:0:1:1", "dgr1"]
            elif how == "aclose":
                ops += ["aclose:%d" % c, "dgr1", "dgs:0:1:1", "dgr"]
        return "quinn %s %s" % (cfg, " ".join(ops))

    def t_datagram_sizes(self):
        """the datagram paths at Quinn's limit: sizes 0, 1, max-2 … max+2 (max = Quinn's max_datagram_size(), probed per
        path MTU and carried by the line; `dgmax` makes the harness report it on every case), several datagrams
        outstanding at once, the handlers re-created in between, the payload a multi-chunk Buf, and the receive
        direction decoded (stream id and payload exact)."""
        r = self.rng
        mtu = r.choice([0, 0, 1350, 1452])
        mx = probe_dgmax(mtu)
        if mx is None:
            return None
        cfg, shape = self.cfg(send=r.random() < 0.5, recv=r.random() < 0.5,
                              extra=["dgmax=%d" % mx] + (["mtu=%d" % mtu] if mtu else []))
        ops = ["dgmax"]
        sent = 0

        def one_send():
            sid = 4 * r.choice([0, 1, 15, 16, 63, 64, 4095, 4096, 16383, 16384, 2**28, 2**30, 2**60 - 1])
            q = enc_len(sid // 4)
            k = r.random()
            if k < 0.55:
                n = mx + r.choice([-2, -1, 0, 0, 1, 2]) - q
            elif k < 0.8:
                n = r.choice([0, 1, 2, 1009, 1024, 1025, 1100])
            else:
                n = r.choice([mx - q - 50, mx - q + 38, 2000, 65536])
            n = max(0, n)
            op = "dgs:%d:%d:%d" % (sid, n, self.seed())
            if n >= 2 and r.random() < 0.5:
                cuts = sorted(r.sample(range(1, n), min(n - 1, r.choice([1, 1, 2, 3]))))
                op += ":" + ",".join(str(c) for c in cuts)
            return op, q + n <= mx

        for _ in range(r.randrange(1, 4)):
            k = r.random()
            if k < 0.5:
                # several outstanding: all sent before the peer reads any
                batch = [one_send() for _ in range(r.choice([1, 1, 2, 3]))]
                for op, ok in batch:
                    ops.append(op)
                    if r.random() < 0.3:
                        ops.append("dgh")
                ops += ["pdg"] * sum(1 for _, ok in batch if ok)
            elif k < 0.85:
                m = r.choice([1, 1, 2])
                if r.random() < 0.3:
                    # a read is pending when the handler is dropped / when the datagram comes: nothing is lost with it
                    ops += ["dgr1"] + (["dgh"] if r.random() < 0.5 else [])
                for _ in range(m):
                    sid = 4 * r.choice([0, 1, 63, 64, 16384, 2**30, 2**60 - 1])
                    ops.append("pdgs:%d:%d:%d" % (r.choice([0, 1, 100, 1000, mx - 8]), self.seed(), sid))
                if r.random() < 0.3:
                    ops.append("dgh")
                ops += [r.choice(["dgrd", "dgrd", "dgr"]) for _ in range(m)]
            else:
                ops.append("dgh")
        ops += ["dgr1", "dgmax"]
        return "quinn %s %s" % (cfg, " ".join(ops))

    def t_chunked_frame(self):
        """the `Chain` variant of sd: a DATA frame whose payload Buf has several chunks goes through send_data / the write
        loop of poll_ready on a stream typed for that Buf; the peer reads exactly header + flattened payload (default
        windows: the frame fits, the peer reads afterwards)."""
        r = self.rng
        cfg, shape = self.cfg(send=r.random() < 0.5, recv=r.random() < 0.5, skip_max=3)
        ops = []
        k = 0
        for _ in range(r.randrange(1, 4)):
            if r.random() < 0.3:
                ops += ["ou:%s" % self.who(), "otag:%d:%d" % (r.choice([0, 1, 50]), self.seed())]
                k += 1
            n = r.choice([2, 3, 5, 64, 1000, 16384, 70000])
            cuts = sorted(r.sample(range(1, n), min(n - 1, r.choice([1, 1, 2, 3, 4]))))
            if r.random() < 0.3:
                cuts = sorted(set([1, n - 1] + cuts))      # a one-byte chunk first and last
            ops.append("sdm:%d:%d:%s" % (n, self.seed(), ",".join(str(c) for c in cuts)))
            k += 1
        ops.append("pacc:uni:%d" % k)
        return "quinn %s %s" % (cfg, " ".join(ops))

    def t_special(self):
        """connection set-ups in which real Quinn raises the conditions a well-behaved peer never causes:
        rej   the client aborts the handshake (bad certificate) after the adapter side took the connection in
              0.5-RTT: ConnectionClosed;  kill  the peer's endpoint is replaced: stateless reset, Reset;
        z0    0-RTT accepted (is_0rtt);  z0r  0-RTT rejected: ZeroRttRejected on the 0-RTT streams;
        z0t   … and the new server's certificate is refused by the adapter side's own Quinn: TransportError;
        z0v   … and the new server speaks another QUIC version: VersionMismatch."""
        r = self.rng
        hs = r.choice(["rej", "kill", "z0", "z0r", "z0t", "z0v"])
        conn_ops = ["ob1:c", "ob1:o", "ou1:k", "ou1:c", "ab1", "ar1", "dgr1", "dgs:0:1:1", "ob:%s" % self.who(), "ar", "ab"]
        if hs == "rej":
            ops = []
            if r.random() < 0.5:
                ops += [r.choice(["ob1:c", "ou1:o", "ob1:k"])]      # 0.5-RTT streams before the abort is known
            ops += [r.choice(["ab", "ar", "dgr"])] + r.sample(conn_ops, r.randrange(2, 7))
            return "quinn hs=rej,role=s %s" % " ".join(ops)
        kind = r.choice(["bi", "bi", "uni"])
        skip = r.choice([0, 0, 1, 3])
        cfg = "hs=%s,role=c,kind=%s,dir=open" % (hs, kind) + (",skip=%d" % skip if skip else "") + \
            (",split=0" if kind == "bi" and r.random() < 0.4 else "")
        rd = kind == "bi"
        if hs == "kill":
            # before the peer disappears everything the adapter side sent is acknowledged (a round trip where
            # there is a way back, a pause otherwise): a retransmission would meet the new endpoint too early
            ops = ["pbg", "w:D:%d:%d" % (r.choice([1, 5]), self.seed())] + (["pw:1:1", "pd"] if rd else []) + ["settle:50", "pkill", "sid"]
            ops += ["w:D:%d:%d" % (r.choice([100, 500]), self.seed())]
            # the reset surfaces on something that waits
            ops += [r.choice(["pd", "rdall", "ab"]) if rd else r.choice(["ab", "ar", "dgr"])]
            ops += (["rid"] if rd else []) + ["sid", "sd:D:1:1", "pr1", "sd:D:1:1", "pr"] + r.sample(conn_ops[:8], 3)
            if rd:
                ops += ["pd1"]
            return "quinn %s %s" % (cfg, " ".join(ops))
        if hs == "z0":
            ops = ["zacc"] + (["z0", "rid"] if rd else []) + ["sid", "pbg", "w:D:%d:%d" % (r.choice([0, 5, 1000]), self.seed())]
            if r.random() < 0.5:
                ops += [self.ub(r.choice([1, 300])), "psall"]
            ops += ["fin", "pjoin"] + (["z0"] if rd else [])
            return "quinn %s %s" % (cfg, " ".join(ops))
        # z0r / z0t / z0v: the 0-RTT stream is dead, its identifiers are not
        ops = ["zacc"] + (["z0", "rid"] if rd else []) + ["sid"]
        ops += [self.ub(3)]
        body = ["w:D:%d:%d" % (r.choice([0, 5]), self.seed()), "sd:D:1:1", "pr1", "pr", "ps1", "ps", "psall", "sid"]
        if rd:
            body += ["pd1", "pd", "rdall", "pdc", "rid", "stop:%d" % self.code(), "rid"]
        r.shuffle(body)
        ops += body[:r.randrange(3, 9)]
        ops += r.sample(conn_ops[:8], r.randrange(2, 5))
        return "quinn %s %s" % (cfg, " ".join(ops))


class C17(Prop):
    id = "C17"
    parallel = False   # engine is timing-sensitive (real Quinn loopback / OS threads parked at hooks): one harness process at a time
    modules = ["H3.Props.C17"]
    engines = ["quinn"]
    design_ref = "DESIGN.md section 7, C17"
    level_text = ("PARTIAL: Lean theorems over a model of the adapter's own logic (h3-quinn/src/lib.rs + datagram.rs + WriteBuf): the "
                  "framed write loop against every acceptance script of poll_write (pending / partial ok / error, any number of "
                  "poll_ready calls): accepted bytes are a prefix of the buffer, the rest is held exactly while Pending, Ready(Ok) iff "
                  "whole buffer, an error is the last call, a second send_data is refused unchanged iff a write is PENDING - a failed "
                  "write is finished and releases the stream (D-17c repaired); the unframed path poll_send and its callers' loop "
                  "against every script: accepted bytes in order, each once, the caller's Buf (any chunking) advanced by exactly what "
                  "was accepted and reported, error last, refused (not a panic, D-17b repaired) while a framed write is unfinished; "
                  "the receive ownership machine over every operation sequence: recv_id = creation id, never panics, a stop during a "
                  "pending read is issued exactly once, and - against a specification written from the caller's side (StopSpec, "
                  "reading R-17) - the first stop Quinn is given carries a code that is DUE (asked with no read in flight, or the "
                  "read in flight has completed since) as soon as it is due, never one that was not asked; the unsplit BidiStream "
                  "only delegates: ids constant before and after split, "
                  "split yields the halves the same operations would have produced; opening through Connection / opener() / a clone "
                  "hands out exactly the streams Quinn created, in order, each once, both halves under Quinn's id, errors as "
                  "ConnectionErrorIncoming; close passes exactly (code, reason); the five error conversions as TOTAL finite tables "
                  "(every Quinn condition -> its h3 class, code preserved, injective) compared on every run with the match arms, the "
                  "wrapping arms and, per method of every impl block, the conversion / guard / panic site / delegation re-extracted "
                  "from the source. Quinn, UDP and tokio are outside the model: that real Quinn delivers the accepted bytes once and "
                  "in order, numbers streams, grants credit and raises those error values is observed on real loopback connections "
                  "on every run, not proved")
    level_note = ("trusted: Lean kernel + 3 standard axioms; model tied to the code by running the same scenarios through the real "
                  "adapter over real Quinn loopback connections (windows 1 byte..default, frames and unframed buffers 0..256 KiB, ids "
                  "in every read/write state through split and unsplit streams, streams opened through every opener under stream "
                  "limits with the peer raising / returning credit, peer close/reset/stop/idle timeout with codes 0..2^62-1 at every "
                  "call site incl. open/accept/poll_send/datagrams, own close(code, reason) observed by the raw peer, and special "
                  "set-ups in which real Quinn raises ConnectionClosed, Reset (stateless reset), TransportError, VersionMismatch and "
                  "ZeroRttRejected) and through the model plus a small stated environment for Quinn (lean/H3/Drv/C17.lean); payload "
                  "Buf modelled as a list of chunks. Not reachable from a test against real Quinn 0.11 and therefore only in the "
                  "tables: ConnectionError::CidsExhausted, ReadError::ClosedStream (every path that retires the stream also sets "
                  "Quinn's all_data_read), ReadError::IllegalOrderedRead (the adapter only reads ordered: the panic arm is dead code)")
    rule = ("cases: scenario templates write-fidelity / refusal / truncating finish / ids / read-state ids / peer reset / peer stop / "
            "peer close / idle timeout / local conditions / stop during pending read / stop_sending in every read state with the "
            "peer asked before the next read / every HTTP/3 (0x100-0x110) and QPACK (0x200-0x202) code through every condition that "
            "carries a code / every accept and open call site (Connection, opener(), clone; polled once and awaited) after peer "
            "close, idle timeout and own close on every connection shape; second part: unframed fidelity / unframed "
            "partial writes / poll_send guard / poll_send errors / opening under stream limits / open+accept after failure / "
            "close(code, reason) / accepting / datagrams / DATA frames over a multi-chunk payload Buf (sdm) / datagrams at Quinn's max_datagram_size() (probed per path MTU, carried by "
            "the line as dgmax=, reported by the harness on every such case: sizes 0, 1, max-2..max+2, several outstanding, handlers "
            "re-created, multi-chunk payload Buf, the receive direction decoded) / special handshakes (rej kill z0 z0r z0t z0v); the bidirectional stream "
            "under test is left unsplit in about a third of the cases; parameters from the seeded PRNG; "
            "non-trivial = the scenario ran to the end on the real code (result is not bad-op/timeout/setup-failed/panic); "
            "distinct = distinct case lines; a case whose result contains a timeout is run a second time by the engine and "
            "counted (NOTE line); more than 5 such cases in one run whose timeout the model does not predict are a BROKEN "
            "correspondence")
    trusted = ["quinn 0.11 / quinn-proto / rustls / tokio / loopback UDP (observed, not modelled)",
               "the environment assumptions about Quinn in lean/H3/Drv/C17.lean (window budget, which Quinn error a peer action "
               "raises, first stop wins, implicit STOP_SENDING(0) on drop, a reset is reported once and reads after it answer the "
               "end, RFC 9000 stream numbering, stream credit = "
               "max_concurrent + streams the peer finished with, announced when it exceeds 1/8 of max_concurrent, arrived streams "
               "and datagrams are handed out before the connection's error, a rejected 0-RTT attempt is forgotten), each "
               "exercised by the correspondence run",
               "loopback UDP does not lose the (unretransmitted) datagrams of the datagram scenarios"]
    assumptions = ["reading R-17 (DESIGN.md section 9): the sentence on errors speaks about conditions the peer / the transport raise "
                   "and h3 is told; that the code of the adapter side's own stop_sending reaches the peer is demanded as the adapter's "
                   "documented behaviour (pending_stop) where the stream is or comes back in hand, not where the read in flight "
                   "never completes; a condition surfaces on the first call that meets it",
                   "the caller's Buf yields its bytes chunk by chunk (list of chunks)",
                   "poll_write accepts at most the bytes it is offered",
                   "the h3::quic call pattern: poll_ready is driven to Ready before poll_finish (a finish with an unfinished "
                   "buffer truncates it: modelled and observed, outside the property's quantifier)"]

    def cases(self, tier, rng):
        big = tier == "thorough"
        g = Gen(rng, big)
        L = []
        K = 1024
        tiny = [(1, 0, 0), (1, 1, 0), (2, 7, 0), (7, 2, 0), (16, 16, 0), (64, 64, 0), (16, 0, 16), (64, 64, 64)]
        mid = [(1000, 1000, 0), (1000, 0, 4096), (65536, 65536, 0), (0, 65536, 0), (65536, 0, 65536)]
        large = [(0, 0, 0), (0, 0, 0), (1 << 20, 1 << 22, 0)]
        small_sizes = [0, 1, 2, 3, 63, 64, 100, K]
        all_sizes = [0, 1, 2, K, 64 * K, 256 * K]
        # every size x a tiny, a middle and the default window setting (the slow ones once each)
        for n in all_sizes:
            for win in ([(1, 1, 0)] if n <= 64 * K else []) + [(16, 16, 0), (64, 64, 64), (1000, 1000, 0), (65536, 0, 0), (0, 0, 0)]:
                cfg, shape = g.cfg(send=True, sw=win[0], cw=win[1], tw=win[2])
                L.append("quinn %s sid pbg w:D:%d:%d sid fin pjoin" % (cfg, n, g.seed()))
        for tw in (1, 8):
            cfg, shape = g.cfg(send=True, tw=tw)
            L.append("quinn %s pbg w:D:%d:%d w:H:%d:%d fin pjoin" % (cfg, 16 * tw, g.seed(), tw, g.seed()))
        m = 6 if big else 2
        for _ in range(30 * m):
            L.append(g.t_write(small_sizes, tiny))
        for _ in range(12 * m):
            L.append(g.t_write(all_sizes[:5], mid + tiny[3:]))
        for _ in range(8 * m):
            L.append(g.t_write(all_sizes, mid + large))
        for _ in range(10 * m):
            L.append(g.t_write_noreader())
        for _ in range(30 * m):
            L.append(g.t_refuse())
        for _ in range(12 * m):
            L.append(g.t_refuse(trunc=True))
        for _ in range(30 * m):
            L.append(g.t_ids())
        for _ in range(30 * m):
            L.append(g.t_read_ids([0, 1, 2, K, 64 * K] + ([256 * K] if big else [])))
        for _ in range(30 * m):
            L.append(g.t_reset())
        for _ in range(30 * m):
            L.append(g.t_stop())
        for _ in range(30 * m):
            L.append(g.t_close())
        for _ in range(6 * (3 if big else 1)):
            L.append(g.t_idle())
        for _ in range(36 * m):
            L.append(g.t_local())
        for _ in range(36 * m):
            L.append(g.t_stop_pending())
        # stop_sending in every read state, the peer asked before the next read starts (reading R-17)
        for st in ("idle", "after-data", "in-flight", "cancelled", "polled-again", "two-codes", "drop-after", "rdall", "lost-drop"):
            for _ in range(2 * m):
                L.append(g.t_stop_states(state=st))
        for _ in range(20 * m):
            L.append(g.t_stop_states())
        if big:
            L.append(g.t_stop_states(state="lost-alive"))
        # every code HTTP/3 and QPACK define, through every condition that carries a code (peer stop / reset / close
        # on the framed, the unframed, the read, the accept and the open paths, own stop_sending towards the peer)
        for c in POOL:
            L.append(g.t_stop(c))
            L.append(g.t_reset(c))
            L.append(g.t_close(c))
            L.append(g.t_unframed_err(c, how=rng.choice(["pstop", "pclose"])))
            L.append(g.t_stop_states(c, state=rng.choice(["idle", "after-data", "in-flight", "cancelled"])))
            L.append(g.t_conn_failed("pclose", c))
        # H3_NO_ERROR, the code a "helpful" adapter is most tempted to treat as success: every window, both frame kinds
        for w in (1, 7, 16, 64, 1000):
            for f in "DHDH":
                L.append(g.t_stop(H3_NO_ERROR, w=w, f=f))
            L.append(g.t_unframed_err(H3_NO_ERROR, how="pstop"))
        # audit leftover C17-3: every accept / open call site after the connection failed, on every connection shape
        for role in "cs":
            for kind in ("bi", "uni"):
                for d in ("open", "acc"):
                    for how in ("pclose", "idle", "oclose"):
                        L.append(g.t_conn_failed(how, shape=(role, kind, d)))
        for _ in range(4 * m):
            L.append(g.t_conn_failed("aclose"))
        for _ in range(8 * (m - 1)):
            L.append(g.t_conn_failed(rng.choice(["pclose", "idle", "oclose"])))
        # ---- second part
        # the unframed path: every size x a tiny, a middle and the default window setting
        for n in all_sizes:
            for win in ([(1, 1, 0)] if n <= 64 * K else []) + [(16, 16, 0), (64, 64, 64), (1000, 1000, 0), (0, 0, 0)]:
                cfg, shape = g.cfg(send=True, sw=win[0], cw=win[1], tw=win[2])
                L.append(g.line(cfg, ["sid", "pbg", g.ub(n), "psall", "sid", "fin", "pjoin"]))
        for _ in range(20 * m):
            L.append(g.t_unframed(small_sizes, tiny))
        for _ in range(8 * m):
            L.append(g.t_unframed(all_sizes[:5], mid + tiny[3:]))
        for _ in range(4 * m):
            L.append(g.t_unframed(all_sizes, mid + large))
        for _ in range(20 * m):
            L.append(g.t_unframed_partial())
        for _ in range(20 * m):
            L.append(g.t_unframed_guard())
        for _ in range(24 * m):
            L.append(g.t_unframed_err())
        for _ in range(30 * m):
            L.append(g.t_open())
        for _ in range(30 * m):
            L.append(g.t_open_err())
        for _ in range(3 * m):
            L.append(g.t_close_bad())
        for _ in range(15 * m):
            L.append(g.t_accept())
        for _ in range(20 * m):
            L.append(g.t_datagram())
        for _ in range(15 * m):
            L.append(g.t_chunked_frame())
        for _ in range(40 * m):
            x = g.t_datagram_sizes()
            if x is not None:
                L.append(x)
        for _ in range(30 * m):
            L.append(g.t_special())
        return L

    retries = 0
    retried_lines = ()
    MAX_FORGIVEN = 5     # more unexpected first-attempt timeouts than this in one run: the correspondence is BROKEN
    shrink_budget = 60   # seconds per failing case: an attempt that waits for something that never comes takes seconds

    def project_all(self, lines, impls):
        """the engine marks a case it had to run twice (a timeout the first time) with ` #retry`"""
        out = []
        marked = []
        for l, o in zip(lines, impls):
            if o.endswith(" #retry"):
                marked.append(l)
                o = o[:-len(" #retry")]
            out.append(o)
        if len(lines) > 1:
            self.retries = len(marked)
            self.retried_lines = tuple(marked)
        return out

    def extra(self, tier, rng, ctx):
        """A first attempt that contained a timeout is forgiven (the machine may be loaded) - but counted, and only a
        handful per run: an intermittent lost wake-up shows as exactly that, a timeout that is gone the second time.
        A timeout the MODEL predicts (nothing there to read) is no such thing and is not counted."""
        if not self.retries:
            return []
        model = dict(zip(ctx["lines"], ctx["model"]))
        unexpected = [l for l in self.retried_lines if "timeout" not in model.get(l, "")]
        res = [("note", "%d case(s) contained a timeout on the first attempt and were run a second time by the engine "
                "(the second result is the one compared); %d of them unexpected (the model predicts no timeout), at most "
                "%d are forgiven" % (self.retries, len(unexpected), self.MAX_FORGIVEN), None)]
        if len(unexpected) > self.MAX_FORGIVEN:
            res.append(("broken", "correspondence: %d cases timed out on the first attempt and not on the second (more than the %d "
                        "a loaded machine is forgiven): an intermittent stall, e.g. a lost wake-up; first: `%s`"
                        % (len(unexpected), self.MAX_FORGIVEN, unexpected[0]), None))
        return res

    def klass(self, line, impl):
        kinds = set()
        for w in line.split()[1].split(","):
            if w.startswith("hs=") or w == "split=0":
                kinds.add(w)
        for t in impl.split():
            if "=" not in t:
                if t in ("split", "oclose", "pkill"):
                    kinds.add(t)
                continue
            k, v = t.split("=", 1)
            v = v.split("/")[0].split(":")
            if v[0] == "err":
                kinds.add((k.rstrip("1") + ":" if k[:2] in ("ob", "ou", "ab", "ar", "ps", "dg", "ot") else "") + "err:" + v[1].split("@")[0])
            elif k in ("sid", "rid") and v[0] != "panic":
                kinds.add(k)
            elif k == "peer":
                kinds.add("peer:" + (v[-1] if v[-1] == "fin" else v[0]))
            elif k == "pacc":
                kinds.add("pacc")
            elif k[:2] in ("ob", "ou", "ab", "ar", "ps", "dg") or k in ("pdg", "otag", "z0", "zacc", "pclosedr"):
                kinds.add(k.rstrip("1") + "=" + ("n" if v[0].isdigit() else v[0]))
            elif v[0] in ("ok", "data", "end", "cancelled"):
                continue
            else:
                kinds.add(k + "=" + ("n" if v[0].isdigit() else v[0]))
        return "+".join(sorted(kinds)) or impl.split(" ")[0]

    def trivial(self, line, impl):
        if impl in ("bad-op", "timeout", "setup-failed", "panic", "abort"):
            return True
        return any(t.split("=", 1)[1].split("/")[0].startswith("timeout") for t in impl.split() if "=" in t)

    def shrink_candidates(self, line):
        w = line.split()
        out = []
        ops = w[2:]
        kv = w[1].split(",")
        # a candidate must stay a complete scenario: on a bidirectional stream the adapter side opened, the raw peer
        # can write / reset / be asked what it was told only after it has LEARNT of the stream, i.e. after the
        # announcing write (`pbg`, `w:…` in front); without it `pw` never happens and the line fails for a reason of
        # its own (the shrinker once walked `… pbg w:D:5:1 pd1 stop:1 pw:1:1 pd pstopped` into `… pbg pd1 stop:1 …`)
        keep = set()
        if "kind=uni" not in kv and "dir=acc" not in kv and any(o.split(":")[0] in ("pw", "pfin", "prst", "prstnow", "pstopped")
                                                              for o in ops):
            for name in ("pbg", "w"):
                for i, o in enumerate(ops):
                    if o.split(":")[0] == name:
                        keep.add(i)
                        break
        # drop one op (from the end), then shrink sizes, then simplify the configuration
        for i in range(len(ops) - 1, -1, -1):
            if i not in keep:
                out.append(" ".join(w[:2] + ops[:i] + ops[i + 1:]))
        for i, op in enumerate(ops):
            p = op.split(":")
            if p[0] in ("sd", "w") and len(p) == 4 and int(p[2]) > 0:
                for n in (0, int(p[2]) // 2):
                    out.append(" ".join(w[:2] + ops[:i] + [":".join(p[:2] + [str(n), p[3]])] + ops[i + 1:]))
            if p[0] == "pw" and int(p[1]) > 1:
                out.append(" ".join(w[:2] + ops[:i] + ["pw:%d:%s" % (int(p[1]) // 2, p[2])] + ops[i + 1:]))
            if p[0] == "ub" and int(p[1]) > 1:
                out.append(" ".join(w[:2] + ops[:i] + ["ub:%d:%s" % (int(p[1]) // 2, p[2])] + ops[i + 1:]))
                if len(p) > 3:
                    out.append(" ".join(w[:2] + ops[:i] + [":".join(p[:3])] + ops[i + 1:]))
        for i, x in enumerate(kv):
            if x.split("=")[0] in ("skip", "sw", "cw", "tw", "split"):
                out.append(" ".join([w[0], ",".join(kv[:i] + kv[i + 1:])] + ops))
        return out


PROP = C17()
