import collections
import re

from vlib import Prop
from props.c16 import hx
from props.c02 import varint

URI = "68747470733a2f2f612e622f78"     # https://a.b/x
# what h3's own encoder writes for the heads the applications submit (all statically indexed but authority and path)
METHODS = {"GET": 0xd1, "POST": 0xd4, "PUT": 0xd5, "DELETE": 0xd0, "HEAD": 0xd2, "OPTIONS": 0xd3}
STATUSES = {200: 0xd9, 304: 0xda, 404: 0xdb, 503: 0xdc}
# trailer sections the applications submit: one statically indexed field each (name=hexvalue)
TRAILERS_TX = ["age=30", "accept-ranges=6279746573", "cache-control=6e6f2d6361636865", "cache-control=6e6f2d73746f7265",
               "vary=6f726967696e", "vary=6163636570742d656e636f64696e67", "x-content-type-options=6e6f736e696666"]
# frame types h3 does not know: reserved (0x1f * N + 0x21: 0x21, 0x40, 0x5f, 0x138) and unassigned ones; never 0x41 (WebTransport)
UNKNOWN_TYPES = [0x21, 0x21, 0x40, 0x5f, 0x138, 0x0a, 0x0b, 0xff, 0x4000]

# reset / stop codes: small numbers, every defined HTTP/3 error code (0x100 H3_NO_ERROR … 0x110), the QPACK codes, the largest varint
# (H3_NO_ERROR, the code RFC 9114 4.1 recommends for STOP_SENDING after a complete response, and H3_REQUEST_CANCELLED more often)
CODES = [0, 7, 9] + list(range(0x100, 0x111)) + [0x200, 0x201, 0x202, 2**62 - 1] + [0x100] * 4 + [0x10c] * 2


def pint(prefix_bits, flags, n):
    """QPACK prefixed integer"""
    lim = (1 << prefix_bits) - 1
    if n < lim:
        return [flags | n]
    out = [flags | lim]
    n -= lim
    while n >= 128:
        out.append(0x80 | (n & 0x7f))
        n >>= 7
    out.append(n)
    return out


def raw(x):
    return x if isinstance(x, bytes) else x.encode()


def lit(name, value):
    """literal field line with literal name (str or bytes; may be empty, may start with ':'), no Huffman"""
    nb, vb = raw(name), raw(value)
    return pint(3, 0x20, len(nb)) + list(nb) + pint(7, 0x00, len(vb)) + list(vb)


def nameref(idx, value):
    """literal field line with static name reference (index < 15), no Huffman"""
    vb = value.encode()
    return pint(4, 0x50, idx) + pint(7, 0x00, len(vb)) + list(vb)


def fsize(fields):
    return sum(len(raw(n)) + len(raw(v)) + 32 for n, v in fields)


# Malformed sections (validly encoded): the classes of C12 (tools/props/c12.py) that C12's oracle H3.Spec.Headers refuses
# AND the code refuses.  Not used: a pseudo-header field behind a regular one, a repeated pseudo-header field, a missing
# :scheme / :path (R-12: not demanded, the code accepts the first two), connection-specific fields (h3 does not look).
# class -> list of edits; an edit = ("add", name, value) insert a field | ("drop", name) | ("set", name, value)
BAD_ANY = {   # head of both kinds and trailers
    "upper": [("add", n, "v") for n in ("X-A", "Content-Type", "hosT", "A")],
    "emptyname": [("add", "", "v"), ("add", "", "")],
    "badname": [("add", n, "v") for n in (b"a b", b"a\x00", b"a:b", b"a(b", b"a\x7f", b"a\x80", b'a"b', b" a", b"a\r\n", b"a=b", b"\xc3\xa9")],
    "ctlvalue": [("add", "x-c", v) for v in (b"a\rb", b"\n", b"\x00", b"a\x7fb", b"\x1f", b"x\r\ny: z", b"\x0b", b"a\x00")],
    "unkpseudo": [("add", n, "v") for n in (":x", ":unknown", ":Method", ":", ":version", ":host", ":methodx", ":STATUS")],
}
BAD_REQ = {
    "nomethod": [("drop", ":method")],
    "badmethod": [("set", ":method", v) for v in (b"G T", b"", b"GET\x00", b"G(T", b"G/T")],
    "otherkind": [("add", ":status", "200"), ("add", ":status", "404")],
    "noauthority": [("drop", ":authority")],
    "hostcontra": [("add", "host", "b.c"), ("add", "host", "a.b.c")],
}
BAD_RESP = {
    "nostatus": [("drop", ":status")],
    "badstatus": [("set", ":status", v) for v in (b"2x0", b"20", b"099", b"", b"1000", b" 200", b"20\x00")],
    "otherkind": [("add", ":method", "GET"), ("add", ":path", "/"), ("add", ":scheme", "https"), ("add", ":authority", "a.b")],
}
BAD_TRL = {
    "trlpseudo": [("add", ":status", "200"), ("add", ":method", "GET"), ("add", ":path", "/"), ("add", ":authority", "a.b")],
}


def frame(ty, payload):
    return varint(ty) + varint(len(payload)) + list(payload)


class C07(Prop):
    id = "C07"
    thorough_rounds = 12   # thorough tier: this many independently seeded rounds of the random generators (duplicates dropped)
    modules = ["H3.Props.C07", "H3.Lemmas.GenAgreeReq", "H3.Lemmas.GenAgreeFrame", "H3.Lemmas.Iso", "H3.Lemmas.IsoLift",
               "H3.Lemmas.IsoPolledFS", "H3.Lemmas.IsoPolledReq", "H3.Lemmas.IsoPolled", "H3.Lemmas.IsoFault"]
    engines = ["iso"]
    design_ref = "DESIGN.md section 7, C07; section 12 'C07' (three paragraphs); reading R-07"
    level_text = ("Lean theorems over the product machine H3.Iso (any number of request machines = the C03 receive machine over the "
                  "FrameStream model + a send half with write credit, sharing one error cell; the driver closes when it finds the cell "
                  "filled; histories = arbitrary lists of per-stream peer events, per-stream API polls and driver polls, unbounded): "
                  "C07_documented_histories_are_stream_scoped + C07_documented_stream_never_told_connection_error (whole histories, "
                  "hypothesis on the INPUT only - DocStream: every stream's transport events are non-empty chunks carrying a prefix of "
                  "the bytes of a validly framed message U* H (U|D)* (H U*)?, or of unknown frames only, ended by nothing yet, by FIN "
                  "on the message's last frame boundary, or by RESET with any code after ANY prefix; STOP_SENDING with any code and "
                  "credit grants anywhere; the header oracle answers ok, malformed or over-the-limit, not a QPACK failure, for the head "
                  "as a head and for the trailers as trailers; the application makes the documented calls - obeys, reading R-07: head "
                  "polled until it answers, then recv_data call by call or as the body task, then recv_trailers, each polled again "
                  "while Pending, NO receive call after one answered an error, send calls anywhere - => no call on any stream ever "
                  "answers a connection-level error, i.e. the history IS StreamScoped), hence "
                  "C07_connection_stays_open_documented and C07_neighbours_unaffected_documented with no hypothesis about the model's "
                  "own run (proof: C02's CInv with the RESET admitted in the script, robust_next/robust_data, one lemma per call of the "
                  "pattern, induction over the events: H3/Lemmas/IsoFault.lean); "
                  "C07_stream_fault_is_local (every stream-scoped fault transition - RESET with any code met at any point of the byte "
                  "stream by resolve/recv_response/recv_data/recv_trailers/the body loop, STOP_SENDING met by a send call, malformed "
                  "head or trailers, oversized head (431 written/refused/stopped) or trailers, FIN before HEADERS on a server "
                  "(H3_REQUEST_INCOMPLETE) and on a client (H3_MESSAGE_ERROR, repaired D-07a) - "
                  "answers RemoteTerminate{c} / H3_MESSAGE_ERROR / header-too-big / H3_REQUEST_INCOMPLETE, leaves the cell unchanged, "
                  "never calls close, touches no other stream), C07_fault_reaction (the reset/stop codes h3 sends, the 431 on that "
                  "stream only), C07_only_connection_errors_write_cell, C07_neighbours_unaffected (in every history in which no stream "
                  "is told a connection-level error, what any stream sees = the run of its own events alone = the run without the "
                  "faulted streams = the run with other faults), C07_interleaving_irrelevant + C07_adjacent_swap (same per-stream "
                  "event order => same per-stream view, cell, close calls), C07_connection_stays_open (cell empty and no close call "
                  "after every prefix), C07_healthy_stream_delivers (composition with the closed lifting of C03 - lift_exists / "
                  "liftR_sim, no frame-layer hypothesis: a stream whose own transport events are ANY cutting into non-empty chunks of "
                  "the bytes of a valid message - valid = the C02 reference automaton reads HEADERS h, DATA payloads ds, HEADERS t iff "
                  "trailers, and ends on a frame boundary - followed by FIN, then head and body polls: head, body = its own DATA "
                  "payloads in order, end, trailers iff present, nothing reset, connection open, under every interleaving with the other "
                  "streams, their faults and the driver), C07_healthy_stream_delivers_polled (the same with the stream's own polls "
                  "interleaved with its own deliveries in ANY way: every call of the documented pattern polled again while it answers "
                  "Pending, more bytes arriving between any two polls, the last poll after FIN; stated on the digest = answers with "
                  "Pending left out; proof = invariant over every schedule, C02's pollNext_preserves / pollData_spec per frame-layer "
                  "call), C07_healthy_stream_prefix_polled (at every earlier point: nothing, or the head and a PREFIX of its own DATA "
                  "payloads; end only with all of them; never an error), C07_healthy_stream_schedule_irrelevant (two cuttings, two "
                  "schedules, two histories: same head, body bytes, trailers), C07_healthy_stream_polled_as_delivered_first (its instance: "
                  "polled again after every Pending = everything delivered first; follows_delivered_first); "
                  "C07_healthy_stream_delivers_partial kept for the record "
                  "(conditional on FrameSim, superseded)")
    level_note = ("remaining hypotheses of the healthy-stream theorems (all decidable statements about the stream's own bytes or the "
                  "oracle): chunks non-empty, no DATA frame of usize::MAX bytes, the header oracle accepts the head block and the "
                  "trailer block within the limit, the loop bound of a body poll exceeds the number of frame-layer tokens; the "
                  "application follows the documented pattern (follows, decidable; R-07: the pattern ends with the first error "
                  "a receive call answers). "
                  "trusted: Lean kernel + 3 axioms; the request machine, FrameStream and error-cell models (tied by the C02/C03/C05 runs) "
                  "and the product H3.Iso, whose prediction for every scenario line is compared with the real h3 endpoint by this run "
                  "(model half of the driver = H3.Iso run on the line); header validity/size is an oracle parameter (C10/C11/C12); "
                  "granularity = one poll of one task or one transport event; write back-pressure = a byte credit per stream (the "
                  "431 answer of an oversized request is modelled as one write that does not wait: ten bytes, the first write of "
                  "its stream, and the scenarios give every stream at least 32 bytes of initial credit - a 431 waiting for credit "
                  "inside resolve_request is not modelled; a 431 refused because the peer sent STOP_SENDING is), grease frame off; "
                  "header validation in the model half = the C12 model H3.Headers with the http crate's scheme / authority / path "
                  "parsers instantiated for the values the scenarios use (Drv/C07.lean modelHttp); real "
                  "scheduling and timing are not modelled. SimQuic scenario runs with 2..4 concurrent requests, any subset faulted, "
                  "random interleavings and executor orders")
    rule = ("2..4 concurrent requests on one connection, both roles; every request has its own head (method / path / status, a "
            "marker header naming the stream), its own body cut into DATA frames (empty ones included) and random chunks, often its "
            "own trailers, and frames of unknown / reserved types (with payload, cut across deliveries) before the HEADERS, between "
            "the body frames, before and after the trailers; each is healthy or suffers ONE fault: RESET with an arbitrary code at a "
            "random byte offset below the end of the message, exactly at its end instead of the FIN (sometimes a FIN behind it), "
            "or behind the FIN of the complete message (SimQuic never looks at it: both answers accepted), STOP_SENDING, a "
            "validly encoded malformed head or trailer section of one of the classes of C12 that its oracle and the code refuse "
            "(upper-case / empty / non-token name, control byte in a value, undefined pseudo-header field, one of the other kind "
            "of message, :method / :status missing or illegal, no authority, Host contradicting :authority, pseudo-header field "
            "in trailers), an oversized head or trailer section, on a server also an oversized head whose 431 answer meets a "
            "STOP_SENDING, FIN before HEADERS (bare or behind unknown frames); the application's calls (head, then rm or rb+rt; "
            "send_response / send_data / send_trailers / finish) are placed before, between and after the deliveries and the fault "
            "(early / late / random merge per stream); a third of the scenarios run under write back-pressure (wc=32..64, credit "
            "granted in pieces; also next to oversized requests on a server); ops of different streams interleaved at random, executor order seeds; head results, trailers and "
            "the bytes written are compared in full; non-trivial = at least one healthy and one faulted stream in the scenario")
    trusted = ["the decision tables of the request receive path (H3.Gen.ReqArms, FirstFrame, FrameErrCodes, FrameDispatch) are re-read from the sources on this run and the request machine of H3.Iso is proved to follow them (H3.Lemmas.GenAgreeReq/GenAgreeFrame, rebuilt on this run)"]
    assumptions = ["a RESET behind the FIN of a completely delivered message may be ignored (RFC 9000 3.2 'Data Recvd'; SimQuic does) or reported: the specification accepts the healthy answer and the stream-level error with its code; a FIN behind a RESET is ignored",
                   "which sections are malformed is C12's oracle (H3.Spec.Headers.WellFormedRequest / Response / Trailers), applied only to sections whose :scheme / :authority / :path / Host values are of the plain shapes all readings accept; R-12 cases (repeated pseudo-header fields, pseudo-header fields behind regular ones, missing :scheme / :path) and connection-specific fields get no opinion",
                   "a RESET may discard data the application had not read yet (QUIC); the specification fixes only the error kind on a faulted stream (the model predicts every answer on SimQuic, which keeps the data before the reset)",
                   "R-07: the documented receive pattern of a request ends with the first error one of its receive calls answers (cfg rxhalt=1: later receive calls are not made); send calls on the same request go on",
                   "the code a client reports for a response stream that ends before HEADERS is H3_MESSAGE_ERROR (RFC 9114 4.1.2, R-07)"]

    # ------------------------------------------------------------------ projection

    def project(self, line, impl):
        if " | " not in impl:
            return impl
        trace, summ = impl.split(" | ", 1)
        w = line.split()
        role, ops = w[1], w[3:]
        per = {}
        driver = "ok"
        for t in trace.split():
            m = re.match(r"^q(\d+)s?\.(\w+)=(.*)$", t)
            if m:
                r = re.sub(r"err:toobig:\d+:\d+", "err:toobig", m.group(3))
                per.setdefault(int(m.group(1)), []).append((m.group(2), r))
                continue
            m = re.match(r"^(conn\.A|drv\.W)=(.*)$", t)
            if m and m.group(2).startswith("err"):
                driver = "err"
        tx = {}
        for m in re.finditer(r"(\d+):tx=([0-9a-f-]+)((?:,\w+(?:=\d+)?)*)", summ):
            tx[int(m.group(1))] = (m.group(2), m.group(3))
        # the request streams of the LINE (the projection must not depend on the outcome)
        if role == "server":
            sids = sorted({int(o[1:]) for o in ops if re.match(r"^o\d+$", o) and int(o[1:]) % 4 == 0})
        else:
            sids = [4 * i for i in range(sum(1 for o in ops if o.startswith("snd.R")))]
        out = []
        for sid in sids:
            res = per.get(sid, [])
            errs, conn = set(), 0
            for op, r in res:
                if "err:conn" in r:
                    conn = 1
                    continue
                m = re.search(r"err:(rterm:\d+|stream:\w+|toobig|rclosing|undefined|other)", r)
                if m:
                    errs.add(m.group(1))
            out.append("q%d:E[%s]:conn=%d" % (sid, ",".join(sorted(errs)), conn))
            t, flags = tx.get(sid, ("-", ""))
            fl = "".join("," + f for f in flags.split(",") if f and f != "writing")
            out.append("q%d:%s;tx=%s%s" % (sid, ",".join("%s=%s" % x for x in res), t, fl))
        m = re.search(r"closed=\[([^\]]*)\]", summ)
        out.append("closed=[%s]" % (m.group(1) if m else "?"))
        out.append("driver=%s" % driver)
        return " ".join(out)

    def klass_raw(self, line, raw):
        w = line.split()
        ops = w[3:]
        kinds = []
        if any(re.match(r"^r\d+:", o) for o in ops):
            kinds.append("reset")
        if any(re.match(r"^r\d+:", o) and ("f" + o[1:].split(":")[0]) in ops[:i] for i, o in enumerate(ops)):
            kinds.append("reset>fin")
        if any(re.match(r"^x\d+:", o) for o in ops):
            kinds.append("stop")
        for k in ("stream:H3_MESSAGE_ERROR", "stream:H3_REQUEST_INCOMPLETE", "toobig"):
            if "err:" + k in raw:
                kinds.append(k.split(":")[-1])
        n = len({m.group(1) for o in ops for m in [re.match(r"^o(\d+)$", o)] if m and int(m.group(1)) % 4 == 0}) or len(re.findall(r"snd\.R", line))
        return "%s streams=%d wc=%d tr=%d faults=%s closed=%s" % (
            w[1], n, int("wc=" in w[2]), int("trailers:" in raw), "+".join(kinds) or "none",
            re.search(r"closed=\[[^\]]*\]", raw).group(0) if "closed=" in raw else "?")

    def trivial_raw(self, line, raw):
        p = self.project(line, raw).split()
        es = [t for t in p if re.match(r"^q\d+:E\[", t)]
        return not (any("E[]" in t for t in es) and any("E[]" not in t for t in es))

    # ------------------------------------------------------------------ generator

    def chunks(self, sid, data, rng):
        out, i = [], 0
        sizes = rng.choice([[1, 2, 3, 7, 20, len(data)], [1, 2, 3], [5, 11, 40], [len(data)]])
        while i < len(data):
            k = max(1, rng.choice(sizes))
            out.append("s%d:%s" % (sid, hx(data[i:i + k])))
            i += k
        return out

    def unknown(self, rng, n=None):
        """frames of unknown / reserved types with payload"""
        out = []
        for _ in range(n if n is not None else rng.choice([1, 1, 2])):
            ln = rng.choice([0, 0, 1, 5, 30, 40])
            out += frame(rng.choice(UNKNOWN_TYPES), [rng.getrandbits(8) for _ in range(ln)])
        return out

    def head_fields(self, server, sid, rng):
        if server:
            m = rng.choice(sorted(METHODS))
            return [(":method", m), (":scheme", "https"), (":authority", "a.b"), (":path", "/s%d" % sid), ("x-id", "%d" % sid)]
        return [(":status", "%d" % rng.choice(sorted(STATUSES))), ("x-id", "%d" % sid)]

    def encode(self, fields):
        """statically indexed / name-referenced where the table has the line, else literal with literal name"""
        out = [0, 0]
        for n, v in fields:
            if n == ":method" and v in METHODS:
                out.append(METHODS[v])
            elif n == ":scheme" and v == "https":
                out.append(0xd7)
            elif n == ":authority" and isinstance(v, str):
                out += nameref(0, v)
            elif n == ":path" and isinstance(v, str):
                out += nameref(1, v)
            elif n == ":status" and isinstance(v, str) and v.isdigit() and int(v) in STATUSES:
                out.append(STATUSES[int(v)])
            else:
                out += lit(n, v)
        return out

    def malform(self, rng, fields, pos):
        """one malformed variant of a good section; pos: request | response | trailers.  Returns (class, fields)."""
        table = dict(BAD_ANY)
        table.update({"request": BAD_REQ, "response": BAD_RESP, "trailers": BAD_TRL}[pos])
        cls = rng.choice(sorted(table))
        ed = rng.choice(table[cls])
        self.gen_stats["malformed %s: %s" % (pos, cls)] += 1
        fields = list(fields)
        npseudo = sum(1 for n, _ in fields if isinstance(n, str) and n.startswith(":"))
        if ed[0] == "drop":
            fields = [f for f in fields if f[0] != ed[1]]
        elif ed[0] == "set":
            fields = [(n, ed[2]) if n == ed[1] else (n, v) for n, v in fields]
        else:
            name = ed[1]
            if raw(name).startswith(b":"):
                at = rng.randrange(0, npseudo + 1)            # among the pseudo-header fields (never behind a regular one)
            else:
                at = rng.randrange(npseudo, len(fields) + 1)  # among the regular fields
            fields.insert(at, (name, ed[2]))
        return cls, fields

    def section(self, fields, kind, mfs, rng=None, pos=None):
        """kind: good | malformed (one class of C12, RFC 9114 4.2 / 4.3) | oversized (over mfs)"""
        fields = list(fields)
        if kind == "malformed":
            _, fields = self.malform(rng, fields, pos)
        if kind == "oversized":
            fields.append(("x", "v" * (mfs - fsize(fields) + 9)))
        return self.encode(fields)

    def merge(self, rng, seqs):
        seqs = [list(s) for s in seqs if s]
        out = []
        while any(seqs):
            s = rng.choice([q for q in seqs if q])
            out.append(s.pop(0))
        return out

    def stream_plan(self, rng, server, sid, kind, mfs, wc):
        """ops of one request: deliveries D, receive calls R, send calls S, the STOP_SENDING, credit grants"""
        body = [rng.getrandbits(8) for _ in range(rng.choice([0, 1, 5, 30, 70]))]
        wire = []
        if kind == "finfirst":
            # abandoned before its headers: bare FIN, or FIN behind unknown frames (a long one, then often a short one)
            if rng.random() < 0.6:
                wire = frame(rng.choice(UNKNOWN_TYPES), [rng.getrandbits(8) for _ in range(rng.choice([3, 30, 40]))])
                if rng.random() < 0.7:
                    wire += frame(rng.choice(UNKNOWN_TYPES), [rng.getrandbits(8) for _ in range(rng.choice([0, 0, 2]))])
        else:
            if rng.random() < 0.35:
                wire += self.unknown(rng)
            hk = {"malformed": "malformed", "oversized": "oversized", "oversizedstop": "oversized"}.get(kind, "good")
            wire += frame(1, self.section(self.head_fields(server, sid, rng), hk, mfs, rng, "request" if server else "response"))
            hdr_end = len(wire)
            pos = 0
            while pos < len(body) or (pos == 0 and rng.random() < 0.5):
                if rng.random() < 0.25:
                    wire += self.unknown(rng, 1)
                n = min(rng.choice([0, 1, 3, len(body) - pos]), len(body) - pos) if pos < len(body) else 0
                wire += frame(0, body[pos:pos + n])
                pos += n
                if n == 0 and pos >= len(body):
                    break
            if rng.random() < 0.25:
                wire += self.unknown(rng, 1)
            tk = {"badtrailers": "malformed", "bigtrailers": "oversized"}.get(kind)
            if tk or (kind in ("none", "stop", "reset", "resetend", "resetfin") and rng.random() < 0.45):
                wire += frame(1, self.section([("x-t", "%d" % sid)] + ([("x-u", "t")] if rng.random() < 0.3 else []), tk or "good", mfs, rng, "trailers"))
                if rng.random() < 0.3:
                    wire += self.unknown(rng, 1)
        opener = ["o%d" % sid] if server else []
        self.gen_stats["%s request of kind %s" % ("server" if server else "client", kind)] += 1
        if kind == "reset":
            cut = rng.randrange(0, len(wire))       # any byte offset below the end: the message is never complete
            D = self.chunks(sid, wire[:cut], rng) + ["r%d:%d" % (sid, rng.choice(CODES))]
        elif kind == "resetend":
            # RESET exactly at the end of the message bytes, instead of the FIN; sometimes a FIN behind it (ignored:
            # the stream is in "Reset Recvd")
            D = self.chunks(sid, wire, rng) + ["r%d:%d" % (sid, rng.choice(CODES))] + (["f%d" % sid] if rng.random() < 0.3 else [])
        elif kind == "resetfin":
            # RESET behind the FIN of a complete message (SimQuic: never looked at, the receive side has ended)
            D = self.chunks(sid, wire, rng) + ["f%d" % sid, "r%d:%d" % (sid, rng.choice(CODES))]
        else:
            D = self.chunks(sid, wire, rng) + ["f%d" % sid]
        R = ["q%d.%s" % (sid, "res" if server else "rr")] + (["q%d.rm" % sid] if rng.random() < 0.6 else ["q%d.rb" % sid, "q%d.rt" % sid])
        S = []
        if server:
            S.append("q%d.sr:%d:-" % (sid, rng.choice(sorted(STATUSES))))
        for _ in range(rng.choice([0, 1, 1, 2, 3])):
            S.append("q%d.sd:%s" % (sid, bytes(rng.getrandbits(8) for _ in range(rng.choice([0, 1, 4, 40, 90]))).hex() or "-"))
        if rng.random() < 0.4:
            S.append("q%d.st:%s" % (sid, rng.choice(TRAILERS_TX)))
        S.append("q%d.fi" % sid)
        X = ["x%d:%d" % (sid, rng.choice(CODES))] if kind in ("stop", "oversizedstop") else []
        G = ["gw%d:%d" % (sid, rng.choice([1, 3, 7, 20])) for _ in range(rng.choice([0, 1, 2, 4]))] if wc else []
        # where the calls stand relative to the deliveries and to the fault: all before, all after, anywhere
        mode = rng.choice(["early", "late", "mixed", "mixed"])
        if mode == "early":
            base = R + D
        elif mode == "late":
            base = D + R
        else:
            base = self.merge(rng, [D, R])
        if kind == "oversizedstop" and rng.random() < 0.7:
            # the STOP_SENDING is there before the 431 answer can be written: in front of the delivery that completes
            # the HEADERS frame or of the head call, whichever comes last (else: merged in anywhere)
            got, hidx = 0, len(base)
            for i, o in enumerate(base):
                if o.startswith("s%d:" % sid):
                    got += len(o.split(":")[1]) // 2
                    if got >= hdr_end:
                        hidx = i
                        break
            at = rng.randrange(0, max(hidx, base.index(R[0])) + 1)
            base = base[:at] + X + base[at:]
            X = []
        ops = self.merge(rng, [base, S, X, G])
        if server:
            # the request task understands send commands only once `res` has been posted
            head = R[0]
            first_s = min(ops.index(o) for o in S)
            if ops.index(head) > first_s:
                ops.remove(head)
                ops.insert(first_s, head)
        return opener + ops

    def one_case(self, rng, role):
        server = role == "server"
        k = rng.choice([2, 2, 3, 4])
        use_over = rng.random() < 0.3
        mfs = 400
        kinds = ["none", "reset", "reset", "resetend", "resetfin", "stop", "malformed", "malformed", "finfirst", "badtrailers"] + \
                (["oversized", "bigtrailers"] + (["oversizedstop", "oversizedstop"] if server else []) if use_over else [])
        chosen = [rng.choice(kinds) for _ in range(k)]
        if all(c != "none" for c in chosen):
            chosen[rng.randrange(k)] = "none"
        # a RESET behind the FIN is no fault over SimQuic: such a request counts as healthy here; one "none" stays
        if all(c in ("none", "resetfin") for c in chosen):
            keep = chosen.index("none")
            chosen[rng.choice([i for i in range(k) if i != keep])] = rng.choice([x for x in kinds[1:] if x != "resetfin"])
        # write back-pressure; also with oversized requests on a server: the ten bytes of the 431 answer are the first
        # write of their stream and fit the initial credit, the neighbours' writes wait for theirs
        wc = rng.choice([32, 48, 64]) if rng.random() < 0.33 else 0
        cfg = "g0,seed=%d,rxhalt=1" % rng.randrange(1, 10000) + (",mfs=%d" % mfs if use_over else "") + (",wc=%d" % wc if wc else "")
        pre = ["conn.AL", "o2", "s2:000400"] if server else ["drv.W", "o3", "s3:000400"]
        plans = [self.stream_plan(rng, server, 4 * i, chosen[i], mfs, wc) for i in range(k)]
        merged = list(pre)
        if not server:
            # requests are created first, in order (stream ids follow creation order), each with its own method
            for i in range(k):
                merged.append("snd.R:%s:%s:-" % (rng.choice(sorted(METHODS)), URI))
        merged += self.merge(rng, plans)
        # client: a request started AFTER the faults have been reported must be as healthy as any other
        if not server and rng.random() < 0.6:
            merged.append("snd.R:%s:%s:-" % (rng.choice(sorted(METHODS)), URI))
            merged += self.stream_plan(rng, server, 4 * k, "none", mfs, wc)
            k += 1
        if wc:
            merged += ["gw%d:100000" % (4 * i) for i in range(k)]
        return "iso %s %s %s" % (role, cfg, " ".join(merged))

    # what the generator produced on its last run (class of each malformed section, kind of each request)
    gen_stats = collections.Counter()

    def cases(self, tier, rng):
        self.gen_stats.clear()
        big = tier == "thorough"
        n = 4000 if big else 800
        return [self.one_case(rng, "server") for _ in range(n)] + [self.one_case(rng, "client") for _ in range(n)]

    def shrink_candidates(self, line):
        w = line.split()
        ops = w[3:]
        out = []
        server = w[1] == "server"

        def sid_of(o):
            m = re.match(r"^(?:q|s|f|r|x|o|gw)(\d+)(?:[.:]|$)", o)
            return int(m.group(1)) if m else None
        sids = sorted({sid_of(o) for o in ops if sid_of(o) is not None and sid_of(o) % 4 == 0})
        # a whole request at once (client: only the last one, the stream ids follow the creation order)
        for sid in (sids if server else sids[-1:]):
            rest = [o for o in ops if sid_of(o) != sid]
            if not server:
                idx = [i for i, o in enumerate(rest) if o.startswith("snd.R")]
                if len(idx) == len(sids):
                    del rest[idx[-1]]
            out.append(" ".join(w[:3] + rest))
        for i in range(len(ops)):
            if ops[i] in ("conn.AL", "drv.W", "o2", "o3", "s2:000400", "s3:000400") or ops[i].startswith("snd.R") or re.match(r"^o\d+$", ops[i]):
                continue
            out.append(" ".join(w[:3] + ops[:i] + ops[i + 1:]))
        # two adjacent deliveries of one stream into one
        for i in range(len(ops) - 1):
            a, b = re.match(r"^s(\d+):([0-9a-f]+)$", ops[i]), re.match(r"^s(\d+):([0-9a-f]+)$", ops[i + 1])
            if a and b and a.group(1) == b.group(1):
                out.append(" ".join(w[:3] + ops[:i] + ["s%s:%s%s" % (a.group(1), a.group(2), b.group(2))] + ops[i + 2:]))
        return out


PROP = C07()
