import re

from vlib import Prop
from props.c16 import hx
from props.c02 import varint

GOOD_REQ = "010d0000d1d750831af1ff518263cf"
GOOD_RESP = "01030000d9"
# valid QPACK, malformed message: a literal field with an upper-case name "X-A"
BAD_HEAD = "0108000023582d410176"
URI = "68747470733a2f2f612e622f78"


def oversized_head(good_fields_hex, n=70):
    """the good head plus a literal field x=<n bytes>: size 42/… + n + 33"""
    sec = bytes.fromhex(good_fields_hex) + bytes([0x21, 0x78, n]) + b"v" * n
    return hx([0x01] + varint(len(sec)) + list(sec))


# reset / stop codes: small numbers, every defined HTTP/3 error code (0x100 H3_NO_ERROR … 0x110), the QPACK codes, the largest varint
CODES = [0, 7, 9] + list(range(0x100, 0x111)) + [0x200, 0x201, 0x202, 2**62 - 1]


class C07(Prop):
    id = "C07"
    thorough_rounds = 12   # thorough tier: this many independently seeded rounds of the random generators (duplicates dropped)
    modules = ["H3.Props.C07", "H3.Lemmas.GenAgreeReq", "H3.Lemmas.GenAgreeFrame", "H3.Lemmas.Iso", "H3.Lemmas.IsoLift",
               "H3.Lemmas.IsoPolledFS", "H3.Lemmas.IsoPolledReq", "H3.Lemmas.IsoPolled"]
    engines = ["iso"]
    design_ref = "DESIGN.md section 7, C07"
    level_text = ("Lean theorems over the product machine H3.Iso (any number of request machines = the C03 receive machine over the "
                  "FrameStream model + a send half, sharing one error cell; the driver closes when it finds the cell filled; histories "
                  "= arbitrary lists of per-stream peer events, per-stream API polls and driver polls, unbounded): "
                  "C07_stream_fault_is_local (every stream-scoped fault transition - RESET with any code met at any point of the byte "
                  "stream by resolve/recv_response/recv_data/recv_trailers/the body loop, STOP_SENDING met by a send call, malformed "
                  "head or trailers, oversized head (431 written/refused/stopped) or trailers, FIN before HEADERS on a server - "
                  "answers RemoteTerminate{c} / H3_MESSAGE_ERROR / header-too-big / H3_REQUEST_INCOMPLETE, leaves the cell unchanged, "
                  "never calls close, touches no other stream), C07_fault_reaction (the reset/stop codes h3 sends, the 431 on that "
                  "stream only), C07_only_connection_errors_write_cell, C07_neighbours_unaffected (in every history in which no stream "
                  "is told a connection-level error, what any stream sees = the run of its own events alone = the run without the "
                  "faulted streams = the run with other faults), C07_interleaving_irrelevant + C07_adjacent_swap (same per-stream "
                  "event order => same per-stream view, cell, close calls), C07_connection_stays_open (cell empty and no close call "
                  "after every prefix), C07_healthy_stream_delivers (composition with the closed lifting of C03 - lift_exists / "
                  "liftR_sim, no frame-layer hypothesis: a stream whose own transport events are ANY cutting into non-empty chunks of "
                  "the bytes of a valid message - valid = the C02 reference automaton reads HEADERS h, DATA payloads ds, HEADERS t iff "
                  "trailers, and ends on a frame boundary - followed by FIN, then head and body polls: head, body = its own DATA "
                  "payloads in order, end, trailers iff present, nothing reset, connection open, under every interleaving with the other "
                  "streams, their faults and the driver), C07_healthy_stream_delivers_polled (the same with the stream's own polls "
                  "interleaved with its own deliveries in ANY way: every call of the documented pattern polled again while it answers "
                  "Pending, more bytes arriving between any two polls, the last poll after FIN; stated on the digest = answers with "
                  "Pending left out; proof = invariant over every schedule, C02's pollNext_preserves / pollData_spec per frame-layer "
                  "call), C07_healthy_stream_prefix_polled (at every earlier point: nothing, or the head and a PREFIX of its own DATA "
                  "payloads; end only with all of them; never an error), C07_healthy_stream_schedule_irrelevant (two cuttings, two "
                  "schedules, two histories: same head, body bytes, trailers), C07_healthy_stream_polled_as_delivered_first (its instance: "
                  "polled again after every Pending = everything delivered first; follows_delivered_first); "
                  "C07_healthy_stream_delivers_partial kept for the record "
                  "(conditional on FrameSim, superseded)")
    level_note = ("remaining hypotheses of the healthy-stream theorems (all decidable statements about the stream's own bytes or the "
                  "oracle): chunks non-empty, no DATA frame of usize::MAX bytes, the header oracle accepts the head block and the "
                  "trailer block within the limit, the loop bound of a body poll exceeds the number of frame-layer tokens; the "
                  "application follows the documented pattern (follows, decidable) and makes no send calls in between (send half "
                  "is independent of the receive half in the model). "
                  "trusted: Lean kernel + 3 axioms; the request machine, FrameStream and error-cell models (tied by the C02/C03/C05 runs) "
                  "and the product H3.Iso, whose prediction for every scenario line is compared with the real h3 endpoint by this run "
                  "(model half of the driver = H3.Iso run on the line); header validity/size is an oracle parameter (C10/C11/C12); "
                  "granularity = one poll of one task or one transport event, write credit unlimited (C14), grease frame off; real "
                  "scheduling and timing are not modelled. SimQuic scenario runs with 2..4 concurrent requests, any subset faulted, "
                  "random interleavings and executor orders")
    rule = ("2..4 concurrent requests on one connection, both roles; each healthy (own random body in random chunks) or "
            "faulted by RESET with an arbitrary code at a random byte offset, STOP_SENDING, a validly encoded malformed head, an "
            "oversized section, or FIN before HEADERS; ops of different streams interleaved at random, executor order seeds; "
            "non-trivial = at least one healthy and one faulted stream in the scenario")
    trusted = ["the decision tables of the request receive path (H3.Gen.ReqArms, FirstFrame, FrameErrCodes, FrameDispatch) are re-read from the sources on this run and the request machine of H3.Iso is proved to follow them (H3.Lemmas.GenAgreeReq/GenAgreeFrame, rebuilt on this run)"]
    assumptions = ["a RESET may discard data the application had not read yet (QUIC); only the error kind is compared on a faulted stream",
                   "FIN before HEADERS is stream-scoped on a server only (a client treats it as an invalid frame sequence, R-03)"]

    def project(self, line, impl):
        if " | " not in impl:
            return impl
        trace, summ = impl.split(" | ", 1)
        role = line.split()[1]
        per = {}
        driver = "ok"
        for t in trace.split():
            m = re.match(r"^q(\d+)s?\.(\w+)=(.*)$", t)
            if m:
                per.setdefault(int(m.group(1)), []).append((m.group(2), m.group(3)))
                continue
            m = re.match(r"^(conn\.A|drv\.W)=(.*)$", t)
            if m and m.group(2).startswith("err"):
                driver = m.group(2)
        tx = {}
        for m in re.finditer(r"(\d+):tx=([0-9a-f-]+)((?:,\w+(?:=\d+)?)*)", summ):
            tx[int(m.group(1))] = (m.group(2), m.group(3))
        # which streams does the LINE fault? (the projection must not depend on the outcome)
        ops = line.split()[3:]
        faulted = set()
        rx = {}
        for op in ops:
            m = re.match(r"^[rx](\d+):", op)
            if m:
                faulted.add(int(m.group(1)))
            m = re.match(r"^s(\d+):([0-9a-f]+)$", op)
            if m:
                rx.setdefault(int(m.group(1)), "")
                rx[int(m.group(1))] += m.group(2)
            m = re.match(r"^f(\d+)$", op)
            if m and int(m.group(1)) % 4 == 0 and int(m.group(1)) not in rx:
                faulted.add(int(m.group(1)))
        good = GOOD_REQ if role == "server" else GOOD_RESP
        sids = sorted({s for s in list(per) + list(rx) if s % 4 == 0})
        over = "014056" if role == "server" else "014084"
        for sid in sids:
            if sid in rx and (rx[sid].startswith(BAD_HEAD) or rx[sid].startswith(over)):
                faulted.add(sid)
        out = []
        for sid in sids:
            res = per.get(sid, [])
            if sid in faulted:
                errs, conn = set(), 0
                for op, r in res:
                    if r.startswith("err:conn") or ":err:conn" in r:
                        conn = 1
                    m = re.search(r"err:(rterm:\d+|stream:\w+|toobig|rclosing|undefined)", r)
                    if m and "err:conn" not in r:
                        errs.add(m.group(1))
                out.append("q%d:fault:[%s]:conn=%d" % (sid, ",".join(sorted(errs)), conn))
                # what h3 itself put on the faulted stream (bytes, FIN, RESET_STREAM / STOP_SENDING codes): compared with
                # the model only (the specification has no opinion: `*`)
                t, flags = tx.get(sid, ("-", ""))
                out.append("q%d:wire:tx=%s%s" % (sid, t, "".join("," + f for f in flags.split(",") if f and f != "writing")))
            else:
                head = [("%s=%s" % (op, "ok" if r.startswith("ok") else r)) for op, r in res if op in ("res", "rr")]
                rm = ["rm=%s" % r for op, r in res if op == "rm"]
                others = ["%s=%s" % (op, r) for op, r in res if op not in ("res", "rr", "rm")]
                t, flags = tx.get(sid, ("-", ""))
                fin = ",fin" if ",fin" in flags else ""
                extra = "".join(f for f in flags.split(",") if f and f != "fin" and f != "writing")
                out.append("q%d:%s;tx=%s%s%s" % (sid, ",".join(head + rm + others), t, fin, ("," + extra) if extra else ""))
        m = re.search(r"closed=\[([^\]]*)\]", summ)
        out.append("closed=[%s]" % (m.group(1) if m else "?"))
        out.append("driver=%s" % driver)
        return " ".join(out)

    def klass_raw(self, line, raw):
        ops = line.split()[3:]
        kinds = []
        if any(re.match(r"^r\d+:", o) for o in ops):
            kinds.append("reset")
        if any(re.match(r"^x\d+:", o) for o in ops):
            kinds.append("stop")
        if BAD_HEAD in line:
            kinds.append("malformed")
        if "mfs=" in line.split()[2]:
            kinds.append("oversized")
        n = len({m.group(1) for o in ops for m in [re.match(r"^o(\d+)$", o)] if m and int(m.group(1)) % 4 == 0}) or len(re.findall(r"snd\.R", line))
        return "%s streams=%d faults=%s closed=%s" % (line.split()[1], n, "+".join(kinds) or "none", re.search(r"closed=\[[^\]]*\]", raw).group(0) if "closed=" in raw else "?")

    def trivial_raw(self, line, raw):
        return "fault" not in self.project(line, raw) or ";tx=" not in self.project(line, raw)

    def chunks(self, sid, hexs, rng):
        b = bytes.fromhex(hexs)
        out, i = [], 0
        while i < len(b):
            k = rng.choice([1, 2, 3, 7, 20, len(b)])
            out.append("s%d:%s" % (sid, b[i:i + k].hex()))
            i += k
        return out

    def one_case(self, rng, role):
        server = role == "server"
        k = rng.choice([2, 2, 3, 4])
        use_over = rng.random() < 0.3
        cfg = "g0,seed=%d" % rng.randrange(1, 10000) + (",mfs=200" if use_over else "")
        good = GOOD_REQ if server else GOOD_RESP
        kinds = ["none", "reset", "stop", "malformed", "finfirst"] + (["oversized"] if use_over else [])
        plans = []
        pre = ["conn.AL", "o2", "s2:000400"] if server else ["drv.W", "o3", "s3:000400"]
        chosen = [rng.choice(kinds) for _ in range(k)]
        if all(c != "none" for c in chosen):
            chosen[rng.randrange(k)] = "none"
        if all(c == "none" for c in chosen):
            chosen[rng.randrange(k)] = rng.choice(kinds[1:])
        for i in range(k):
            sid = 4 * i
            kind = chosen[i]
            ops = []
            body = [rng.getrandbits(8) for _ in range(rng.choice([0, 1, 5, 30]))]
            frames = ""
            pos = 0
            while pos < len(body) or (pos == 0 and rng.random() < 0.5):
                n = min(rng.choice([0, 1, 3, len(body) - pos]), len(body) - pos) if pos < len(body) else 0
                frames += hx([0x00] + varint(n) + body[pos:pos + n])
                pos += n
                if n == 0 and pos >= len(body):
                    break
            head = good
            if kind == "malformed":
                head = BAD_HEAD
            if kind == "oversized":
                head = oversized_head(good[4:], 70 if server else 126)
            wire = head + frames
            opener = ["o%d" % sid] if server else []
            recv_head = "q%d.res" % sid if server else "q%d.rr" % sid
            reply = bytes(rng.getrandbits(8) for _ in range(rng.choice([0, 1, 4, 40]))).hex() or "-"
            if server:
                send = ["q%d.sr:200" % sid, "q%d.sd:%s" % (sid, reply), "q%d.fi" % sid]
            else:
                send = ["q%d.sd:%s" % (sid, reply), "q%d.fi" % sid]
            if kind == "finfirst":
                ops = opener + ["f%d" % sid, recv_head]
            elif kind == "reset":
                cut = rng.randrange(0, len(wire) // 2 + 1) * 2
                code = rng.choice(CODES)
                ops = opener + (self.chunks(sid, wire[:cut], rng) if cut else []) + [recv_head, "q%d.rm" % sid, "r%d:%d" % (sid, code)] + send
            elif kind == "stop":
                code = rng.choice(CODES)
                ops = opener + ["x%d:%d" % (sid, code)] + self.chunks(sid, wire, rng) + ["f%d" % sid, recv_head, "q%d.rm" % sid] + send
            else:
                ops = opener + self.chunks(sid, wire, rng) + ["f%d" % sid, recv_head, "q%d.rm" % sid] + send
                # app may send before it receives
                if rng.random() < 0.3 and kind == "none" and not server:
                    ops = opener + send + self.chunks(sid, wire, rng) + ["f%d" % sid, recv_head, "q%d.rm" % sid]
            plans.append(ops)
        # client: requests are created first, in order (stream ids follow creation order)
        merged = list(pre)
        if not server:
            for i in range(k):
                merged.append("snd.R:GET:%s:-" % URI)
        seqs = [list(p) for p in plans]
        while any(seqs):
            s = rng.choice([q for q in seqs if q])
            merged.append(s.pop(0))
        # client: a request started AFTER the faults have been reported must be as healthy as any other
        if not server and rng.random() < 0.6:
            sid = 4 * k
            body = [rng.getrandbits(8) for _ in range(rng.choice([0, 3, 17]))]
            wire = good + (hx([0x00] + varint(len(body)) + body) if body else "")
            merged += ["snd.R:GET:%s:-" % URI] + self.chunks(sid, wire, rng) + ["f%d" % sid, "q%d.rr" % sid, "q%d.rm" % sid, "q%d.fi" % sid]
        return "iso %s %s %s" % (role, cfg, " ".join(merged))

    def cases(self, tier, rng):
        big = tier == "thorough"
        n = 4000 if big else 800
        return [self.one_case(rng, "server") for _ in range(n)] + [self.one_case(rng, "client") for _ in range(n)]

    def shrink_candidates(self, line):
        w = line.split()
        ops = w[3:]
        out = []
        for i in range(len(ops)):
            if ops[i] in ("conn.AL", "drv.W", "o2", "o3", "s2:000400", "s3:000400"):
                continue
            out.append(" ".join(w[:3] + ops[:i] + ops[i + 1:]))
        return out


PROP = C07()
