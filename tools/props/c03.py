import itertools
import os
import re

from vlib import Prop, LEAN

# ---------------------------------------------------------------- wire material
# header blocks obtained from the real encoder (`conn client … snd.R:GET:https://a.b/x`, stream 0 tx;
# `conn server … q0.sr:200 q0.st:x=79`, stream 0 tx)
BLK_REQUEST = "0000d1d750831af1ff518263cf"
BLK_RESPONSE = "0000d9"
BLK_TRAILER = "000029f381f5"
BLK_METHOD_ONLY = "0000d1"      # QPACK-decodes, not a well-formed message head
BLK_BAD_QPACK = "ffff"          # does not QPACK-decode
URI = "68747470733a2f2f612e622f78"

SETUP = {
    "server": "req server %s o2 s2:000400 o0 conn.AL",
    "client": "req client %s o3 s3:000400 drv.W snd.R:GET:" + URI + ":-",
}
CALLS = {"server": "q0.res! q0.rda! q0.rt", "client": "q0.rr! q0.rda! q0.rt"}

LETTERS = ["H", "D0", "Dn", "U0", "Un", "CP", "ST", "GA", "MP", "PP", "H2"]
# letters after which a request stream is never read again (in either role)
STOPPERS = {"CP", "ST", "GA", "MP", "PP", "H2"}
H2_TYPES = ["0200", "0600", "080100", "0900"]


def hdr_frame(block):
    return "01%02x%s" % (len(block) // 2, block)


def frame_hex(letter, pos, role, seen_head):
    """wire bytes of one letter at position `pos`; DATA payloads differ per position so that
    order, loss and duplication show in the body"""
    if letter == "H":
        if not seen_head:
            return hdr_frame(BLK_REQUEST if role == "server" else BLK_RESPONSE)
        return hdr_frame(BLK_TRAILER)
    if letter == "D0":
        return "0000"
    if letter == "Dn":
        n = 1 + pos % 3
        return "00%02x" % n + "".join("%02x" % (0xa0 + 16 * (pos % 6) + j) for j in range(n))
    if letter == "U0":
        return "2100"
    if letter == "Un":
        # grease type 0x21 + 0x1f, two-byte varint; the payload looks like a frame
        return "4040" + ["020100", "03000000", "0107"][pos % 3]
    if letter == "CP":
        return "030100"
    if letter == "ST":
        return "0400" if pos % 2 else "0403064040"   # empty / MAX_FIELD_SECTION_SIZE = 64
    if letter == "GA":
        return "070100"
    if letter == "MP":
        return "0d0101"
    if letter == "PP":
        return "05020000"
    if letter == "H2":
        return H2_TYPES[pos % 4]
    raise ValueError(letter)


def frames_of(seq, role):
    out, seen = [], False
    for i, l in enumerate(seq):
        out.append(frame_hex(l, i, role, seen))
        if l == "H":
            seen = True
    return out


def chunk_ops(parts):
    return " ".join("s0:" + p for p in parts if p)


def by_bytes(h):
    return [h[i:i + 2] for i in range(0, len(h), 2)]


def random_cut(h, rng):
    bs = by_bytes(h)
    parts, cur = [], ""
    p = rng.choice([0.15, 0.4, 0.7])
    for b in bs:
        cur += b
        if rng.random() < p:
            parts.append(cur)
            cur = ""
    if cur:
        parts.append(cur)
    return parts


WT_FRAME = "404100"             # frame type 0x41 (two-byte varint), session id 0  (R-03b)


def wt_cases(rng, big):
    """frame type 0x41 (WEBTRANSPORT_STREAM) on a stream read through the request API: as first frame,
    in body position, after the trailers; WebTransport enabled in the configuration or not; both
    roles; every ending; whole / per frame / per byte (cuts the 0x41 header) / random; and the header
    cut short (type without session id)"""
    out = []
    prefixes = [[], ["U0"], ["H"], ["H", "Dn"], ["H", "D0", "Un"], ["H", "H"], ["H", "Dn", "H"], ["H", "Dn", "H", "U0"]]
    suffixes = [[], ["Dn"], ["H"], ["U0"]]
    k = 0
    for role in ("server", "client"):
        for pre in prefixes:
            fr_pre = frames_of(pre, role)
            for wt in (WT_FRAME, "404104", "4041", "40417fff"):   # complete (ids 0, 4), type only, id cut short
                for suf in (suffixes if wt in (WT_FRAME, "404104") else [[]]):
                    seen = "H" in pre
                    fr_suf = [frame_hex(l, len(pre) + 1 + i, role, seen) for i, l in enumerate(suf)]
                    fr = fr_pre + [wt] + fr_suf
                    for cfg in ("g0", "g0,wt=1", "g0,wt=0", "g1,wt=1"):
                        for ending in ("f0", "r0:%d" % (300 + k % 7), ""):
                            k += 1
                            for m in (["whole", "frame", "byte", "random"] if big or cfg != "g1,wt=1" else ["random"]):
                                out.append(line(role, fr, ending, m, rng, cfg=cfg))
                            out.append(line(role, fr, ending or "f0", "random", rng, cfg=cfg, late_end=True))
    return out


def split_cases(rng, big):
    """`RequestStream::split` in the middle of reading: part of the body is read on the whole stream
    (`q0.rd!`, one piece per call), the stream is split (`q0.sp`, the task keeps the receive half),
    the rest is read on the receive half — at EVERY position of a DATA frame whose payload arrives in
    several chunks (after 0 … all of its pieces), between two DATA frames, and between the end of the
    body and the trailers (`q0.rda! q0.sp q0.rt`).  The single `rd!` calls never reach the end of the
    body (there are at least as many pieces as calls), so the outcome must be the documented one."""
    out = []
    payloads = ["a1a2a3", "b1b2b3b4b5", "0000", "000000000000", "0100", "21002100", "0001ff", "01030000d9"]
    for role in ("server", "client"):
        head = hdr_frame(BLK_REQUEST if role == "server" else BLK_RESPONSE)
        hname = "res" if role == "server" else "rr"
        for pay in payloads:
            n = len(pay) // 2
            data_hdr = "00%02x" % n
            cuts_list = [[1] * n]                       # one byte per chunk
            if n >= 4:
                cuts_list.append([2] * (n // 2) + ([n % 2] if n % 2 else []))
                cuts_list.append([1, n - 2, 1])
            for cut in cuts_list:
                pieces, o = [], 0
                for c in cut:
                    pieces.append(pay[2 * o:2 * (o + c)])
                    o += c
                for before in ("", "2100", "0000"):
                    for after, trailers in (("", False), ("0002c1c2", False), ("", True), ("00000001c3404001ee", True)):
                        tail = after + (hdr_frame(BLK_TRAILER) if trailers else "")
                        for ending in ("f0", "", "r0:77"):
                            for k in range(0, len(pieces) + 1):      # pieces read before the split
                                for style in ("lockstep", "upfront", "posted"):
                                    if not big and rng.random() < 0.5:
                                        continue
                                    ops = [SETUP[role] % "g0", "#pieces"]
                                    first = head + before + data_hdr + pieces[0]
                                    rest = pieces[1:]
                                    if style == "upfront":
                                        ops.append("s0:" + first)
                                        ops += ["s0:" + p for p in rest]
                                        if tail:
                                            ops.append("s0:" + tail)
                                        ops.append("q0.%s!" % hname)
                                        ops += ["q0.rd!"] * k
                                        ops.append("q0.sp")
                                    elif style == "lockstep":
                                        ops += ["s0:" + first, "q0.%s!" % hname]
                                        if k >= 1:
                                            ops.append("q0.rd!")
                                        for j, p in enumerate(rest):
                                            if j + 2 <= k:
                                                ops += ["s0:" + p, "q0.rd!"]
                                        ops.append("q0.sp")
                                        ops += ["s0:" + p for j, p in enumerate(rest) if j + 2 > k]
                                        if tail:
                                            ops.append("s0:" + tail)
                                    else:   # the calls (and the split) are posted before the bytes arrive
                                        ops.append("q0.%s!" % hname if role == "client" else "s0:" + first[:4])
                                        if role == "server":
                                            ops.append("q0.%s!" % hname)
                                            ops.append("s0:" + first[4:])
                                        else:
                                            ops.append("s0:" + first)
                                        if k == 0:
                                            ops.append("q0.sp")
                                        for j, p in enumerate(rest):
                                            if j + 1 == k:
                                                ops += ["q0.rd!"] * k + ["q0.sp"]
                                            ops.append("s0:" + p)
                                        if k == len(pieces) and k >= 1:
                                            ops += ["q0.rd!"] * k + ["q0.sp"]
                                        if tail:
                                            ops.append("s0:" + tail)
                                    late = rng.random() < 0.3
                                    if ending and not late:
                                        ops.append(ending)
                                    ops += ["q0.rda!", "q0.rt"]
                                    if ending and late:
                                        ops.append(ending)
                                    out.append(" ".join(ops))
        # between the end of the body and the trailers (and other places of the documented pattern)
        bodies = ["", "0000", "0003aabbcc", "0001aa21000002bbcc", "404003beef010002a1a2"]
        for body in bodies:
            for trailers in (True, False):
                for post in ("", "2100", "0001ff"):
                    msg = [head, body, hdr_frame(BLK_TRAILER) if trailers else "", post]
                    for ending in ("f0", "", "r0:78"):
                        for m in ("whole", "frame", "byte", "random"):
                            for pat in (["q0.%s!" % hname, "q0.rda!", "q0.sp", "q0.rt"],
                                        ["q0.%s!" % hname, "q0.sp", "q0.rda!", "q0.rt"],
                                        ["q0.%s!" % hname, "q0.sp", "q0.rda!", "q0.sp", "q0.rt"]):
                                out.append(line(role, [f for f in msg if f], ending, m, rng, calls=" ".join(pat)))
                                out.append(line(role, [f for f in msg if f], ending or "f0", m, rng, calls=" ".join(pat), late_end=True))
    return out


def line(role, frames, ending, chunking, rng=None, cfg="g0", calls=None, late_end=False):
    whole = "".join(frames)
    if chunking == "whole":
        parts = [whole]
    elif chunking == "frame":
        parts = frames
    elif chunking == "byte":
        parts = by_bytes(whole)
    else:
        parts = random_cut(whole, rng)
    ops = [SETUP[role] % cfg]
    c = chunk_ops(parts)
    if c:
        ops.append(c)
    if ending and not late_end:
        ops.append(ending)
    ops.append(calls or CALLS[role])
    if ending and late_end:
        ops.append(ending)
    return " ".join(ops)


def _codes():
    t = {}
    try:
        src = open(os.path.join(LEAN, "H3", "Gen", "Consts.lean")).read()
        for m in re.finditer(r"def CODE_(\w+) : Nat := (\d+)", src):
            t[m.group(1)] = m.group(2)
    except OSError:
        pass
    return t


class C03(Prop):
    id = "C03"
    modules = ["H3.Props.C03", "H3.Lemmas.GenAgreeReq", "H3.Lemmas.GenAgreeFrame"]
    engines = ["req"]
    design_ref = "DESIGN.md section 7, C03"
    level_text = ("Lean theorems over a model of the receive side of a request stream (RequestStream::{poll_recv_data,"
                  "poll_recv_trailers}, server resolve_request/accept_with_frame, client recv_response, the error mapping) "
                  "written once against the frame-layer interface: for every frame sequence of any length, every ending "
                  "(FIN, FIN inside a frame, RESET, still open) and the documented call pattern the model's observable outcome "
                  "is the one the RFC 9114 §4.1 recogniser U* H (U|D)* (H U*)? prescribes (body = DATA payloads in order, each "
                  "byte once; end of body only at trailers/FIN; trailers iff present; every other sequence H3_FRAME_UNEXPECTED; "
                  "server FIN-before-HEADERS = stream refused with H3_REQUEST_INCOMPLETE, error cell untouched); lifted "
                  "unconditionally to the FrameStream model over EVERY transport script (any chunking, Pending anywhere, "
                  "FIN/RESET/open) by a simulation proved from the C02 invariant (C03_lifted_to_chunks_closed); for FIN on a "
                  "frame boundary and for still-open streams the outcome is a function of the wire bytes alone "
                  "(C03_chunked_outcome_fin/_open); the header hypothesis is POSITIONAL (HdrsOk: first HEADERS block an acceptable head, "
                  "second an acceptable trailer section — satisfiable by a faithful oracle; non-vacuity with the driver's own oracle, "
                  "messages with trailers); RE-POLLING: with every call polled again while it answers Pending, for every frame sequence "
                  "(valid or not), every ending, every cutting and every schedule (pend events anywhere in the transport script) the "
                  "trace is that of the frame-level model on a frame sequence tied to the bytes (C03_polled_lifted_closed), and for FIN "
                  "(on a boundary or inside a frame header / non-DATA payload) and still-open streams the outcome is the recogniser's "
                  "verdict on the bytes alone (C03_polled_outcome_fin/_open); split() anywhere leaves the digest unchanged "
                  "(C03_split_preserves_outcome)")
    level_note = ("trusted: Lean kernel + 3 standard axioms; hand model tied to the code by running real h3::server / h3::client "
                  "objects over SimQuic on the same scenario lines as the composed Lean model (request layer over the FrameStream "
                  "model); QPACK/header validation is an oracle on the five header blocks the generator uses (C11/C12); the "
                  "connection driver is modelled as 'an active accept loop / wait_idle closes with the code in the cell' (C05); "
                  "C03_lifted_to_chunks_closed / C03_polled_lifted_closed have no simulation hypothesis left (side conditions: non-empty chunks, "
                  "no 0x41 frame header in the bytes — that case is specified (R-03b) and compared on the real code, not covered by the chunk-level "
                  "theorems —, header blocks acceptable to the header oracle in their positions); a schedule is a transport script with pend events "
                  "(a pend = a poll that finds nothing new, C03_pend_is_empty_poll); for FIN inside a DATA payload and for RESET the number of payload "
                  "bytes handed out before the error depends on the schedule, so there the claim is the prefix version (TiedS)")
    rule = ("cases: `req` scenario lines; every sequence of length <= 5 (thorough: plus every length-6 sequence whose first five "
            "letters do not already end the reading) over the 11-letter alphabet {HEADERS, DATA(0), DATA(n), unknown(0), "
            "unknown(n), CANCEL_PUSH, SETTINGS, GOAWAY, MAX_PUSH_ID, PUSH_PROMISE, H2-reserved} x endings {FIN, RESET, open} x "
            "{server, client}, documented call pattern (head, recv_data until end, recv_trailers; stop at an error); chunking "
            "rotates whole/per frame/per byte/random in quick, all four in thorough for length <= 4; plus truncations at every "
            "offset, malformed/bad-SETTINGS/bad-header frames, endings and chunks arriving between the calls, raw recv_data "
            "call sequences incl. calls after the end (with split() inserted anywhere in a third of them); frame type 0x41 (WEBTRANSPORT_STREAM) "
            "as first frame / in body position / after the trailers, complete or cut short, wt=0 and wt=1, both roles, every ending, four "
            "chunkings; split(): part of the body read on the whole stream (one piece per recv_data), split at EVERY position of a DATA "
            "frame whose payload arrives in several chunks (payloads that look like frames / are all zero included), between two DATA "
            "frames, between the end of the body and the trailers, calls posted before or after the bytes; non-trivial = at least one API "
            "call of the stream completed")
    trusted = ["SimQuic + scripted executor (harness/src/sim.rs, exec.rs, scen.rs)",
               "http / qpack decoding of the five fixed header blocks (oracle in lean/H3/Drv/C03.lean)",
               "translator decision tables H3.Gen.ReqArms (arms of RequestStream::poll_recv_data / poll_recv_trailers per variant of enum Frame, incl. the catch-all arms), H3.Gen.FirstFrame (server accept_with_frame, client recv_response) and H3.Gen.FrameErrCodes (got_frame_error, handle_frame_stream_error_on_request_stream), re-read from h3/src/connection.rs, h3/src/server/request.rs, h3/src/client/stream.rs, h3/src/error/*.rs on this run (any other shape is refused); tied to the model by H3.Lemmas.GenAgreeReq (pollRecvData_frame, trailersFirst_frame, trailersCheck_frame, pollHead_frame and their _fin/_err/_pending companions: on every answer of the frame layer the model step does what the generated arm says), rebuilt on this run"]
    assumptions = ["documented call pattern: resolve_request/recv_response, recv_data until None, recv_trailers; no call after an error",
                   "the FIRST HEADERS block of a stream decodes to a well-formed message head, the SECOND to a well-formed trailer section (C11/C12 decide that; nothing is assumed about a block in the other position)",
                   "for RESET the frames delivered before the reset is noticed are a prefix of the frames sent (C02, App. B.1)",
                   "C03_lifted_to_chunks: the frame layer simulates the token source (hypothesis `Sim`, the C02 facts)",
                   "client-side FIN before HEADERS and PUSH_PROMISE to a client are not fixed by the property text (R-03): the oracle lists the alternatives the RFC allows (a failing call: H3_FRAME_UNEXPECTED or a stream-level error; H3_FRAME_UNEXPECTED or H3_ID_ERROR), never 'anything'",
                   "frame type 0x41 on a stream read through the request API is a defined frame out of place (R-03b): H3_FRAME_UNEXPECTED or H3_FRAME_ERROR, never skipped",
                   "re-polling theorems: a schedule of deliveries and polls is a transport script with pend events anywhere (the FrameStream model's own notion of a schedule)"]

    _codes_cache = None

    # ------------------------------------------------------------ projection
    def project(self, line, impl):
        if " | " not in impl:
            return impl
        if C03._codes_cache is None:
            C03._codes_cache = _codes()
        codes = C03._codes_cache
        w = line.split()
        sid = None
        for t in reversed(w):
            if t[0] == "q" and "." in t:
                sid = t[1:t.index(".")]
                break
        if sid is None:
            return impl
        trace, summ = impl.split(" | ", 1)
        pre = "q%s." % sid

        def code(name):
            if name in codes:
                return codes[name]
            if name.startswith("0x"):
                return str(int(name, 16))
            return name

        out = []
        data, sizes = None, None

        def flush():
            nonlocal data, sizes
            if data is not None:
                out.append("rd=data:%s/%s" % (data or "-", "+".join(sizes)))
                data, sizes = None, None

        for t in trace.split():
            if not t.startswith(pre):
                continue
            cmd, _, res = t[len(pre):].partition("=")
            if res == "no-task":
                continue
            # a `split` that was carried out has no result of its own: what is compared is what the
            # receive calls answer, whole or split (the data pieces around it are merged as usual)
            if cmd == "sp" and res == "ok":
                continue
            if cmd == "rd" and res.startswith("data:"):
                h = res[5:]
                h = "" if h == "-" else h
                if data is None:
                    data, sizes = "", []
                data += h
                sizes.append(str(len(h) // 2))
                continue
            flush()
            if res.startswith("ok"):
                res = "ok"
            elif res.startswith("trailers"):
                res = "trailers"
            elif res.startswith("err:conn:local:"):
                res = "err:conn:" + code(res[15:])
            elif res.startswith("err:stream:"):
                res = "err:stream:" + code(res[11:])
            out.append(cmd + "=" + res)
        flush()
        rst = stop = "-"
        closed = pending = ""
        for t in summ.split():
            if t.startswith(sid + ":tx="):
                for f in t.split(",")[1:]:
                    if f.startswith("rst="):
                        rst = f[4:]
                    elif f.startswith("stop="):
                        stop = f[5:]
                    elif f in ("MISUSE", "OVERLAP"):
                        rst = f
            elif t.startswith("closed=["):
                closed = t[8:-1]
            elif t.startswith("pending=["):
                pending = ",".join(p[len(pre):] for p in t[9:-1].split(",") if p.startswith(pre))
        return "%s | rst=%s stop=%s closed=[%s] pending=[%s]" % (" ".join(out) if out else "-", rst, stop, closed, pending)

    # ------------------------------------------------------------ generators
    def cases(self, tier, rng):
        big = tier == "thorough"
        L = []
        seen = set()

        def add(l):
            if l not in seen:
                seen.add(l)
                L.append(l)

        modes = ["whole", "frame", "byte", "random"]
        maxlen = 5
        k = 0
        for n in range(0, maxlen + 1):
            for seq in itertools.product(LETTERS, repeat=n):
                for role in ("server", "client"):
                    fr = frames_of(seq, role)
                    for ending in ("f0", "r0:%d" % (256 + (k % 40)), ""):
                        k += 1
                        if big and n <= 4:
                            for m in modes:
                                add(line(role, fr, ending, m, rng))
                        else:
                            add(line(role, fr, ending, modes[k % 4], rng))
        if big:
            for pre in itertools.product(LETTERS, repeat=5):
                if any(l in STOPPERS for l in pre) or pre[0] in ("D0", "Dn"):
                    continue
                for last in LETTERS:
                    seq = pre + (last,)
                    for role in ("server", "client"):
                        fr = frames_of(seq, role)
                        for ending in ("f0", "r0:300", ""):
                            k += 1
                            add(line(role, fr, ending, modes[k % 4], rng))
        # the ending (and sometimes the last chunks) arrives while a call is waiting
        pool = [s for n in range(1, 5) for s in itertools.product(["H", "D0", "Dn", "U0", "Un", "GA", "H2"], repeat=n)]
        for seq in (pool if big else rng.sample(pool, 1200)):
            for role in ("server", "client"):
                fr = frames_of(seq, role)
                add(line(role, fr, rng.choice(["f0", "r0:7", "f0"]), rng.choice(modes), rng, late_end=True))
                # chunks between the calls
                whole = "".join(fr)
                parts = random_cut(whole, rng)
                cl = CALLS[role].split()
                ops = [SETUP[role] % "g0"]
                ci = 0
                for p in parts:
                    ops.append("s0:" + p)
                    if ci < len(cl) and rng.random() < 0.5:
                        ops.append(cl[ci])
                        ci += 1
                ops += cl[ci:]
                e = rng.choice(["f0", "", "r0:9"])
                if e:
                    ops.append(e)
                add(" ".join(ops))
        # truncation of a full message at every offset; malformed frames; bad SETTINGS; bad header blocks
        for role in ("server", "client"):
            head = hdr_frame(BLK_REQUEST if role == "server" else BLK_RESPONSE)
            full = head + "0003aabbcc" + "404002beef" + "0000" + "0002ddee" + hdr_frame(BLK_TRAILER) + "2100"
            for cut in range(0, len(full) // 2 + 1):
                v = full[:2 * cut]
                for ending in ("f0", "", "r0:5"):
                    for m in ("whole", "byte", "random"):
                        add(line(role, [v], ending, m, rng))
            bad = ["030140", "0300", "04020640", "07020000", "0d00", "0500", "04020200", "0403064040", "040406010601", "040101",
                   "0108" + BLK_TRAILER, "00"]
            for b in bad:
                for prefix in ("", head, head + "0001aa", head + hdr_frame(BLK_TRAILER)):
                    for ending in ("f0", ""):
                        add(line(role, [prefix, b], ending, rng.choice(modes), rng))
            for blk in (BLK_REQUEST, BLK_RESPONSE, BLK_TRAILER, BLK_METHOD_ONLY, BLK_BAD_QPACK):
                for prefix in ("", head, head + "0002a1a2"):
                    for ending in ("f0", ""):
                        add(line(role, [prefix, hdr_frame(blk)], ending, "whole", rng))
            # executor task order must not matter
            for s in range(1, 6 if not big else 30):
                seq = [rng.choice(LETTERS[:5] + ["GA"]) for _ in range(rng.randrange(1, 6))]
                add(line(role, frames_of(["H"] + seq, role), rng.choice(["f0", ""]), "random", rng, cfg="g0,seed=%d" % s))
            # raw call sequences: recv_data one call at a time, also past the end, also trailers early, also
            # data before the head; every call gives up at an error (what the frame layer answers after it
            # has reported an error is outside the FrameStream model, which stops there)
            hname = "res" if role == "server" else "rr"
            for _ in range(6000 if big else 1500):
                n = rng.randrange(0, 6)
                seq = [rng.choice(["H", "H", "D0", "Dn", "Dn", "U0", "Un", "GA", "PP", "H2"]) for _ in range(n)]
                if rng.random() < 0.8:
                    seq = ["H"] + seq
                fr = frames_of(seq, role)
                nd = sum(1 for l in seq if l in ("D0", "Dn"))
                r = rng.random()
                if r < 0.5:
                    calls = ["q0.%s!" % hname] + ["q0.rd!"] * (nd + 2) + ["q0.rt"]
                elif r < 0.8:
                    calls = ["q0.%s!" % hname] + ["q0." + rng.choice(["rd", "rd", "rt", "rda"]) + "!" for _ in range(rng.randrange(1, 7))]
                else:
                    calls = ["q0." + rng.choice(["rd", "rt", hname, "rda"]) + "!" for _ in range(rng.randrange(1, 6))]
                # `split` anywhere in a raw call sequence (also before the head, also twice)
                if rng.random() < 0.35:
                    for _ in range(rng.choice([1, 1, 2])):
                        calls.insert(rng.randrange(0, len(calls) + 1), "q0.sp")
                add(line(role, fr, rng.choice(["f0", "f0", "", "r0:11"]), rng.choice(modes), rng, calls=" ".join(calls),
                         late_end=rng.random() < 0.2))
        for l in wt_cases(rng, big):
            add(l)
        for l in split_cases(rng, big):
            add(l)
        return L

    def klass(self, line, impl):
        w = line.split()
        role = w[1] if len(w) > 1 else "?"
        ending = "fin" if " f0" in line else "reset" if " r0:" in line else "open"
        if " | " not in impl:
            return "%s/%s/%s" % (role, ending, impl.split(" ")[0] if impl else "empty")
        calls = impl.split(" | ")[0].split()
        last = calls[-1] if calls else "-"
        last = re.sub(r"data:.*", "data", last)
        last = re.sub(r"rterm:\d+", "rterm", last)
        pend = impl.rsplit("pending=[", 1)[1].rstrip("]")
        return "%s/%s/calls=%d/last=%s%s" % (role, ending, min(len(calls), 4), last, "/pending=" + pend if pend else "")

    def trivial(self, line, impl):
        if " | " not in impl:
            return True
        return impl.startswith("- |")

    def shrink_candidates(self, line):
        w = line.split()
        out = []
        idx = [i for i, t in enumerate(w) if t.startswith(("s0:", "f0", "r0:", "q0."))]
        for i in idx:
            out.append(" ".join(w[:i] + w[i + 1:]))
        for i in idx:
            if w[i].startswith("s0:") and i + 1 < len(w) and w[i + 1].startswith("s0:"):
                out.append(" ".join(w[:i] + [w[i] + w[i + 1][3:]] + w[i + 2:]))
            if w[i].startswith("s0:") and len(w[i]) > 5:
                out.append(" ".join(w[:i] + [w[i][:-2]] + w[i + 1:]))
                out.append(" ".join(w[:i] + ["s0:" + w[i][5:]] + w[i + 1:]))
        return out


PROP = C03()
