from vlib import Prop

U64 = 2**64 - 1


def hx(bs):
    return "".join("%02x" % b for b in bs) if bs else "-"


class C16(Prop):
    id = "C16"
    modules = ["H3.Props.C16"]
    engines = ["varint", "sid"]
    design_ref = "DESIGN.md section 7, C16"
    level_text = ("Lean theorems over models of VarInt::{encode,decode,size,encoded_size,from_u64}, write_var and "
                  "StreamId::{is_request,is_push,index,Add<usize>,TryFrom}: round trip for all x < 2^62, shortest form, "
                  "decode = RFC 9000 §16 on every byte string (minimal or not, truncations), checked constructors, "
                  "stream-id kinds, saturating add without u64 wrap; unbounded, by omega/case analysis")
    level_note = ("trusted: Lean kernel, propext/Classical.choice/Quot.sound, the hand-written model (tied by running the real "
                  "functions and the model on ~270k identical case lines per run incl. all 1-/2-byte strings), bytes crate")
    rule = ("cases: exhaustive 1- and 2-byte strings, values 0..2^16, +-2 around every form boundary, every "
            "truncation of every form, seeded random 62/64-bit values, stream-id kinds x boundary indices x "
            "increments; `wv` write_var judged against the shortest RFC 9000 form for every value below 2^62 (no opinion on the "
            "unwrap beyond); `tfu` TryFrom<usize> for VarInt at the edges of every form, of the range and of usize; non-trivial = a case whose implementation result is not `bad-op`/`refused` and whose "
            "input is not the empty string; distinct = distinct case lines")
    trusted = ["bytes::Buf/BufMut get_u8/copy_to_slice/put_u16/u32/u64 semantics (exercised by the correspondence run)"]
    assumptions = ["usize is 64 bits (rhs as u64 is lossless)"]

    def cases(self, tier, rng):
        L = []
        big = tier == "thorough"
        # all 1- and 2-byte strings
        for a in range(256):
            L.append("varint dec %02x" % a)
        step = 1
        for a in range(256):
            for b in range(0, 256, step):
                L.append("varint dec %02x%02x" % (a, b))
        L.append("varint dec -")
        # every truncation length of every form, plus trailing bytes
        for tag in range(4):
            n = 1 << tag
            for _ in range(40 if big else 8):
                bs = [rng.randrange(256) for _ in range(n + 3)]
                bs[0] = (bs[0] & 0x3F) | (tag << 6)
                for k in range(0, n + 4):
                    L.append("varint dec " + hx(bs[:k]))
        # the same encodings read from a multi-chunk buffer, cut at every position (and twice)
        for tag in range(4):
            n = 1 << tag
            for _ in range(30 if big else 6):
                bs = [rng.randrange(256) for _ in range(n + 2)]
                bs[0] = (bs[0] & 0x3F) | (tag << 6)
                for total in (n - 1, n, n + 2):
                    v = bs[:total]
                    if not v:
                        continue
                    for c1 in range(1, len(v)):
                        L.append("varint decm %s,%s" % (hx(v[:c1]), hx(v[c1:])))
                        for c2 in range(c1 + 1, len(v)):
                            L.append("varint decm %s,%s,%s" % (hx(v[:c1]), hx(v[c1:c2]), hx(v[c2:])))
                    L.append("varint decm " + ",".join("%02x" % b for b in v))
        # values
        vals = set(range(0, 2**16 + 1))
        for p in (6, 14, 30, 62, 8, 16, 32, 63, 64):
            for d in range(-2, 3):
                v = 2**p + d
                if 0 <= v <= U64:
                    vals.add(v)
        vals.add(U64)
        for _ in range(1000000 if big else 100000):
            vals.add(rng.getrandbits(rng.choice([62, 62, 62, 64, 30, 40, 50, 20])))
        for v in sorted(vals):
            L.append("varint enc %d" % v)
        for v in sorted(vals)[::7] + [2**62 - 1, 2**62, U64]:
            L.append("varint wv %d" % v)
        # TryFrom<usize> for VarInt: the edges of every form, of the range, of usize, and a sample of the values
        for v in sorted(vals)[::11] + [2**p + d for p in (6, 14, 30, 62, 63) for d in (-1, 0, 1)] + [0, U64 - 1, U64]:
            L.append("varint tfu %d" % v)
        for b in range(256):
            L.append("varint esz %d" % b)
        # random 8-byte and 4-byte encodings (non-minimal included)
        for _ in range(200000 if big else 20000):
            tag = rng.randrange(4)
            n = 1 << tag
            bs = [rng.randrange(256) for _ in range(n + rng.randrange(3))]
            bs[0] = (bs[0] & 0x3F) | (tag << 6)
            if rng.random() < 0.3:  # non-minimal: small value in a long form
                for i in range(1, n - 1):
                    bs[i] = 0
                bs[0] &= 0xC0
            L.append("varint dec " + hx(bs))
        # stream ids
        idxs = [0, 1, 2, 3, 5, 1000, 2**30, 2**60 - 3, 2**60 - 2, 2**60 - 1] + [rng.getrandbits(60) for _ in range(20)]
        incs = [0, 1, 2, 3, 4, 100, 2**32, 2**60 - 2, 2**60 - 1, 2**60, 2**62, 2**63, U64 - 1, U64] + \
               [rng.getrandbits(rng.choice([8, 32, 60, 64])) for _ in range(40 if big else 12)]
        for idx in idxs:
            for kind in range(4):
                sid = idx * 4 + kind
                L.append("sid info %d" % sid)
                L.append("sid try %d" % sid)
                for n in incs:
                    L.append("sid add %d %d" % (sid, n))
        for v in (2**62 - 1, 2**62, 2**62 + 1, 2**63, U64):
            L.append("sid try %d" % v)
        for sid in range(0, 64):
            L.append("sid info %d" % sid)
        return L

    def klass(self, line, impl):
        w = line.split()
        r = impl.split(" ")[0]
        if w[0] == "varint" and w[1] == "decm":
            return "decm/form%d/%s" % (int(w[2][:2], 16) >> 6, r)
        if w[0] == "varint" and w[1] == "dec":
            h = w[2]
            tag = "empty" if h == "-" else "form%d" % (int(h[:2], 16) >> 6)
            return "dec/%s/%s" % (tag, r if r in ("ok", "end", "panic") else "other")
        if w[0] == "varint":
            return "%s/%s" % (w[1], r if r in ("ok", "refused", "panic") else "n")
        return "sid/%s" % w[1]

    def trivial(self, line, impl):
        return impl in ("bad-op", "refused") or line.endswith(" -")

    def shrink_candidates(self, line):
        w = line.split()
        out = []
        if w[:2] == ["varint", "dec"] and w[2] != "-":
            h = w[2]
            if len(h) > 2:
                out.append("varint dec " + h[:-2])
        return out


PROP = C16()
