import atexit
import re
import subprocess

import vlib
from vlib import Prop
from props.c16 import hx

SIZES = [0, 1, 2, 63, 64, 16383, 16384]
IDS = [0, 1, 4, 63, 64, 300, 16383, 16384, 2**30 - 1, 2**30, 2**62 - 1]
GRANTS = [1, 2, 3, 7, 100]
SETTING_IDS = [1, 6, 7, 8, 0x33, 0x2B603742, 0x2B603743, 0x21, 0x21 + 31 * 5, 0x40, 0xFFD277]

# requests / responses / trailers the programs use: (op argument)
REQUESTS = [
    "GET:68747470733a2f2f612f:-",                                     # GET https://a/
    "POST:68747470733a2f2f6578616d706c652e636f6d2f75706c6f6164:content-type=746578742f706c61696e",
    "GET:68747470733a2f2f612f783f793d7a:x-a=31;x-a=32;accept=2a2f2a",
]
# CONNECT (authority-form target) and extended CONNECT (RFC 9220: `:protocol`)
CONNECTS = ["CONNECT:613a343433:-", "CONNECT+webtransport:68747470733a2f2f612f7774:-", "CONNECT+websocket:68747470733a2f2f612f63:x-a=31"]
# shutdown(n): n requests past the last accepted one; the GOAWAY id 4*(k+n) needs a 1/2/4/8-byte varint, and saturates
SHUT_N = [0, 1, 2, 3, 15, 16, 17, 4095, 4096, 2**20, 2**28 - 1, 2**28, 2**30, 2**59, 2**60, 2**62 - 1, 2**62, 2**64 - 1]
CODES = [0, 0x100, 0x10c, 0x10d, 0x33, 2**30, 2**62 - 1]
RESPONSES = ["200:-", "404:content-length=30", "200:server=6833;x-long=" + "61" * 70]
TRAILERS = ["-", "x-t=31", "x-t=31;x-u=" + "62" * 40]


def varint_at(bs, i):
    n = 1 << (bs[i] >> 6)
    v = bs[i] & 0x3F
    for k in range(1, n):
        v = v * 256 + bs[i + k]
    return v, i + n


def unhex(h):
    return [] if h == "-" else [int(h[i:i + 2], 16) for i in range(0, len(h), 2)]


def body(n, rng):
    if n <= 64:
        return [rng.randrange(256) for _ in range(n)]
    a, b = rng.randrange(256), rng.randrange(1, 256)
    return [(a + i * b) % 256 for i in range(n)]


class LeanSide:
    """One long-lived `h3drv` used by `project`: the harness' per-stream byte logs are judged by
    the Lean specification (engine `outlog`) and re-rendered in the form the model prints."""

    def __init__(self):
        self.p = None

    def ask(self, line):
        for attempt in (0, 1):
            if self.p is None or self.p.poll() is not None:
                self.p = subprocess.Popen([vlib.DRV], stdin=subprocess.PIPE, stdout=subprocess.PIPE, text=True)
            try:
                self.p.stdin.write(line + "\n")
                self.p.stdin.flush()
                r = self.p.stdout.readline()
                if r:
                    return r.rstrip("\n")
            except (BrokenPipeError, OSError):
                pass
            self.p = None
        return "outlog-failed"

    def close(self):
        if self.p is not None and self.p.poll() is None:
            try:
                self.p.stdin.close()
                self.p.wait(timeout=5)
            except Exception:
                self.p.kill()
        self.p = None


LEAN = LeanSide()
atexit.register(LEAN.close)


class C14(Prop):
    id = "C14"
    thorough_rounds = 6   # thorough tier: this many independently seeded rounds of the random generators (duplicates dropped)
    modules = ["H3.Props.C14", "H3.Lemmas.GenAgreeSend"]
    engines = ["wbuf", "sdc", "out"]
    design_ref = "DESIGN.md section 7, C14; section 9, R-14"
    level_text = ("Lean theorems over models of WriteBuf (fixed header array + payload, its From conversions and Buf impl), "
                  "Frame::encode, stream::write against an acceptance script, and of what each API call writes on which stream "
                  "(small-step machine: API calls and single transport polls in any order): for every frame and every script the "
                  "bytes handed to the transport are header ++ payload, once, in order, remaining exact; every frame header reads "
                  "back under the RFC 9000/9114 parser as (type, length = bytes that follow); for every run of the machine in "
                  "either role, every configuration and every acceptance pattern each stream's byte log satisfies the RFC 9114 "
                  "validity predicate (prefix-valid while open, whole frames at FIN); grease ids are 31N+33 < 2^62 and never a "
                  "defined or HTTP/2-reserved id; chunking independence: for a payload handed over as any list of segments (Chain, "
                  "deque of Bytes; empty segments anywhere) the DATA length and the bytes handed to the transport are those of the "
                  "flattened payload, every poll over the segmented buffer being a poll over the flat one; the run theorem also over "
                  "the extended machine (stop_stream, peer STOP_SENDING, abandoned call, stop_sending, peer RESET, split, cloned "
                  "SendRequest handles): a send side that was ended may stop inside a frame (prefix-valid, whole frames at FIN), h3 "
                  "resets request streams only, an idle request stream holds whole frames")
    level_note = ("trusted: Lean kernel + 3 standard axioms; hand models tied to the code by (a) the real WriteBuf built through "
                  "its From impls and consumed through its Buf impl under the same patterns (engine wbuf), (b) real h3 "
                  "server/client objects over SimQuic under random API programs x configurations x write-credit patterns (engine "
                  "out): with grease off the per-stream byte logs are predicted literally; with grease on - with and without "
                  "write / stream credit limits - their shape: per stream the stream type, every frame's kind, length and payload "
                  "in order, FIN, a write in progress and where the last frame is cut, with only the three random reserved "
                  "identifiers (setting id, frame type, stream type) masked, the model running with reserved ids that are 8-byte "
                  "varints like the real draws; on every run every log the harness prints is judged by the Lean specification "
                  "(RFC segmenter, not h3's encoder). QPACK field sections are opaque (C11), GOAWAY id choice is C08's, "
                  "Config->Settings details are C13's")
    rule = ("cases: wbuf = every frame kind x payload sizes 0,1,2,63,64,16383,16384 x ids at every varint boundary x patterns "
            "(bytewise, zeros interleaved, random, bare advance across the header end); out = random API programs in both roles "
            "(1-3 requests, send_data sizes 0,1,2,63,64,16383,16384 and a few KiB, trailers, finish, shutdown(n), drops) x "
            "g0/g1, wt, ec, dg, mfs, wts x write credit wc=0..k with grants of 1,2,3,7,100 bytes interleaved, uni/bidi stream "
            "credit withheld and granted; plus, with grease on and credit limited: finish() with the grease frame cut at every "
            "offset 0..16 and under grants of 1,2,3,7 bytes, responses / requests with 2-4 DATA frames and trailers under "
            "dripping credit, the grease stream refused by uni-stream credit and granted later (it moves only with the next "
            "control frame of the peer) and its write cut by wc, GOAWAY queued behind a partly written SETTINGS frame, and "
            "systematically the grease stream blocked inside its 8-byte stream type (k = 0..8 bytes taken through wc=k or "
            "gw<grease id>:k, then Pending) x a second control frame (MAX_PUSH_ID / CANCEL_PUSH to a server, GOAWAY to a client) "
            "delivered while it is blocked x {nothing, a third frame, more credit, more credit + a third frame, credit in two "
            "steps} - a stream finished meanwhile is judged `truncated` by checkStream; "
            "wbuf datac: = Frame::Data over a payload in segments (2 segments: bytes::buf::Chain, else a deque of Bytes): every "
            "2-way split of payloads of 0..6 bytes incl. empty first / second segment, splits of 63/64/65/100/16383/16384/16385 "
            "bytes around the length-varint boundaries, sampled 3/4-way splits with empty segments anywhere, also behind a stream "
            "type; out programs also: split (send calls on the send half), stop_stream as last send-side op, stop_sending, kill "
            "(possibly in mid-write), peer RESET / STOP_SENDING behind the first call, CONNECT and extended CONNECT requests, "
            "SendRequest::clone (snd.cl; requests through any live handle), shutdown(n) with n up to 2^64-1 (GOAWAY ids in 1/2/4/8 "
            "byte varints, saturating), build credit granted before the q ops; the judge (outlog) demands whole frames on every "
            "stream that is not being written and has no call pending unless the line / summary says its send side was ended, at "
            "most one control / encoder / decoder stream, no rst on those, no MISUSE / OVERLAP, and refuses unknown tokens (BAD:); "
            "non-trivial = the implementation wrote at least one frame beyond the three stream headers or wrote on its grease "
            "stream (out) / returned bytes (wbuf)")
    trusted = ["bytes::Bytes Buf impl for payloads", "SimQuic's poll_ready loop respects the Buf contract (chunk, advance <= chunk length)",
               "field-section annotations (#fs) are obtained from the real encoder by a probe run and are inputs of the model",
               "bytes::buf::Chain and the harness' Segs (deque of Bytes, chunk() = first non-empty segment) honour the Buf contract "
               "(chunk() empty only when remaining() == 0); a Buf that breaks it is the application's error"]
    assumptions = ["R-14: API programs are sequences of calls each awaited to completion; a send future dropped in mid-write is outside the model",
                   "after FIN the transport refuses further writes (RFC 9000 §3.1); programs do not call send_* after finish on the same stream",
                   "programs do not call send_* / finish after stop_stream on the same stream; after split the send calls are made on the send half only",
                   "engine out sends contiguous payloads (the scenario interpreter's connection and SimQuic are typed B = Bytes); "
                   "segmented payloads go through the real WriteBuf (engine wbuf, datac:), through real client / server connections "
                   "typed B = Segs over a payload-generic copy of the small transport (engine sdc), and the translator reads the two "
                   "places that take a length from the payload",
                   "a FIN the transport accepts after the send side has ended (peer STOP_SENDING / own RESET_STREAM / connection end) "
                   "finishes nothing (reading R-14b): SimQuic's poll_finish does not look at STOP_SENDING",
                   "engine out, grease on with credit limits: the harness seeds fastrand with a hash of the case line, so the three "
                   "reserved ids are a function of the line; the model assumes each is an 8-byte varint (id >= 2^30; a draw gives a "
                   "smaller one with probability ~2^-32). A line whose hash yields a smaller id would show as a correspondence "
                   "difference (byte counts under write credit, `g<k>` fragments), deterministically on every replay, not as a "
                   "violation; the specification verdict does not depend on it"]

    def __init__(self):
        self.fs_cache = {}
        self.reqframe = None

    # ------------------------------------------------------------- projection
    def project(self, line, impl):
        if not line.startswith("out ") or " | " not in impl:
            return impl
        w = line.split()
        summary = impl.split(" | ", 1)[1]
        # the ops of the line go along: which streams the peer stopped / which calls were abandoned is the line's doing
        r = LEAN.ask("outlog %s %s %s @@ %s" % (w[1], w[2], " ".join(w[3:]), summary))
        return r.split(" ## ")[0].strip()

    # ------------------------------------------------------------- probes
    def probe_tx(self, line, sid):
        rc, out, err = vlib.run_lines(vlib.RUN, [line])
        if rc != 0 or not out or " | " not in out[0]:
            return None
        for t in out[0].split(" | ", 1)[1].split():
            if t.startswith("%d:tx=" % sid):
                return unhex(t.split("=", 1)[1].split(",")[0])
        return None

    def request_frame(self, arg):
        """the HEADERS frame the real client writes for this request (used as the peer's input in server programs)"""
        k = ("reqframe", arg)
        if k not in self.fs_cache:
            self.fs_cache[k] = self.probe_tx("out client g0 snd.R:" + arg, 0) or []
        return self.fs_cache[k]

    def fs_of(self, kind, arg, extra=""):
        """field section the real code produces for a header-sending call: payload of the first HEADERS frame it writes"""
        k = (kind, arg, extra)
        if k in self.fs_cache:
            return self.fs_cache[k]
        rq = hx(self.request_frame(REQUESTS[0]))
        if kind == "R":
            tx = self.probe_tx("out client g0 snd.R:" + arg, 0)
        elif kind == "sr":
            tx = self.probe_tx("out server g0 o0 s0:%s conn.A q0.res q0.sr:%s" % (rq, arg), 0)
        elif kind == "st":
            tx = self.probe_tx("out server g0 o0 s0:%s conn.A q0.res q0.st:%s" % (rq, arg), 0)
        else:  # "res": the 431 answer, if the configuration `extra` makes the request too large
            tx = self.probe_tx("out server %s o0 s0:%s conn.A q0.res" % (extra, hx(self.request_frame(arg))), 0)
        fs = None
        if tx and tx[0] == 1:
            n, i = varint_at(tx, 1)
            fs = tx[i:i + n]
        self.fs_cache[k] = fs
        return fs

    def hinted(self, op, kind, arg, extra=""):
        fs = self.fs_of(kind, arg, extra)
        return (["#fs:" + hx(fs)] if fs is not None else []) + [op]

    # ------------------------------------------------------------- generators
    def wbuf_cases(self, tier, rng):
        big = tier == "thorough"
        L = []
        descs = []
        for n in SIZES + [5, 100, 3000]:
            descs.append("data:" + hx(body(n, rng)))
            descs.append("headers:" + hx(body(n, rng)))
        for v in IDS:
            descs += ["goaway:%d" % v, "cancel:%d" % v, "maxpush:%d" % v, "wtf:%d" % v, "wtu:%d" % v, "wtb:%d" % v,
                      "st:%d" % v, "st:%d" % (31 * v + 33 if 31 * v + 33 < 2**62 else 33)]
            descs.append("pp:%d:%s" % (v, hx(body(rng.choice([0, 1, 5, 20]), rng))))
            descs.append("pair:%d:goaway:%d" % (rng.choice(IDS), v))
            descs.append("pair:%d:data:%s" % (31 * (v % 1000) + 33, hx(body(rng.choice([0, 3, 64]), rng))))
        descs += ["enc", "dec", "st:4611686018427387904", "goaway:4611686018427387904", "wtu:4611686018427387904",
                  "settings:-", "ctl:-", "settings:1=1;1=2", "settings:" + ";".join("%d=0" % (100 + i) for i in range(9))]
        for _ in range(60 if big else 25):
            ids = rng.sample(SETTING_IDS, rng.randrange(0, 8))
            es = ";".join("%d=%d" % (i, rng.choice(IDS)) for i in ids) or "-"
            descs.append("settings:" + es)
            descs.append("ctl:" + es)
            descs.append("pair:0:settings:" + es)
        # the six entries every Config yields, at their largest
        cfgmax = "%d=0;6=%d;8=1;727725890=1;51=1;727725891=%d" % (2**62 - 2, 2**62 - 1, 2**62 - 1)
        descs += ["ctl:" + cfgmax, "settings:" + cfgmax]
        for d in descs:
            pats = ["-", "1", ",".join(["1"] * 80), "0,1,0,0,2,0,3", "100000", "3,100000", "a1,a1,1", "a2,100", "a3", "a9", "a64,1", "a70"]
            for _ in range(6 if big else 3):
                pats.append(",".join(str(rng.choice([0, 1, 1, 2, 3, 7, 100])) for _ in range(rng.randrange(1, 14))))
            if rng.random() < 0.5:
                pats.append(",".join(rng.choice(["a%d" % rng.randrange(0, 12), str(rng.randrange(0, 9))]) for _ in range(rng.randrange(1, 6))))
            for p in pats:
                L.append("wbuf %s %s" % (d, p))
        return L

    def chunk_cases(self, tier, rng):
        """`Frame::Data` over a payload `B: Buf` that is not contiguous (`datac:<hex>|<hex>|…`: two segments = a real
        `bytes::buf::Chain<Bytes, Bytes>`, otherwise a deque of `Bytes`): EVERY 2-way split of payloads of 0..6 bytes (empty
        first / empty second segment included), the splits of 63 / 64 / 16383 / 16384 bytes that put the total and the first
        segment on different sides of a length-varint boundary, sampled 3- and 4-way splits with empty segments anywhere
        (first included), the same behind a stream type (`pair:`), each under the acceptance patterns of the flat frames."""
        big = tier == "thorough"
        L = []

        def seg(bs):
            return hx(bs) if bs else "-"

        descs = []
        for n in range(0, 7):
            b = body(n, rng)
            for i in range(0, n + 1):
                descs.append("datac:%s|%s" % (seg(b[:i]), seg(b[i:])))
        for n in (63, 64, 65, 100, 16383, 16384, 16385):
            b = body(n, rng)
            cuts = sorted(set([0, 1, 2, 62, 63, 64, n - 64, n - 63, n - 1, n] + [rng.randrange(0, n + 1) for _ in range(4 if big else 2)]))
            for i in cuts:
                if 0 <= i <= n:
                    descs.append("datac:%s|%s" % (seg(b[:i]), seg(b[i:])))
        for _ in range(120 if big else 40):
            n = rng.choice([0, 1, 2, 3, 5, 8, 17, 63, 64, 65, 200, 16384])
            b = body(n, rng)
            k = rng.choice([3, 3, 3, 4])
            cuts = sorted(rng.randrange(0, n + 1) for _ in range(k - 1))
            r = rng.random()
            if r < 0.35:
                cuts[0] = 0                      # empty first segment
            elif r < 0.5:
                cuts[-1] = n                     # empty last segment
            elif r < 0.6 and k > 2:
                cuts[1] = cuts[0]                # empty segment in the middle
            cuts = sorted(cuts)
            parts = [b[x:y] for x, y in zip([0] + cuts, cuts + [n])]
            descs.append("datac:" + "|".join(seg(q) for q in parts))
        descs += ["datac:-", "datac:-|-|-", "datac:aa", "datac:-|-|-|aa"]
        for d in list(descs):
            if rng.random() < 0.15:
                descs.append("pair:%d:%s" % (rng.choice([0x41, 33, 31 * 7 + 33, 2**30]), d))
        for d in descs:
            pats = ["-", "1", ",".join(["1"] * 12), "0,1,0,0,2,0,3", "100000", "2,100000", "3,100000", "a2,100", "a3,1", "a70"]
            for _ in range(4 if big else 2):
                pats.append(",".join(str(rng.choice([0, 1, 1, 2, 3, 7, 100])) for _ in range(rng.randrange(1, 14))))
            if rng.random() < 0.5:
                pats.append(",".join(rng.choice(["a%d" % rng.randrange(0, 8), str(rng.randrange(0, 9))]) for _ in range(rng.randrange(1, 6))))
            for pt in pats:
                L.append("wbuf %s %s" % (d, pt))
        return L

    def sdc_cases(self, tier, rng):
        """engine `sdc`: a REAL client / server connection typed with a payload that is not contiguous (`B = Segs`, a deque of
        `Bytes`) over a payload-generic copy of the small in-memory transport: `send_request` / `send_response`, one
        `send_data(Segs)` per payload, `finish()`, the request stream's write credit `wc` plus grants handed out whenever a call is
        pending.  Every 2-way split of 0..6 bytes, the splits around the length-varint boundaries, sampled 3/4-way splits with
        empty segments (first included), 1-3 payloads per line, credit ample / dripping / running out anywhere."""
        big = tier == "thorough"
        L = []
        rq = hx(self.request_frame(REQUESTS[0]))
        fs_c = hx(self.fs_of("R", REQUESTS[0]) or [])
        fs_s = hx(self.fs_of("sr", "200:-") or [])

        def seg(bs):
            return hx(bs) if bs else "-"

        pays = []
        for n in range(0, 7):
            b = body(n, rng)
            for i in range(0, n + 1):
                pays.append("%s|%s" % (seg(b[:i]), seg(b[i:])))
        for n in (63, 64, 65, 16383, 16384):
            b = body(n, rng)
            for i in sorted(set([0, 1, 63, 64, n - 63, n - 1, n, rng.randrange(0, n + 1)])):
                if 0 <= i <= n:
                    pays.append("%s|%s" % (seg(b[:i]), seg(b[i:])))
        for _ in range(90 if big else 30):
            n = rng.choice([0, 1, 2, 3, 5, 8, 17, 63, 64, 65, 200])
            b = body(n, rng)
            k = rng.choice([3, 3, 4])
            cuts = sorted(rng.randrange(0, n + 1) for _ in range(k - 1))
            if rng.random() < 0.4:
                cuts[0] = 0
            parts = [b[x:y] for x, y in zip([0] + cuts, cuts + [n])]
            pays.append("|".join(seg(q) for q in parts))
        for pay in pays:
            for server in (False, True):
                head = "#rq:%s #fs:%s" % (rq, fs_s) if server else "#fs:%s" % fs_c
                more = [rng.choice(pays) for _ in range(rng.choice([0, 0, 1, 2]))]
                body_toks = " ".join([pay] + more)
                r = rng.random()
                if r < 0.4:
                    credit = "100000 -"
                else:
                    credit = "%d %s" % (rng.choice([0, 1, 2, 3, 5, 11, 12, 13, 20]),
                                        ",".join(str(rng.choice([0, 1, 1, 2, 3, 7, 100])) for _ in range(rng.randrange(1, 30))))
                L.append("sdc %s %s %s %s" % ("server" if server else "client", credit, head, body_toks))
        return L

    def cfg(self, rng, server, grease, limited):
        parts = ["g1" if grease else "g0"]
        if rng.random() < 0.6:
            parts.append("mfs=%d" % rng.choice([0, 63, 64, 16383, 16384, 2**30, 2**62 - 1, 200]))
        for k in ("ec", "dg") + (("wt",) if server else ()):
            if rng.random() < 0.4:
                parts.append("%s=%d" % (k, rng.randrange(2)))
        if server and rng.random() < 0.3:
            parts.append("wts=%d" % rng.choice([0, 1, 64, 2**62 - 1]))
        if rng.random() < 0.5:
            parts.append("seed=%d" % rng.randrange(1, 1000))
        if limited:
            r = rng.random()
            if r < 0.8:
                parts.append("wc=%d" % rng.choice([0, 0, 1, 2, 3, 5, 7, 20, 26, 27, 100]))
            if r > 0.6 or rng.random() < 0.2:
                parts.append("uc=%d" % rng.randrange(0, 5))
            if not server and rng.random() < 0.25:
                parts.append("bc=%d" % rng.randrange(0, 2))
        return ",".join(parts)

    def program(self, rng, server, cfgs, limited, big_bodies):
        ops = []
        own = [3, 7, 11, 15] if server else [2, 6, 10, 14]
        peer_ctl = 2 if server else 3
        sids = []

        def grants(n=1):
            g = []
            for _ in range(n):
                r = rng.random()
                if r < 0.7:
                    sid = rng.choice(own[:3] + sids + sids) if sids else rng.choice(own[:3])
                    g.append("gw%d:%d" % (sid, rng.choice(GRANTS + [1, 1, 40, 20000])))
                elif r < 0.85:
                    g.append("gu%d" % rng.randrange(1, 4))
                else:
                    g.append("gb1")
            return g

        def maybe_grants():
            if limited and rng.random() < 0.6:
                ops.extend(grants(rng.randrange(1, 5)))

        if limited and rng.random() < 0.9:
            # let the connection come up: a `q<sid>` / `snd` op posted before `build` has returned finds no task (`no-task`)
            # and exercises nothing; one program in ten still starts without the credit (build under back-pressure)
            ops.extend(["gu3"] if rng.random() < 0.93 else [])
            ops.extend(["gw%d:%d" % (s, rng.choice([30, 100, 100])) for s in own[:3] if rng.random() < 0.97])
        if rng.random() < 0.5:
            ops += ["o%d" % peer_ctl, "s%d:000400" % peer_ctl]
            if not server and rng.random() < 0.8:
                ops.append("drv.W")
            elif server and rng.random() < 0.15:
                ops.append("conn.A")
        nreq = rng.choice([1, 1, 2, 3])
        main = "conn" if server else "drv"
        shut = lambda: rng.choice(SHUT_N) if rng.random() < 0.5 else rng.randrange(0, 3)
        senders = ["snd"]
        for i in range(nreq):
            sid = 4 * i
            sids.append(sid)
            rq = rng.choice(REQUESTS + CONNECTS) if rng.random() < 0.25 else rng.choice(REQUESTS)
            if not server and rng.random() < 0.25 and "bc=" not in cfgs:
                # `SendRequest::clone`: the clone is task `snd<k>`; requests go through any live handle (not under a bidi-stream
                # credit limit: which of two handles waiting for the same credit opens the stream is the executor's choice)
                ops.append("%s.cl" % rng.choice(senders))
                senders.append("snd%d" % (len(senders) + 1))
            if server:
                ops += ["o%d" % sid, "s%d:%s" % (sid, hx(self.request_frame(rq)))]
                if rng.random() < 0.3:
                    ops.append("f%d" % sid)
                ops.append("conn.A")
                maybe_grants()
                mfs_cfg = ",".join(p for p in cfgs.split(",") if p.startswith("mfs=")) or "g0"
                ops += self.hinted("q%d.res" % sid, "res", rq, mfs_cfg)
            else:
                ops += self.hinted("%s.R:%s" % (rng.choice(senders), rq), "R", rq)
                if limited and rng.random() < 0.85:
                    # `send_request` returns (and the task `q<sid>` exists) once the HEADERS frame is through: credit for it
                    ops += ["gb1", "gw%d:%d" % (sid, rng.choice([60, 100, 200]))]
            maybe_grants()
            # the handle on which the send calls are made: the send half after `split`
            q = "q%d" % sid
            if rng.random() < 0.12:
                ops.append("%s.sp" % q)
                q += "s"
            calls = []
            if server and rng.random() < 0.9:
                rs = rng.choice(RESPONSES)
                calls.append(self.hinted("%s.sr:%s" % (q, rs), "sr", rs))
            for _ in range(rng.choice([0, 1, 1, 2, 3])):
                n = rng.choice(SIZES[:5] + ([rng.choice([16383, 16384, 3000, 5000])] if big_bodies else [5, 17, 100]))
                calls.append(["%s.sd:%s" % (q, hx(body(n, rng)))])
            if rng.random() < 0.4:
                tr = rng.choice(TRAILERS)
                calls.append(self.hinted("%s.st:%s" % (q, tr), "st", tr))
            if rng.random() < 0.25:
                rng.shuffle(calls)   # any order: data before the response, trailers first, ...
            # receive-side calls / events in between: `stop_sending`, the peer's RESET_STREAM (no effect on what is written)
            if rng.random() < 0.15:
                calls.insert(rng.randrange(0, len(calls) + 1), ["q%d.ss:%d" % (sid, rng.choice(CODES))])
            if rng.random() < 0.12:
                calls.insert(rng.randrange(0, len(calls) + 1), ["r%d:%d" % (sid, rng.choice(CODES))])
            # the peer's STOP_SENDING anywhere behind the first call (a client's `send_request` has returned by then when the
            # credit is unlimited; under limits the request may still be in flight: servers only): later calls write nothing
            if calls and rng.random() < 0.12 and (server or not limited):
                calls.insert(rng.randrange(1, len(calls) + 1), ["x%d:%d" % (sid, rng.choice(CODES))])
            r = rng.random()
            if r < 0.6:
                calls.append(["%s.fi" % q])
                if rng.random() < 0.1:
                    calls.append(["%s.fi" % q])
            elif r < 0.7:
                calls.append(["%s.dr" % q])
            elif r < 0.8:
                # `stop_stream(code)`: RESET_STREAM, the last thing done to the send side
                calls.append(["%s.rs:%d" % (q, rng.choice(CODES))])
            elif r < 0.88:
                # the task is dropped with its handle, possibly in the middle of a write that waits for credit (outside R-14:
                # the stream may end inside a frame, the judge is told by the op)
                calls.append(["%s.kill?" % q])
            for c in calls:
                ops += c
                maybe_grants()
            if rng.random() < 0.35:
                ops.append("%s.S:%d" % (main, shut()) if server else "drv.S")
                maybe_grants()
                if server:
                    # which later arrivals a server that is shutting down still accepts, and when
                    # `accept` then returns `None`, is C08's/C09's subject: no new requests here
                    if rng.random() < 0.5:
                        ops.append("conn.S:%d" % shut())
                    break
        r = rng.random()
        if r < 0.3:
            ops.append("%s.S:%d" % (main, shut()) if server else "drv.S")
        elif r < 0.4:
            ops.append(main + ".D")
        elif r < 0.45 and not server:
            ops.append("%s.dr" % rng.choice(senders))
        if limited and rng.random() < 0.6:
            # enough credit for everything that is still waiting
            ops += ["gu4", "gb3"] + ["gw%d:100000" % s for s in own + sids]
            if rng.random() < 0.5:
                ops += ["gw%d:100000" % s for s in sids]
        return ops

    def out_cases(self, tier, rng):
        big = tier == "thorough"
        L = []
        # fixed smoke programs
        for role in ("client", "server"):
            L.append("out %s g0" % role)
            L.append("out %s g1" % role)
            L.append("out %s g0,wc=0" % role)
            L.append("out %s g0,wc=0 %s" % (role, " ".join("gw%d:1" % s for s in ([3, 7, 11] if role == "server" else [2, 6, 10]) * 30)))
            L.append("out %s g0,uc=0 gu1 gu1 gu1" % role)
        # the peer goes away while nothing is in progress: `accept` sends a last GOAWAY itself
        for i in range(120 if big else 30):
            limited = rng.random() < 0.5
            cfgs = self.cfg(rng, True, rng.random() < 0.3, limited)
            ops = []
            if limited:
                ops += ["gu3"] + ["gw%d:%d" % (s, rng.choice([1, 30, 100])) for s in (3, 7, 11)]
            ops += ["o2", "s2:000400"]
            tail = ["s2:0701%02x" % rng.choice([0, 1, 4, 63]), "conn.A"]
            for _ in range(rng.randrange(0, 3)):
                tail.insert(rng.randrange(0, len(tail) + 1), rng.choice(["conn.S:%d" % rng.randrange(0, 3), "conn.A", "gw3:%d" % rng.choice(GRANTS)]))
            ops += tail
            if limited:
                ops += ["gw3:%d" % rng.choice(GRANTS + [100000]) for _ in range(rng.randrange(0, 4))]
            L.append("out server %s %s" % (cfgs, " ".join(ops)))
        n = 40000 if big else 6000
        for i in range(n):
            server = rng.random() < 0.5
            grease = rng.random() < 0.4
            limited = rng.random() < 0.65
            cfgs = self.cfg(rng, server, grease, limited)
            ops = self.program(rng, server, cfgs, limited, big_bodies=(i % 12 == 0))
            L.append("out %s %s %s" % ("server" if server else "client", cfgs, " ".join(ops)))
        return L

    def frame_len(self, kind, arg):
        """bytes of the HEADERS frame a header-sending call writes (type, length, field section)"""
        fs = self.fs_of(kind, arg)
        n = len(fs or [])
        return 1 + (1 if n < 64 else 2) + n

    def grease_backpressure_cases(self, tier, rng):
        """grease on and write / stream credit limited: the reserved ids are 8-byte varints on both sides, so that what fits
        the credit is the same; the per-stream shapes (frame kinds, order, lengths, cut points) are compared"""
        big = tier == "thorough"
        L = []
        rq0 = REQUESTS[0]

        def drip(sid, total):
            g, n = [], 0
            while n < total:
                k = rng.choice([1, 2, 3, 7])
                g.append("gw%d:%d" % (sid, k))
                n += k
            return g

        def base_cfg(server, *extra):
            c = self.cfg(rng, server, True, False).split(",")
            return ",".join(c + [e for e in extra if e])

        def up(server, wc):
            """credit that lets the three initial streams complete"""
            own = [3, 7, 11] if server else [2, 6, 10]
            return ["gw%d:%d" % (own[0], 100)] + (["gw%d:1" % own[1], "gw%d:1" % own[2]] if wc == 0 else [])

        def open_request(server, sid, rq, cfgs):
            if server:
                mfs_cfg = ",".join(p for p in cfgs.split(",") if p.startswith("mfs=")) or "g0"
                return ["o%d" % sid, "s%d:%s" % (sid, hx(self.request_frame(rq))), "conn.A"] + \
                    self.hinted("q%d.res" % sid, "res", rq, mfs_cfg)
            return self.hinted("snd.R:" + rq, "R", rq)

        # (a) `finish()`: the grease frame (8-byte type, length 6, payload `grease` = 15 bytes) cut at every offset, behind a
        #     HEADERS frame that went out whole; then the same with the credit dripping in grants of 1,2,3,7 bytes
        for server in (True, False):
            role = "server" if server else "client"
            h = self.frame_len("sr", "200:-") if server else self.frame_len("R", rq0)
            for k in range(0, 17):
                cfgs = "g1,wc=0"
                ops = up(server, 0) + open_request(server, 0, rq0, cfgs)
                if server:
                    ops += self.hinted("q0.sr:200:-", "sr", "200:-")
                ops += ["gw0:%d" % h, "q0.fi"] + (["gw0:%d" % k] if k else [])
                L.append("out %s %s %s" % (role, cfgs, " ".join(ops)))
            for _ in range(60 if big else 20):
                wc = rng.choice([0, 1, 2, 3, 5, 7, 20])
                cfgs = base_cfg(server, "wc=%d" % wc)
                ops = up(server, wc) + open_request(server, 0, rq0, cfgs)
                if server:
                    ops += self.hinted("q0.sr:200:-", "sr", "200:-")
                ops += ["gw0:%d" % h]
                if rng.random() < 0.5:
                    ops.append("q0.sd:" + hx(body(rng.choice([0, 1, 2, 5]), rng)))
                    ops.append("gw0:10")
                ops += ["q0.fi"] + drip(0, rng.randrange(0, 22))
                # a second request: its `finish` has no grease frame any more
                if rng.random() < 0.3:
                    ops += ["gw0:100"] + open_request(server, 4, rq0, cfgs) + ["gw4:%d" % (h + 100), "q4.fi"]
                L.append("out %s %s %s" % (role, cfgs, " ".join(ops)))

        # (b) several DATA frames and trailers on one request stream, credit in small grants in between and after
        for _ in range(240 if big else 80):
            server = rng.random() < 0.6
            role = "server" if server else "client"
            wc = rng.choice([0, 1, 2, 3, 5, 7, 20, 26, 27, 100])
            cfgs = base_cfg(server, "wc=%d" % wc)
            ops = up(server, wc) + ["gw0:%d" % rng.choice([0, 40, 100])] * (0 if server else 1)
            ops += open_request(server, 0, rng.choice(REQUESTS), cfgs)
            calls = []
            if server:
                rs = rng.choice(RESPONSES)
                calls.append(self.hinted("q0.sr:%s" % rs, "sr", rs))
            for _ in range(rng.choice([2, 2, 3, 4])):
                calls.append(["q0.sd:" + hx(body(rng.choice([0, 1, 2, 5, 17, 63, 64, 100]), rng))])
            tr = rng.choice(TRAILERS)
            calls.append(self.hinted("q0.st:%s" % tr, "st", tr))
            calls.append(["q0.fi"])
            for c in calls:
                ops += c
                r = rng.random()
                if r < 0.5:
                    ops += drip(0, rng.randrange(1, 30))
                elif r < 0.8:
                    ops.append("gw0:%d" % rng.choice([40, 100, 200]))
            r = rng.random()
            if r < 0.4:
                ops.append("gw0:100000")
            elif r < 0.7:
                ops += drip(0, rng.randrange(1, 60))
            L.append("out %s %s %s" % (role, cfgs, " ".join(ops)))

        # (c) the grease stream: no uni-stream credit when `poll_grease_stream` first runs, credit granted later; it is
        #     polled again only together with the next frame on the peer's control stream, so is its write under `wc`
        for _ in range(180 if big else 60):
            server = rng.random() < 0.5
            role = "server" if server else "client"
            main = "conn.A" if server else "drv.W"
            ctl = 2 if server else 3
            gsid = 15 if server else 14
            uc = rng.choice([0, 3, 3, 3, 4])
            wc = rng.choice([None, 0, 1, 2, 5, 7, 8, 9, 12, 16, 17, 20])
            cfgs = base_cfg(server, "uc=%d" % uc, "wc=%d" % wc if wc is not None else "")
            ops = (["gu3"] if uc == 0 else []) + (up(server, wc) if wc is not None else [])
            goaway = [0x3c]

            def ctl_frame():
                # frames the endpoint accepts on the peer's control stream after SETTINGS: a server ignores CANCEL_PUSH and
                # MAX_PUSH_ID, a client takes GOAWAY with request ids that do not grow
                if server:
                    return "s%d:%s" % (ctl, rng.choice(["0d0100", "030100", "0d0105"]))
                goaway[0] = max(0, goaway[0] - 4 * rng.randrange(0, 3))
                return "s%d:0701%02x" % (ctl, goaway[0])

            head = ["o%d" % ctl, "s%d:000400" % ctl, main]
            rng.shuffle(head) if rng.random() < 0.2 and head.index("o%d" % ctl) < head.index("s%d:000400" % ctl) else None
            ops += head
            for _ in range(rng.randrange(1, 7)):
                r = rng.random()
                if r < 0.3:
                    ops.append("gu%d" % rng.randrange(1, 3))
                elif r < 0.6:
                    ops.append("gw%d:%d" % (gsid, rng.choice([1, 2, 3, 7, 100])))
                else:
                    ops.append(ctl_frame())
            if rng.random() < 0.5:
                ops += ["gu1", "gw%d:100" % gsid, ctl_frame()]
            if rng.random() < 0.3:
                # a request afterwards (a client that has seen GOAWAY refuses to send one)
                ops += open_request(server, 0, rq0, cfgs) + ["gw0:100", "q0.fi", "gw0:%d" % rng.choice([3, 100])]
            L.append("out %s %s %s" % (role, cfgs, " ".join(ops)))

        # (e) the grease stream blocked INSIDE its 8-byte stream type: k = 0..8 bytes taken, then Pending; a second control frame
        #     (MAX_PUSH_ID / CANCEL_PUSH to a server, GOAWAY to a client) arrives while it is blocked — `poll_grease_stream`
        #     runs again; then more credit and a third frame let it complete.  A stream finished in between has a truncated
        #     stream type (seeded change C14/patch3: `DataSent` set before the result of the flush is looked at).
        for server in (True, False):
            role = "server" if server else "client"
            main = "conn.A" if server else "drv.W"
            ctl = 2 if server else 3
            gsid = 15 if server else 14
            frames = ["0d0100", "030100", "0d0105"] if server else ["07013c", "070138", "070138"]
            for k in range(0, 9):
                for via in ("wc", "gw"):
                    if via == "gw" and k == 0:
                        continue
                    wc = k if via == "wc" else 0
                    cfgs = "g1,wc=%d" % wc
                    head = up(server, wc) + ["o%d" % ctl, "s%d:000400" % ctl, main] + (["gw%d:%d" % (gsid, k)] if via == "gw" else [])
                    for second in frames[:2]:
                        blocked = head + ["s%d:%s" % (ctl, second)]
                        L.append("out %s %s %s" % (role, cfgs, " ".join(blocked)))
                        L.append("out %s %s %s" % (role, cfgs, " ".join(blocked + ["s%d:%s" % (ctl, frames[2])])))
                        L.append("out %s %s %s" % (role, cfgs, " ".join(blocked + ["gw%d:100" % gsid])))
                        L.append("out %s %s %s" % (role, cfgs, " ".join(blocked + ["gw%d:100" % gsid, "s%d:%s" % (ctl, frames[2])])))
                        L.append("out %s %s %s" % (role, cfgs, " ".join(blocked + ["gw%d:2" % gsid, "s%d:%s" % (ctl, frames[2]), "gw%d:100" % gsid,
                                                                                     "s%d:%s" % (ctl, frames[2])])))

        # (d) GOAWAY queued behind a SETTINGS frame that is only partly written: `shutdown` is called as soon as the builder
        #     returns, the credit of the control stream comes in small grants and stops anywhere
        for _ in range(120 if big else 40):
            server = rng.random() < 0.5
            role = "server" if server else "client"
            own = [3, 7, 11] if server else [2, 6, 10]
            wc = rng.choice([0, 1, 2, 3, 5, 7, 20, 26, 27])
            cfgs = base_cfg(server, "wc=%d" % wc)
            shut = "conn.S:%d" % rng.randrange(0, 3) if server else "drv.S"
            ops = [shut]
            if wc == 0:
                ops += ["gw%d:1" % own[1], "gw%d:1" % own[2]]
            rng.shuffle(ops)
            ops += drip(own[0], rng.randrange(0, 56))
            if rng.random() < 0.3:
                ops += [shut] + drip(own[0], rng.randrange(0, 8))
            L.append("out %s %s %s" % (role, cfgs, " ".join(ops)))
        return L

    def cases(self, tier, rng):
        return self.wbuf_cases(tier, rng) + self.chunk_cases(tier, rng) + self.sdc_cases(tier, rng) + self.out_cases(tier, rng) + self.grease_backpressure_cases(tier, rng)

    def extra(self, tier, rng, ctx):
        # latent, outside the property's quantifier (h3 never sends PUSH_PROMISE and has no API to
        # build one): re-observed on the real code on every run, proved for the model as
        # C14_push_promise_latent
        rc, out, err = vlib.run_lines(vlib.RUN, ["wbuf pp:134:aabbcc -"])
        if rc == 0 and out and out[0].startswith("all=05054086aabbccaabbcc"):
            return [("note", "latent (not a C14 violation): WriteBuf::from(Frame::PushPromise) carries the field section twice "
                             "(`05 05 4086 aabbcc aabbcc`: PushPromise::encode copies it into the header array and payload() yields "
                             "it again); h3 never sends PUSH_PROMISE", {})]
        return []

    # ------------------------------------------------------------- statistics / shrinking
    def klass(self, line, impl):
        w = line.split()
        if w[0] == "wbuf":
            kind = w[1].split(":")[0]
            return "wbuf/%s/%s" % (kind, "panic" if impl.startswith("panic") else impl.split("=")[0].split(" ")[0])
        if w[0] == "sdc":
            npay = len([t for t in w[4:] if not t.startswith("#")])
            return "sdc/%s/%s/%s/payloads=%d" % (w[1], "ample" if w[3] == "-" else "credit", "fin" if ",fin" in impl else
                                                ("pending" if "pending" in impl else impl.split(" ")[0][:12]), npay)
        cfg = w[2]
        grease = "g1" in cfg.split(",")
        limited = any(k in cfg for k in ("wc=", "uc=", "bc="))
        # how the logs are compared: literal bytes (grease off), shapes with the reserved ids masked (grease on), and of those
        # the runs under credit limits (`shape-credit`: byte counts depend on the ids being 8-byte varints on both sides)
        mode = "literal" if not grease else ("shape-credit" if limited else "shape")
        lim = "lim" if limited else "unl"
        pend = "pend" if "pending=[" in impl and "pending=[]" not in impl else "done"
        feat = ""
        toks = [t for t in impl.split() if ":sh=" in t]
        uni = [t.split(":sh=", 1)[1] for t in toks if int(t.split(":", 1)[0]) % 4 >= 2]
        bidi = [t.split(":sh=", 1)[1].split(",")[0] for t in toks if int(t.split(":", 1)[0]) % 4 < 2]
        if any(u.startswith("TG") or u.startswith("~g") for u in uni):
            feat += "+greasestream"
        if any(u.startswith("~g") or u.startswith("TG/~") or u.split(",")[0] == "TG" for u in uni):
            feat += "+greasestreamcut"
        if any("G(" in b for b in bidi):
            feat += "+greaseframe"
        if any(b.split("/")[-1].startswith(("~g", "~G:")) for b in bidi):
            feat += "+greaseframecut"
        if "~S:" in impl:
            feat += "+settingscut"

        def datas_then_headers(b):
            kinds = [f.lstrip("~").split("(")[0].split(":")[0] for f in b.split("/") if f]
            return kinds.count("0") >= 2 and "1" in kinds[len(kinds) - kinds[::-1].index("0"):]
        if any(datas_then_headers(b) for b in bidi):
            feat += "+multidata-trailers"
        if ",writing" in impl:
            feat += "+midwrite"
        # the calls of the second audit (by what the line does, and `rst=` by what the implementation did)
        ops = w[3:]
        if ",rst=" in impl:
            feat += "+rst"
        if any(re.match(r"x\d+:", o) for o in ops):
            feat += "+peerstop"
        if any(o.endswith(".sp") for o in ops):
            feat += "+split"
        if any(o.endswith((".kill", ".kill?")) for o in ops):
            feat += "+kill"
        if any(o.endswith(".cl") for o in ops):
            feat += "+clone"
        if any(".R:CONNECT" in o for o in ops):
            feat += "+connect"
        if any(re.search(r"\.S:\d{3,}$", o) for o in ops):
            feat += "+bigshutdown"
        return "out/%s/%s/%s/%s/%s%s" % (w[1], mode, lim, impl.split(" ")[0].split(":")[0], pend, feat)

    def trivial(self, line, impl):
        if line.startswith("wbuf"):
            return not impl.startswith("all=")
        if line.startswith("sdc"):
            return not impl.startswith("0:tx=")
        ops = line.split()[3:]
        if re.search(r"(^| )1[45]:sh=[^- ]", impl):
            return False    # h3 has opened its grease stream and written on it
        return not any(o.split(".")[-1].split(":")[0] in ("R", "sr", "sd", "st", "fi", "S", "rs") for o in ops if "." in o)

    def shrink_candidates(self, line):
        w = line.split()
        out = []
        if w[0] == "wbuf":
            pats = w[2].split(",")
            for i in range(len(pats)):
                rest = pats[:i] + pats[i + 1:]
                out.append("wbuf %s %s" % (w[1], ",".join(rest) if rest else "-"))
            if ":" in w[1]:
                k, a = w[1].rsplit(":", 1)
                if len(a) > 2 and all(c in "0123456789abcdef" for c in a) and k.split(":")[-1] in ("data", "headers"):
                    out.append("wbuf %s:%s %s" % (k, a[:len(a) // 4 * 2] or "-", w[2]))
            return out
        if w[0] == "sdc":
            pays = [i for i, t in enumerate(w) if i >= 4 and not t.startswith("#")]
            for i in pays:
                if len(pays) > 1:
                    out.append(" ".join(w[:i] + w[i + 1:]))
            gs = w[3].split(",")
            for i in range(len(gs)):
                rest = gs[:i] + gs[i + 1:]
                out.append(" ".join(w[:3] + [",".join(rest) if rest else "-"] + w[4:]))
            return out
        ops = w[3:]
        i = 0
        while i < len(ops):
            j = i + 2 if ops[i].startswith("#") and i + 1 < len(ops) else i + 1
            out.append(" ".join(w[:3] + ops[:i] + ops[j:]))
            i = j
        for i, o in enumerate(ops):
            if ".sd:" in o:
                t, h = o.split(".sd:")
                if h != "-" and len(h) > 2:
                    out.append(" ".join(w[:3] + ops[:i] + ["%s.sd:%s" % (t, h[:len(h) // 4 * 2] or "-")] + ops[i + 1:]))
        cfgs = w[2].split(",")
        for i in range(len(cfgs)):
            rest = cfgs[:i] + cfgs[i + 1:]
            out.append(" ".join(w[:2] + [",".join(rest) if rest else "-"] + ops))
        return out


PROP = C14()
