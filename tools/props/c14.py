import atexit
import subprocess

import vlib
from vlib import Prop
from props.c16 import hx

SIZES = [0, 1, 2, 63, 64, 16383, 16384]
IDS = [0, 1, 4, 63, 64, 300, 16383, 16384, 2**30 - 1, 2**30, 2**62 - 1]
GRANTS = [1, 2, 3, 7, 100]
SETTING_IDS = [1, 6, 7, 8, 0x33, 0x2B603742, 0x2B603743, 0x21, 0x21 + 31 * 5, 0x40, 0xFFD277]

# requests / responses / trailers the programs use: (op argument)
REQUESTS = [
    "GET:68747470733a2f2f612f:-",                                     # GET https://a/
    "POST:68747470733a2f2f6578616d706c652e636f6d2f75706c6f6164:content-type=746578742f706c61696e",
    "GET:68747470733a2f2f612f783f793d7a:x-a=31;x-a=32;accept=2a2f2a",
]
RESPONSES = ["200:-", "404:content-length=30", "200:server=6833;x-long=" + "61" * 70]
TRAILERS = ["-", "x-t=31", "x-t=31;x-u=" + "62" * 40]


def varint_at(bs, i):
    n = 1 << (bs[i] >> 6)
    v = bs[i] & 0x3F
    for k in range(1, n):
        v = v * 256 + bs[i + k]
    return v, i + n


def unhex(h):
    return [] if h == "-" else [int(h[i:i + 2], 16) for i in range(0, len(h), 2)]


def body(n, rng):
    if n <= 64:
        return [rng.randrange(256) for _ in range(n)]
    a, b = rng.randrange(256), rng.randrange(1, 256)
    return [(a + i * b) % 256 for i in range(n)]


class LeanSide:
    """One long-lived `h3drv` used by `project`: the harness' per-stream byte logs are judged by
    the Lean specification (engine `outlog`) and re-rendered in the form the model prints."""

    def __init__(self):
        self.p = None

    def ask(self, line):
        for attempt in (0, 1):
            if self.p is None or self.p.poll() is not None:
                self.p = subprocess.Popen([vlib.DRV], stdin=subprocess.PIPE, stdout=subprocess.PIPE, text=True)
            try:
                self.p.stdin.write(line + "\n")
                self.p.stdin.flush()
                r = self.p.stdout.readline()
                if r:
                    return r.rstrip("\n")
            except (BrokenPipeError, OSError):
                pass
            self.p = None
        return "outlog-failed"

    def close(self):
        if self.p is not None and self.p.poll() is None:
            try:
                self.p.stdin.close()
                self.p.wait(timeout=5)
            except Exception:
                self.p.kill()
        self.p = None


LEAN = LeanSide()
atexit.register(LEAN.close)


class C14(Prop):
    id = "C14"
    thorough_rounds = 6   # thorough tier: this many independently seeded rounds of the random generators (duplicates dropped)
    modules = ["H3.Props.C14", "H3.Lemmas.GenAgreeSend"]
    engines = ["wbuf", "out"]
    design_ref = "DESIGN.md section 7, C14; section 9, R-14"
    level_text = ("Lean theorems over models of WriteBuf (fixed header array + payload, its From conversions and Buf impl), "
                  "Frame::encode, stream::write against an acceptance script, and of what each API call writes on which stream "
                  "(small-step machine: API calls and single transport polls in any order): for every frame and every script the "
                  "bytes handed to the transport are header ++ payload, once, in order, remaining exact; every frame header reads "
                  "back under the RFC 9000/9114 parser as (type, length = bytes that follow); for every run of the machine in "
                  "either role, every configuration and every acceptance pattern each stream's byte log satisfies the RFC 9114 "
                  "validity predicate (prefix-valid while open, whole frames at FIN); grease ids are 31N+33 < 2^62 and never a "
                  "defined or HTTP/2-reserved id")
    level_note = ("trusted: Lean kernel + 3 standard axioms; hand models tied to the code by (a) the real WriteBuf built through "
                  "its From impls and consumed through its Buf impl under the same patterns (engine wbuf), (b) real h3 "
                  "server/client objects over SimQuic under random API programs x configurations x write-credit patterns (engine "
                  "out): with grease off the per-stream byte logs are predicted literally, with grease on their shape; on every "
                  "run every log the harness prints is judged by the Lean specification (RFC segmenter, not h3's encoder). QPACK "
                  "field sections are opaque (C11), GOAWAY id choice is C08's, Config->Settings details are C13's")
    rule = ("cases: wbuf = every frame kind x payload sizes 0,1,2,63,64,16383,16384 x ids at every varint boundary x patterns "
            "(bytewise, zeros interleaved, random, bare advance across the header end); out = random API programs in both roles "
            "(1-3 requests, send_data sizes 0,1,2,63,64,16383,16384 and a few KiB, trailers, finish, shutdown(n), drops) x "
            "g0/g1, wt, ec, dg, mfs, wts x write credit wc=0..k with grants of 1,2,3,7,100 bytes interleaved, uni/bidi stream "
            "credit withheld and granted; non-trivial = the implementation wrote at least one frame beyond the three stream "
            "headers (out) / returned bytes (wbuf)")
    trusted = ["bytes::Bytes Buf impl for payloads", "SimQuic's poll_ready loop respects the Buf contract (chunk, advance <= chunk length)",
               "field-section annotations (#fs) are obtained from the real encoder by a probe run and are inputs of the model"]
    assumptions = ["R-14: API programs are sequences of calls each awaited to completion; a send future dropped in mid-write is outside the model",
                   "after FIN the transport refuses further writes (RFC 9000 §3.1); programs do not call send_* after finish on the same stream",
                   "payload Buf is contiguous (Bytes)"]

    def __init__(self):
        self.fs_cache = {}
        self.reqframe = None

    # ------------------------------------------------------------- projection
    def project(self, line, impl):
        if not line.startswith("out ") or " | " not in impl:
            return impl
        w = line.split()
        summary = impl.split(" | ", 1)[1]
        r = LEAN.ask("outlog %s %s %s" % (w[1], w[2], summary))
        return r.split(" ## ")[0].strip()

    # ------------------------------------------------------------- probes
    def probe_tx(self, line, sid):
        rc, out, err = vlib.run_lines(vlib.RUN, [line])
        if rc != 0 or not out or " | " not in out[0]:
            return None
        for t in out[0].split(" | ", 1)[1].split():
            if t.startswith("%d:tx=" % sid):
                return unhex(t.split("=", 1)[1].split(",")[0])
        return None

    def request_frame(self, arg):
        """the HEADERS frame the real client writes for this request (used as the peer's input in server programs)"""
        k = ("reqframe", arg)
        if k not in self.fs_cache:
            self.fs_cache[k] = self.probe_tx("out client g0 snd.R:" + arg, 0) or []
        return self.fs_cache[k]

    def fs_of(self, kind, arg, extra=""):
        """field section the real code produces for a header-sending call: payload of the first HEADERS frame it writes"""
        k = (kind, arg, extra)
        if k in self.fs_cache:
            return self.fs_cache[k]
        rq = hx(self.request_frame(REQUESTS[0]))
        if kind == "R":
            tx = self.probe_tx("out client g0 snd.R:" + arg, 0)
        elif kind == "sr":
            tx = self.probe_tx("out server g0 o0 s0:%s conn.A q0.res q0.sr:%s" % (rq, arg), 0)
        elif kind == "st":
            tx = self.probe_tx("out server g0 o0 s0:%s conn.A q0.res q0.st:%s" % (rq, arg), 0)
        else:  # "res": the 431 answer, if the configuration `extra` makes the request too large
            tx = self.probe_tx("out server %s o0 s0:%s conn.A q0.res" % (extra, hx(self.request_frame(arg))), 0)
        fs = None
        if tx and tx[0] == 1:
            n, i = varint_at(tx, 1)
            fs = tx[i:i + n]
        self.fs_cache[k] = fs
        return fs

    def hinted(self, op, kind, arg, extra=""):
        fs = self.fs_of(kind, arg, extra)
        return (["#fs:" + hx(fs)] if fs is not None else []) + [op]

    # ------------------------------------------------------------- generators
    def wbuf_cases(self, tier, rng):
        big = tier == "thorough"
        L = []
        descs = []
        for n in SIZES + [5, 100, 3000]:
            descs.append("data:" + hx(body(n, rng)))
            descs.append("headers:" + hx(body(n, rng)))
        for v in IDS:
            descs += ["goaway:%d" % v, "cancel:%d" % v, "maxpush:%d" % v, "wtf:%d" % v, "wtu:%d" % v, "wtb:%d" % v,
                      "st:%d" % v, "st:%d" % (31 * v + 33 if 31 * v + 33 < 2**62 else 33)]
            descs.append("pp:%d:%s" % (v, hx(body(rng.choice([0, 1, 5, 20]), rng))))
            descs.append("pair:%d:goaway:%d" % (rng.choice(IDS), v))
            descs.append("pair:%d:data:%s" % (31 * (v % 1000) + 33, hx(body(rng.choice([0, 3, 64]), rng))))
        descs += ["enc", "dec", "st:4611686018427387904", "goaway:4611686018427387904", "wtu:4611686018427387904",
                  "settings:-", "ctl:-", "settings:1=1;1=2", "settings:" + ";".join("%d=0" % (100 + i) for i in range(9))]
        for _ in range(60 if big else 25):
            ids = rng.sample(SETTING_IDS, rng.randrange(0, 8))
            es = ";".join("%d=%d" % (i, rng.choice(IDS)) for i in ids) or "-"
            descs.append("settings:" + es)
            descs.append("ctl:" + es)
            descs.append("pair:0:settings:" + es)
        # the six entries every Config yields, at their largest
        cfgmax = "%d=0;6=%d;8=1;727725890=1;51=1;727725891=%d" % (2**62 - 2, 2**62 - 1, 2**62 - 1)
        descs += ["ctl:" + cfgmax, "settings:" + cfgmax]
        for d in descs:
            pats = ["-", "1", ",".join(["1"] * 80), "0,1,0,0,2,0,3", "100000", "3,100000", "a1,a1,1", "a2,100", "a3", "a9", "a64,1", "a70"]
            for _ in range(6 if big else 3):
                pats.append(",".join(str(rng.choice([0, 1, 1, 2, 3, 7, 100])) for _ in range(rng.randrange(1, 14))))
            if rng.random() < 0.5:
                pats.append(",".join(rng.choice(["a%d" % rng.randrange(0, 12), str(rng.randrange(0, 9))]) for _ in range(rng.randrange(1, 6))))
            for p in pats:
                L.append("wbuf %s %s" % (d, p))
        return L

    def cfg(self, rng, server, grease, limited):
        parts = ["g1" if grease else "g0"]
        if rng.random() < 0.6:
            parts.append("mfs=%d" % rng.choice([0, 63, 64, 16383, 16384, 2**30, 2**62 - 1, 200]))
        for k in ("ec", "dg") + (("wt",) if server else ()):
            if rng.random() < 0.4:
                parts.append("%s=%d" % (k, rng.randrange(2)))
        if server and rng.random() < 0.3:
            parts.append("wts=%d" % rng.choice([0, 1, 64, 2**62 - 1]))
        if rng.random() < 0.5:
            parts.append("seed=%d" % rng.randrange(1, 1000))
        if limited:
            r = rng.random()
            if r < 0.8:
                parts.append("wc=%d" % rng.choice([0, 0, 1, 2, 3, 5, 7, 20, 26, 27, 100]))
            if r > 0.6 or rng.random() < 0.2:
                parts.append("uc=%d" % rng.randrange(0, 5))
            if not server and rng.random() < 0.25:
                parts.append("bc=%d" % rng.randrange(0, 2))
        return ",".join(parts)

    def program(self, rng, server, cfgs, limited, big_bodies):
        ops = []
        own = [3, 7, 11, 15] if server else [2, 6, 10, 14]
        peer_ctl = 2 if server else 3
        sids = []

        def grants(n=1):
            g = []
            for _ in range(n):
                r = rng.random()
                if r < 0.7:
                    sid = rng.choice(own[:3] + sids + sids) if sids else rng.choice(own[:3])
                    g.append("gw%d:%d" % (sid, rng.choice(GRANTS + [1, 1, 40, 20000])))
                elif r < 0.85:
                    g.append("gu%d" % rng.randrange(1, 4))
                else:
                    g.append("gb1")
            return g

        def maybe_grants():
            if limited and rng.random() < 0.6:
                ops.extend(grants(rng.randrange(1, 5)))

        if limited and rng.random() < 0.7:
            # let the connection come up (or not quite)
            ops.extend(["gu3"] if rng.random() < 0.7 else [])
            ops.extend(["gw%d:%d" % (s, rng.choice([1, 30, 100])) for s in own[:3] if rng.random() < 0.9])
        if rng.random() < 0.5:
            ops += ["o%d" % peer_ctl, "s%d:000400" % peer_ctl]
            if not server and rng.random() < 0.8:
                ops.append("drv.W")
            elif server and rng.random() < 0.15:
                ops.append("conn.A")
        nreq = rng.choice([1, 1, 2, 3])
        main = "conn" if server else "drv"
        for i in range(nreq):
            sid = 4 * i
            sids.append(sid)
            rq = rng.choice(REQUESTS)
            if server:
                ops += ["o%d" % sid, "s%d:%s" % (sid, hx(self.request_frame(rq)))]
                if rng.random() < 0.3:
                    ops.append("f%d" % sid)
                ops.append("conn.A")
                maybe_grants()
                mfs_cfg = ",".join(p for p in cfgs.split(",") if p.startswith("mfs=")) or "g0"
                ops += self.hinted("q%d.res" % sid, "res", rq, mfs_cfg)
            else:
                ops += self.hinted("snd.R:" + rq, "R", rq)
            maybe_grants()
            calls = []
            if server and rng.random() < 0.9:
                rs = rng.choice(RESPONSES)
                calls.append(self.hinted("q%d.sr:%s" % (sid, rs), "sr", rs))
            for _ in range(rng.choice([0, 1, 1, 2, 3])):
                n = rng.choice(SIZES[:5] + ([rng.choice([16383, 16384, 3000, 5000])] if big_bodies else [5, 17, 100]))
                calls.append(["q%d.sd:%s" % (sid, hx(body(n, rng)))])
            if rng.random() < 0.4:
                tr = rng.choice(TRAILERS)
                calls.append(self.hinted("q%d.st:%s" % (sid, tr), "st", tr))
            if rng.random() < 0.25:
                rng.shuffle(calls)   # any order: data before the response, trailers first, ...
            r = rng.random()
            if r < 0.7:
                calls.append(["q%d.fi" % sid])
                if rng.random() < 0.1:
                    calls.append(["q%d.fi" % sid])
            elif r < 0.8:
                calls.append(["q%d.dr" % sid])
            for c in calls:
                ops += c
                maybe_grants()
            if rng.random() < 0.35:
                ops.append("%s.S:%d" % (main, rng.randrange(0, 3)) if server else "drv.S")
                maybe_grants()
                if server:
                    # which later arrivals a server that is shutting down still accepts, and when
                    # `accept` then returns `None`, is C08's/C09's subject: no new requests here
                    if rng.random() < 0.5:
                        ops.append("conn.S:%d" % rng.randrange(0, 3))
                    break
        r = rng.random()
        if r < 0.3:
            ops.append("%s.S:%d" % (main, rng.randrange(0, 3)) if server else "drv.S")
        elif r < 0.4:
            ops.append(main + ".D")
        elif r < 0.45 and not server:
            ops.append("snd.dr")
        if limited and rng.random() < 0.6:
            # enough credit for everything that is still waiting
            ops += ["gu4", "gb3"] + ["gw%d:100000" % s for s in own + sids]
            if rng.random() < 0.5:
                ops += ["gw%d:100000" % s for s in sids]
        return ops

    def out_cases(self, tier, rng):
        big = tier == "thorough"
        L = []
        # fixed smoke programs
        for role in ("client", "server"):
            L.append("out %s g0" % role)
            L.append("out %s g1" % role)
            L.append("out %s g0,wc=0" % role)
            L.append("out %s g0,wc=0 %s" % (role, " ".join("gw%d:1" % s for s in ([3, 7, 11] if role == "server" else [2, 6, 10]) * 30)))
            L.append("out %s g0,uc=0 gu1 gu1 gu1" % role)
        # the peer goes away while nothing is in progress: `accept` sends a last GOAWAY itself
        for i in range(120 if big else 30):
            limited = rng.random() < 0.5
            cfgs = self.cfg(rng, True, rng.random() < 0.3, limited)
            ops = []
            if limited:
                ops += ["gu3"] + ["gw%d:%d" % (s, rng.choice([1, 30, 100])) for s in (3, 7, 11)]
            ops += ["o2", "s2:000400"]
            tail = ["s2:0701%02x" % rng.choice([0, 1, 4, 63]), "conn.A"]
            for _ in range(rng.randrange(0, 3)):
                tail.insert(rng.randrange(0, len(tail) + 1), rng.choice(["conn.S:%d" % rng.randrange(0, 3), "conn.A", "gw3:%d" % rng.choice(GRANTS)]))
            ops += tail
            if limited:
                ops += ["gw3:%d" % rng.choice(GRANTS + [100000]) for _ in range(rng.randrange(0, 4))]
            L.append("out server %s %s" % (cfgs, " ".join(ops)))
        n = 40000 if big else 6000
        for i in range(n):
            server = rng.random() < 0.5
            grease = rng.random() < 0.4
            limited = rng.random() < 0.65
            cfgs = self.cfg(rng, server, grease, limited)
            ops = self.program(rng, server, cfgs, limited, big_bodies=(i % 12 == 0))
            L.append("out %s %s %s" % ("server" if server else "client", cfgs, " ".join(ops)))
        return L

    def cases(self, tier, rng):
        return self.wbuf_cases(tier, rng) + self.out_cases(tier, rng)

    def extra(self, tier, rng, ctx):
        # latent, outside the property's quantifier (h3 never sends PUSH_PROMISE and has no API to
        # build one): re-observed on the real code on every run, proved for the model as
        # C14_push_promise_latent
        rc, out, err = vlib.run_lines(vlib.RUN, ["wbuf pp:134:aabbcc -"])
        if rc == 0 and out and out[0].startswith("all=05054086aabbccaabbcc"):
            return [("note", "latent (not a C14 violation): WriteBuf::from(Frame::PushPromise) carries the field section twice "
                             "(`05 05 4086 aabbcc aabbcc`: PushPromise::encode copies it into the header array and payload() yields "
                             "it again); h3 never sends PUSH_PROMISE", {})]
        return []

    # ------------------------------------------------------------- statistics / shrinking
    def klass(self, line, impl):
        w = line.split()
        if w[0] == "wbuf":
            kind = w[1].split(":")[0]
            return "wbuf/%s/%s" % (kind, "panic" if impl.startswith("panic") else impl.split("=")[0].split(" ")[0])
        cfg = w[2]
        mode = "g1" if "g1" in cfg.split(",") else "g0"
        lim = "lim" if any(k in cfg for k in ("wc=", "uc=", "bc=")) else "unl"
        pend = "pend" if "pending=[]" not in impl and not impl.startswith("valid") or ("pending=[" in impl and "pending=[]" not in impl) else "done"
        feat = ""
        if ":sh=TG" in impl:
            feat += "+greasestream"
        if "/G(" in impl:
            feat += "+greaseframe"
        if ",writing" in impl:
            feat += "+midwrite"
        return "out/%s/%s/%s/%s/%s%s" % (w[1], mode, lim, impl.split(" ")[0].split(":")[0], pend, feat)

    def trivial(self, line, impl):
        if line.startswith("wbuf"):
            return not impl.startswith("all=")
        ops = line.split()[3:]
        return not any(o.split(".")[-1].split(":")[0] in ("R", "sr", "sd", "st", "fi", "S") for o in ops if "." in o)

    def shrink_candidates(self, line):
        w = line.split()
        out = []
        if w[0] == "wbuf":
            pats = w[2].split(",")
            for i in range(len(pats)):
                rest = pats[:i] + pats[i + 1:]
                out.append("wbuf %s %s" % (w[1], ",".join(rest) if rest else "-"))
            if ":" in w[1]:
                k, a = w[1].rsplit(":", 1)
                if len(a) > 2 and all(c in "0123456789abcdef" for c in a) and k.split(":")[-1] in ("data", "headers"):
                    out.append("wbuf %s:%s %s" % (k, a[:len(a) // 4 * 2] or "-", w[2]))
            return out
        ops = w[3:]
        i = 0
        while i < len(ops):
            j = i + 2 if ops[i].startswith("#") and i + 1 < len(ops) else i + 1
            out.append(" ".join(w[:3] + ops[:i] + ops[j:]))
            i = j
        for i, o in enumerate(ops):
            if ".sd:" in o:
                t, h = o.split(".sd:")
                if h != "-" and len(h) > 2:
                    out.append(" ".join(w[:3] + ops[:i] + ["%s.sd:%s" % (t, h[:len(h) // 4 * 2] or "-")] + ops[i + 1:]))
        cfgs = w[2].split(",")
        for i in range(len(cfgs)):
            rest = cfgs[:i] + cfgs[i + 1:]
            out.append(" ".join(w[:2] + [",".join(rest) if rest else "-"] + ops))
        return out


PROP = C14()
