import itertools
import re

from vlib import Prop
from props.c16 import hx
from props.c02 import varint, safe_varint

CODES = {
    "H3_NO_ERROR": 0x100, "H3_GENERAL_PROTOCOL_ERROR": 0x101, "H3_INTERNAL_ERROR": 0x102,
    "H3_STREAM_CREATION_ERROR": 0x103, "H3_CLOSED_CRITICAL_STREAM": 0x104, "H3_FRAME_UNEXPECTED": 0x105,
    "H3_FRAME_ERROR": 0x106, "H3_EXCESSIVE_LOAD": 0x107, "H3_ID_ERROR": 0x108, "H3_SETTINGS_ERROR": 0x109,
    "H3_MISSING_SETTINGS": 0x10a, "H3_REQUEST_REJECTED": 0x10b, "H3_REQUEST_CANCELLED": 0x10c,
    "H3_REQUEST_INCOMPLETE": 0x10d, "H3_MESSAGE_ERROR": 0x10e, "H3_CONNECT_ERROR": 0x10f,
    "H3_VERSION_FALLBACK": 0x110,
}


def canon_result(r):
    """`err:local:H3_FRAME_UNEXPECTED` -> `err:261`; everything else unchanged"""
    m = re.match(r"^err:local:(\w+)$", r)
    if m and m.group(1) in CODES:
        return "err:%d" % CODES[m.group(1)]
    return r


def project(line, impl):
    """Raw scenario output -> `closed=[codes] res=<A/W results> U=<U results> | build=… stops=[…] g=… pending=[…]`.
    Everything h3 writes (random grease ids, SETTINGS: C13/C14) is projected away; of h3's own
    grease stream only its state is kept."""
    if " | " not in impl:
        return impl
    w = line.split()
    server = w[1] == "server"
    task = "conn" if server else "drv"
    trace, summary = impl.split(" | ", 1)
    res, us, build = [], [], "pending"
    for t in trace.split():
        if "=" not in t:
            continue
        k, v = t.split("=", 1)
        if k == task + ".build":
            build = canon_result(v)
        elif v == "no-task" and build.startswith("err:") and k.startswith(task + "."):
            continue    # the setup failed, the task has ended: commands are not answered
        elif k in ("conn.A", "drv.W"):
            res.append(canon_result(v))
        elif k == task + ".U":
            us.append(v)
        elif v in ("bad-cmd", "no-task"):
            return "unsupported"
    stops, closed, pending, g = [], "closed=[]", "pending=[]", "none"
    gsid = 15 if server else 14
    for t in summary.split():
        if t.startswith("closed="):
            closed = t
        elif t.startswith("pending="):
            pend = [p for p in t[len("pending=["):-1].split(",") if p and not p.startswith("snd")]
            pending = "pending=[%s]" % ",".join(pend)
        else:
            m = re.match(r"^(\d+):tx=([0-9a-f-]*)((?:,[A-Za-z=0-9]+)*)$", t)
            if not m:
                continue
            sid = int(m.group(1))
            flags = [f for f in m.group(3).split(",") if f]
            if sid == gsid:
                g = "fin" if "fin" in flags else "writing" if "writing" in flags else "idle"
            if any(f in ("MISUSE", "OVERLAP") for f in flags):
                return "misuse " + impl
            peer_uni = sid % 4 == (2 if server else 3)
            for f in flags:
                if f.startswith("stop=") and peer_uni:
                    stops.append("%d:%s" % (sid, f[5:]))
    return "%s res=%s U=%s | build=%s stops=[%s] g=%s %s" % (
        closed, ",".join(res) if res else "-", "/".join(us) if us else "-", build, ",".join(stops), g, pending)


# ------------------------------------------------------------------ generators

GREASE_BIG = 0x1f * (2**40 + 7) + 0x21
TYPES = {"ctl": 0x00, "push": 0x01, "enc": 0x02, "dec": 0x03, "wt": 0x54, "g": 0x21, "g2": 0x1f * 3 + 0x21,
         "unk": 0x40, "gbig": GREASE_BIG}
ID_VALUES = [0, 1, 63, 64, 300, 2**14, 2**30 + 5]


def need_form(v):
    return 0 if v < 64 else 1 if v < 2**14 else 2 if v < 2**30 else 3


def forms_for(v):
    return [f for f in range(4) if f >= need_form(v)]


def peer_sids(role):
    return [2, 6, 10, 14] if role == "server" else [3, 7, 11, 15]


def local_sids(role):
    return [3, 7, 11] if role == "server" else [2, 6, 10]


def grease_sid(role):
    return 15 if role == "server" else 14


def start_op(role):
    return "conn.AL" if role == "server" else "drv.W"


def u_op(role):
    return "conn.U" if role == "server" else "drv.U"


def cuts_single(bs):
    """whole, every byte, and one cut at each position"""
    n = len(bs)
    out = [[bs]] if bs else [[]]
    if n > 1:
        out.append([[b] for b in bs])
        for k in range(1, n):
            out.append([bs[:k], bs[k:]])
    return out


def cuts_all(bs):
    n = len(bs)
    if n == 0:
        return [[]]
    res = []
    for mask in range(1 << (n - 1)):
        parts, cur = [], [bs[0]]
        for i in range(1, n):
            if mask >> (i - 1) & 1:
                parts.append(cur)
                cur = []
            cur.append(bs[i])
        parts.append(cur)
        res.append(parts)
    return res


def cuts_random(bs, rng):
    parts, cur = [], []
    p = rng.choice([0.15, 0.4, 0.7])
    for b in bs:
        cur.append(b)
        if rng.random() < p:
            parts.append(cur)
            cur = []
    if cur:
        parts.append(cur)
    return parts


def sends(sid, parts):
    return ["s%d:%s" % (sid, hx(p)) for p in parts if p]


def end_op(sid, ending, code=7):
    if ending == "fin":
        return ["f%d" % sid]
    if ending == "rst":
        return ["r%d:%d" % (sid, code)]
    return []


def line(role, cfg, ops):
    return "ctl %s %s %s" % (role, cfg, " ".join(ops))


def with_api(role, ops, api, tail=()):
    """the driver is started before the peer acts (every op is its own poll) or after (one poll
    sees everything)"""
    st = start_op(role)
    if api == "first":
        return [st] + list(ops) + list(tail)
    return list(ops) + [st] + list(tail)


# control-stream frames -----------------------------------------------------------------------

def fr(ty, payload, tform=None, lform=None):
    return safe_varint(ty, tform) + safe_varint(len(payload), lform) + list(payload)


FRAMES = {
    "S": fr(4, []),
    "S1": fr(4, varint(6) + varint(64)),
    "Sb": fr(4, [2, 0]),                 # HTTP/2 setting id: H3_SETTINGS_ERROR
    "D0": fr(0, []),
    "D2": fr(0, [0xaa, 0xbb]),
    "H": fr(1, [0xaa, 0xbb]),
    "G0": fr(7, [0]),
    "G4": fr(7, [4]),
    "G1": fr(7, [1]),
    "G8": fr(7, [8]),
    "C": fr(3, [1]),
    "M1": fr(0xd, [1]),
    "M0": fr(0xd, [0]),
    "P": fr(5, [1, 0xaa]),
    "h2": fr(2, []),
    "h6": fr(6, [0]),
    "h8": fr(8, [0, 0]),
    "h9": fr(9, []),
    "U": fr(0x21, []),
    "U2": fr(0x21, [0xaa, 0xbb]),
    "Ub": fr(GREASE_BIG, [1]),
    "Un": fr(0x21, [], 1, 2),            # non-minimal type and length forms
    "Sn": fr(4, [], 2, 1),
    "Gn": fr(7, varint(0, 1), 1, 3),
    "X": fr(7, [0, 0]),                  # GOAWAY with a byte too many: malformed
    "Y": fr(0xd, []),                    # MAX_PUSH_ID without its integer: malformed
    "W": varint(0x41) + [0],             # the WebTransport signal value (C19)
}
ALPHA = [k for k in FRAMES if k != "W"]
ALPHA_SMALL = ["S", "D0", "H", "G0", "G4", "C", "M1", "P", "h2", "U", "X", "Sb"]


def ctl_bytes(seq):
    out, bounds = [], [0]
    for k in seq:
        out += FRAMES[k]
        bounds.append(len(out))
    return out, bounds


class C04(Prop):
    id = "C04"
    modules = ["H3.Props.C04", "H3.Lemmas.GenAgreeCtl"]
    engines = ["ctl", "flt"]
    design_ref = "DESIGN.md section 7, C04"
    level_text = ("Lean theorems over models of AcceptRecvStream::{poll_next_varint,poll_type,into_stream}, "
                  "ConnectionInner::{poll_accept_recv,poll_control,poll_grease_stream,process_goaway}, server "
                  "poll_next_control and client poll_close: for every transport script (every chunking, Pending anywhere, "
                  "FIN/RESET anywhere) the resolved stream type and push/session id are the RFC 9000 §16 values, the bytes "
                  "behind the header stay in the buffer, an incomplete header at FIN/RESET is dropped silently, never "
                  "H3_INTERNAL_ERROR; for every history of stream arrivals and control-stream items the first connection "
                  "error is the one the oracle table Spec.ControlRules.verdict demands (the rules the property names, written "
                  "from RFC 9114 §6.2/§7.2, GOAWAY identifier rules included) and there is none where the table has none; the "
                  "rules of server push, which the property's text does not name and h3 does not implement (a push stream, "
                  "CANCEL_PUSH, a MAX_PUSH_ID that goes down), are `may` in that table (reading R-04b) - "
                  "C04_rfc_table_differs_only_on_push: the RFC-by-the-letter table verdictRfc differs from it only there and for the closing of a "
                  "peer QPACK stream (R-04e, C04_qpack_closure_verdicts), and "
                  "the code's departures from the letter on those three are re-observed on the real code and printed as NOTE "
                  "lines by every run; a stream whose type the table calls unknown, or that ends before its type is known, "
                  "never raises an error and leaves the connection state untouched (C04_unknown_stream, against the table); for "
                  "every grease-stream script (poll_open_send/send_data/poll_ready/poll_finish answering pending/ok/err in "
                  "any pattern) every frame the frame layer delivers is handed to the role handler exactly once, in order, and "
                  "the outcome does not depend on the grease script at all (an error on the grease stream is never a connection "
                  "error); a stopped or broken own control stream is H3_CLOSED_CRITICAL_STREAM at the write that meets it (setup, "
                  "shutdown); a client that is handed a server-initiated bidirectional stream raises H3_STREAM_CREATION_ERROR")
    level_note = ("trusted: Lean kernel + 3 standard axioms; hand models tied to the code by running real h3::server/"
                  "h3::client connections over SimQuic on the same scenario lines (engine ctl); the frame layer below "
                  "poll_control is C02's model (FS.pollNext); the scenario environment (SimQuic credits, task mailbox) is "
                  "modelled in the driver; SETTINGS contents are C13's, GOAWAY identifier rules C08's (don't-care in the oracle)")
    rule = ("cases: `ctl` scenario lines: (A) one stream of every type {control, push, encoder, decoder, WT-uni+session id, "
            "grease 1/2/8-byte, 0x40, none} x every length form of type and id varint x payload x {whole, every byte, one cut at "
            "each position (thorough: all cut patterns)} x {open, FIN, RESET} x truncation at every header offset x driver "
            "started first/last, with U; (B) control sequences over a 26-letter alphabet: all of length<=2, all SETTINGS-"
            "prefixed of length 3 (thorough: all of length<=3 and SETTINGS-prefixed 4 over 12 letters), random length 4, x "
            "{open, FIN, RESET} at every frame boundary and inside frames x chunkings; (C) up to 4 streams of 7 kinds, all "
            "kind sequences of length<=3 x all delivery orders, random length 4; (D) grease on/off x stream credit uc=3/4 + "
            "gu<n> at every position x write credit wc=0/5/100 + gw at every position x STOP_SENDING on the grease stream; "
            "both roles; (D'') the grease stream blocked inside its 8-byte stream type (wc=k / gw<grease id>:k, k=1..7, then Pending) x a "
            "second and third control frame x more credit at every later position; (F) the endpoint's OWN streams: x<sid> "
            "(STOP_SENDING) on the own control / QPACK encoder / QPACK decoder stream (and the grease stream) at every position of 8 "
            "peer scripts x g0/g1 x driver started first / anywhere / last, single accept and accept loop; random interleavings "
            "(quick 1500, thorough 6000 per role) of a peer script, stream credit uc=0..4 + gu grants, write credit wc in "
            "{0,1,5,25..30} (grease on: outside the 28..35 window of the random-length SETTINGS) + gw grants on the three own streams "
            "in pieces, x<own sid>, U, second accept, SETTINGS of other lengths (mfs/ec/dg/wt/wts); the server's final GOAWAY "
            "(accept -> shutdown(0)) with exactly the setup's credit: credit byte by byte, STOP_SENDING meanwhile, the accept loop "
            "interrupted by a command, further peer frames meanwhile; (D') stream errors (StreamTerminated, Unknown) injected at poll_open_send / send_data / poll_ready / "
            "poll_finish of the grease stream (and poll_finish answering Pending once) at every position of (D); (E) engine `flt` (tools/props/faults.py): every "
            "transport call of the setup x every ConnectionErrorIncoming / StreamErrorIncoming variant, the same on the own "
            "control stream at shutdown, at poll_accept_recv / poll_accept_bidi / reads of the peer's control stream and of an "
            "untyped stream, on the grease stream, peer close/timeout at every position, a server-initiated bidi stream to a "
            "client; non-trivial = the projected implementation result differs from the idle line (something was "
            "closed, returned, listed, stopped, or the grease stream moved; flt: a fault fired, a close, an error result)")
    trusted = ["SimQuic (harness/src/sim.rs) as the transport contract: in-order delivery, sticky FIN/RESET, non-empty chunks; "
               "injected connection errors are sticky (the connection has failed) and wake every waiting task",
               "the scenario environment part of lean/H3/Drv/C04.lean (credits, build phase, task mailbox) and of "
               "lean/H3/Drv/Fault.lean (fault table, sticky connection error, mailbox)",
               "translator decision tables H3.Gen.CtlArms (arms of ConnectionInner::poll_control before/after SETTINGS, process_goaway, server poll_next_control, client poll_close, per variant of enum Frame) and H3.Gen.UniArms (AcceptRecvStream::into_stream, poll_type, the two matches of poll_accept_recv), re-read from h3/src/connection.rs, h3/src/server/connection.rs, h3/src/client/connection.rs, h3/src/stream.rs on this run (any other shape is refused); tied to the models by H3.Lemmas.GenAgreeCtl (classify_frame, handle_agrees, processGoaway_agrees, intoStream_agrees, needsId_agrees, acceptKind_agrees, acceptArrival_agrees, grease_not_blocking), rebuilt on this run"]
    assumptions = ["transport chunks are non-empty (R-T)", "overlapping rules accept either code (R-04)",
                   "R-04b: the rules of server push (push streams, CANCEL_PUSH, MAX_PUSH_ID going down) are not named by the property's text; "
                   "the oracle accepts no error or the RFC's error there, the departures from RFC 9114 by the letter are printed as NOTE lines",
                   "R-04c: a stopped own control stream is H3_CLOSED_CRITICAL_STREAM at the latest when the endpoint has to write on it "
                   "(SETTINGS at the end of the setup, the server's GOAWAY before accept answers None), allowed from the STOP_SENDING on; "
                   "whether accept's None waits for write credit for that GOAWAY is not constrained (both accepted until the credit is there); "
                   "stopped own QPACK streams: no opinion (no error, or H3_CLOSED_CRITICAL_STREAM)",
                   "R-04d: a RESET of the control stream that arrives before the endpoint has looked at the frames in front of it may overtake "
                   "them (RFC 9000 3.2: undelivered data may be discarded on RESET_STREAM): the frame's own error or H3_CLOSED_CRITICAL_STREAM, "
                   "nothing else; which of the two the code answers depends on the chunking (NOTE line with counts and the witness pair); a frame "
                   "the endpoint has looked at before the RESET came keeps exactly its own error (C04_reset_overtakes_only_unseen_frames)",
                   "R-04e: the closing of the peer's QPACK encoder / decoder stream (RFC 9204 4.2: H3_CLOSED_CRITICAL_STREAM) is not named by the "
                   "property's text: no error or that error are accepted (C04_qpack_closure_verdicts); the code raises none (NOTE line)",
                   "frame type 0x41 on the control stream: `may` (R-03b); the oracle has no opinion on the alternative that went past the frame "
                   "(what follows cannot be read as frames), errors demanded before it stay demanded",
                   "grease on: the control stream header is 28..35 bytes long (random setting id); lines whose control-stream credit stands "
                   "inside that window at an op boundary while SETTINGS are being written have no definite model answer and are not generated",
                   "the application keeps accept()/wait_idle() in flight (the driver is polled when something arrives)",
                   "simultaneously available streams are judged in the order the transport hands them over, then the control stream"]

    def project(self, line, impl):
        return project(line, impl)

    def project_all(self, lines, impls):
        from props import faults
        res = [None] * len(lines)
        idx = [i for i, l in enumerate(lines) if l.startswith("flt")]
        for i, p in zip(idx, faults.project_all([lines[i] for i in idx], [impls[i] for i in idx])):
            res[i] = p
        for i, l in enumerate(lines):
            if res[i] is None:
                res[i] = project(l, impls[i])
        return res

    # -------------------------------------------------------------- families

    def fam_types(self, big, rng, add):
        for role in ("server", "client"):
            sids = peer_sids(role)
            for name, ty in TYPES.items():
                for tf in forms_for(ty):
                    tb = varint(ty, tf)
                    if name in ("push", "wt"):
                        idspecs = [(v, f) for v in ID_VALUES for f in forms_for(v)]
                        if not big:
                            # every form of every value once; the full product only for two values
                            idspecs = [(v, f) for v in ID_VALUES for f in forms_for(v) if v in (1, 64) or f == need_form(v) or f == 3]
                    else:
                        idspecs = [None]
                    for ids in idspecs:
                        hdr = tb + (varint(ids[0], ids[1]) if ids else [])
                        if name == "ctl":
                            payloads = [FRAMES["S"] + FRAMES["G0"], []]
                        else:
                            payloads = [[0xaa, 0xbb], []]
                        # context: what else is on the connection
                        ctxs = []
                        if name == "ctl":
                            ctxs.append(("", [], sids[0]))                                   # the control stream itself
                            ctxs.append(("", ["o%d" % sids[0], "s%d:000400" % sids[0]], sids[1]))  # a second one
                        elif name in ("enc", "dec"):
                            ctxs.append(("", ["o%d" % sids[0], "s%d:000400" % sids[0]], sids[1]))
                            ctxs.append(("", ["o%d" % sids[0], "s%d:000400" % sids[0], "o%d" % sids[1],
                                              "s%d:%02x" % (sids[1], ty)], sids[2]))          # second of its kind
                        elif name == "wt":
                            ctxs.append(("wt=1", ["o%d" % sids[0], "s%d:000400" % sids[0]], sids[1]))
                            ctxs.append(("wt=0", ["o%d" % sids[0], "s%d:000400" % sids[0]], sids[1]))
                        else:
                            ctxs.append(("", ["o%d" % sids[0], "s%d:000400" % sids[0]], sids[1]))
                        for cfgx, pre, sid in ctxs:
                            cfg = "g0" + ("," + cfgx if cfgx else "")
                            for payload in payloads:
                                w = hdr + payload
                                cutsets = cuts_all(w) if (big and len(w) <= 9) else cuts_single(w)
                                for parts in cutsets:
                                    for ending in ("open", "fin", "rst"):
                                        for api in ("first", "last"):
                                            ops = pre + ["o%d" % sid] + sends(sid, parts) + end_op(sid, ending)
                                            add(line(role, cfg, with_api(role, ops, api, [u_op(role)])))
                                # U in the middle: after the header, before more payload
                                if name == "wt" and payload:
                                    ops = pre + ["o%d" % sid, "s%d:%s" % (sid, hx(hdr)), u_op(role), "s%d:%s" % (sid, hx(payload)), u_op(role)]
                                    add(line(role, cfg, [start_op(role)] + ops))
                            # truncation of the header at every offset, then FIN / RESET / nothing
                            for k in range(0, len(hdr)):
                                pref = hdr[:k]
                                for parts in ([pref], [[b] for b in pref]):
                                    for ending in ("fin", "rst", "open"):
                                        for api in ("first", "last"):
                                            ops = pre + ["o%d" % sid] + sends(sid, parts) + end_op(sid, ending)
                                            add(line(role, cfg, with_api(role, ops, api, [u_op(role)])))
                            # ... and the rest of the header arriving after a pause (several polls)
                            for k in range(1, len(hdr)):
                                ops = pre + ["o%d" % sid, "s%d:%s" % (sid, hx(hdr[:k])), start_op(role),
                                             "s%d:%s" % (sid, hx(hdr[k:] + [0xcc])), u_op(role)]
                                add(line(role, cfg, ops))

    def fam_control(self, big, rng, add):
        seqs = []
        alpha = ALPHA
        for n in (0, 1, 2):
            seqs += [list(t) for t in itertools.product(alpha, repeat=n)]
        if big:
            seqs += [list(t) for t in itertools.product(alpha, repeat=3)]
            seqs += [["S"] + list(t) for t in itertools.product(ALPHA_SMALL, repeat=3)]
        else:
            seqs += [["S"] + list(t) for t in itertools.product(alpha, repeat=2)]
        for _ in range(20000 if big else 2500):
            seqs.append([rng.choice(["S", "S", "S", "S1", "Sn"] + alpha)] + [rng.choice(alpha + ["W"]) for _ in range(3)])
        seqs.append(["S", "W"])
        seqs.append(["W"])
        for seq in seqs:
            bs, bounds = ctl_bytes(seq)
            small = len(seq) <= 2 or (len(seq) == 3 and seq[0] == "S" and not big)
            for role in ("server", "client"):
                sid = peer_sids(role)[0]
                w = [0] + bs
                # where the stream ends: after all bytes, at every frame boundary, inside frames
                ends = [("open", len(w))]
                if small:
                    for b in bounds:
                        ends += [("fin", 1 + b), ("rst", 1 + b)]
                    mids = [p for p in range(1, len(w)) if (p - 1) not in bounds]
                    if not big and len(mids) > 3:
                        mids = rng.sample(mids, 3)
                    for p in mids:
                        ends += [("fin", p), ("rst", p)]
                else:
                    ends += [(rng.choice(["fin", "rst"]), len(w))]
                    ends += [(rng.choice(["fin", "rst"]), rng.randrange(1, len(w) + 1))]
                for ending, upto in ends:
                    ww = w[:upto]
                    chunkings = [[ww], [[b] for b in ww], cuts_random(ww, rng)]
                    # one frame per chunk
                    per = [[0]] + [bs[bounds[i]:bounds[i + 1]] for i in range(len(seq))]
                    flat, acc = [], 0
                    for p in per:
                        q = p[:max(0, upto - acc)]
                        acc += len(p)
                        if q:
                            flat.append(q)
                    chunkings.append(flat)
                    if not small:
                        chunkings = [rng.choice(chunkings[:3]), flat]
                    for parts in chunkings:
                        api = rng.choice(["first", "first", "last"])
                        ops = ["o%d" % sid] + sends(sid, parts) + end_op(sid, ending)
                        add(line(role, "g0", with_api(role, ops, api)))

    def fam_orders(self, big, rng, add):
        kinds = ["ctl", "push", "enc", "dec", "wt", "g", "none"]
        seqs = []
        for n in (1, 2, 3):
            seqs += [list(t) for t in itertools.product(kinds, repeat=n)]
        if big:
            seqs += [list(t) for t in itertools.product(kinds, repeat=4)]
        else:
            for _ in range(1500):
                seqs.append([rng.choice(kinds) for _ in range(4)])
        for seq in seqs:
            for role in ("server", "client"):
                sids = peer_sids(role)
                content = []
                for i, k in enumerate(seq):
                    sid = sids[i]
                    if k == "ctl":
                        c = [["s%d:00" % sid, "s%d:0400" % sid], ["s%d:000400" % sid]][rng.randrange(2)]
                    elif k == "push":
                        c = ["s%d:0105" % sid]
                    elif k == "wt":
                        c = [["s%d:4054" % sid, "s%d:09aa" % sid], ["s%d:405409aa" % sid]][rng.randrange(2)]
                    elif k == "none":
                        c = [["f%d" % sid], ["r%d:9" % sid], ["s%d:40" % sid, "f%d" % sid], ["s%d:c0000000" % sid, "r%d:3" % sid]][rng.randrange(4)]
                    else:
                        c = ["s%d:%s" % (sid, hx(varint(TYPES[k], rng.choice(forms_for(TYPES[k])))))]
                    content.append(c)
                perms = list(itertools.permutations(range(len(seq))))
                if len(perms) > 6:
                    perms = rng.sample(perms, 24 if big else 3)
                for perm in perms:
                    ops = ["o%d" % sids[i] for i in range(len(seq))]
                    if rng.random() < 0.3:
                        ops = [ops[i] for i in perm]
                    for i in perm:
                        ops += content[i]
                    cfg = "g0,wt=%d" % rng.randrange(2)
                    for api in ("first", "last"):
                        add(line(role, cfg, with_api(role, ops, api, [u_op(role)])))

    def fam_grease(self, big, rng, add):
        alpha = ["S", "C", "M1", "G0", "D0", "U", "G4"]
        seqs = [[]]
        for n in (1, 2, 3):
            seqs += [["S"] + list(t) for t in itertools.product(alpha, repeat=n - 1)]
        seqs += [["S"] + list(t) for t in itertools.product(["C", "M1", "G0", "U"], repeat=3)]
        seqs += [["C"], ["G0"], ["U", "S", "G0"]]
        for role in ("server", "client"):
            sid = peer_sids(role)[0]
            gs = grease_sid(role)
            loc = local_sids(role)
            grants = ["gw%d:1000" % x for x in loc]
            cfgs = [
                ("g1,uc=3", [], [["gu1"], ["gu5"], []]),
                ("g1,uc=4", [], [[], ["gu1"]]),
                ("g1", [], [[]]),
                ("g0,uc=3", [], [[], ["gu1"]]),
                ("g1,wc=0", grants, [[], ["gw%d:5" % gs], ["gw%d:100" % gs], ["gw%d:5" % gs, "gw%d:100" % gs], ["x%d:7" % gs]]),
                ("g1,wc=5", grants, [[], ["gw%d:3" % gs], ["gw%d:100" % gs], ["x%d:7" % gs]]),
                ("g1,wc=100", grants, [[]]),
                ("g1,uc=3,wc=0", grants, [["gu1"], ["gu1", "gw%d:100" % gs], ["gw%d:100" % gs, "gu1"]]),
                ("g0,wc=0", grants, [[]]),
                # stream errors injected at each call of the grease stream (never a connection error, no frame lost)
                ("g1", [], [["!%s:%s" % (site, e)] for site in ("ou3", "sd%d" % gs, "pr%d" % gs, "pf%d" % gs) for e in ("X7", "K")]
                 + [["!pf%d:P" % gs], ["!pr%d:K" % gs, "!pf%d:P" % gs]]),
                ("g1,uc=3", [], [["!ou3:K", "gu1"], ["gu1", "!pr%d:X9" % gs]]),
                ("g1,wc=0", grants, [["!pr%d:K" % gs], ["gw%d:5" % gs, "!pr%d:X3" % gs], ["!pf%d:K" % gs, "gw%d:100" % gs],
                                     ["!sd%d:X1" % gs], ["!pf%d:P" % gs, "gw%d:100" % gs]]),
                ("g0", [], [["!ou3:K"], ["!pr%d:X7" % gs]]),
            ]
            for cfg, pre, extras in cfgs:
                for seq in seqs:
                    base = ["o%d" % sid, "s%d:00" % sid] + ["s%d:%s" % (sid, hx(FRAMES[k])) for k in seq]
                    for extra in extras:
                        positions = range(len(base) + 1) if extra else [0]
                        if not big and len(seq) >= 3 and extra:
                            positions = rng.sample(list(positions), 3)
                        for p in positions:
                            ops = base[:p] + extra + base[p:]
                            for api in ("first", "mid"):
                                if api == "first":
                                    full = pre + [start_op(role)] + ops
                                else:
                                    q = rng.randrange(0, len(ops) + 1)
                                    full = pre + ops[:q] + [start_op(role)] + ops[q:]
                                add(line(role, cfg, full))
                            if extra and len(extra) > 1:
                                # the two credit ops at different places
                                p2 = rng.randrange(p, len(base) + 1)
                                ops = base[:p] + extra[:1] + base[p:p2] + extra[1:] + base[p2:]
                                add(line(role, cfg, pre + [start_op(role)] + ops))
            # the grease stream blocked INSIDE its 8-byte stream type (k = 1..7 bytes taken, then Pending), a second control
            # frame delivered meanwhile, then more credit and a third frame: the stream must stay `writing` (not finished)
            # until the rest has been taken (seeded change C14/patch3: `DataSent` set before the flush result is looked at)
            seqs_k = [["S", a] + rest for a in ("G0", "G4", "M1", "C") for rest in ([], ["G0"], ["U"], ["M1"], ["C", "G0"])]
            for k in range(1, 8):
                for cfg, extra in (("g1,wc=%d" % k, []), ("g1,wc=%d" % k, ["gw%d:100" % gs]),
                                   ("g1,wc=0", ["gw%d:%d" % (gs, k)]), ("g1,wc=0", ["gw%d:%d" % (gs, k), "gw%d:100" % gs])):
                    for seq in seqs_k:
                        base = ["o%d" % sid, "s%d:00" % sid] + ["s%d:%s" % (sid, hx(FRAMES[x])) for x in seq]
                        if not extra:
                            add(line(role, cfg, grants + [start_op(role)] + base))
                            continue
                        # the first credit op behind SETTINGS (the stream exists), the second anywhere behind it
                        for p in range(3, len(base) + 1):
                            for p2 in (range(p, len(base) + 1) if len(extra) > 1 else [p]):
                                ops = base[:p] + extra[:1] + base[p:p2] + extra[1:] + base[p2:]
                                add(line(role, cfg, grants + [start_op(role)] + ops))
            # second accept() after the first has returned; the build phase waiting for write credit
            add(line(role, "g1,uc=3", ["o%d" % sid, "s%d:000400" % sid, start_op(role), "s%d:070100" % sid, "gu5", start_op(role)]))
            add(line(role, "g1,wc=0", [start_op(role), "o%d" % sid, "s%d:000400" % sid]))
            add(line(role, "g1,wc=0", [start_op(role)] + grants + ["o%d" % sid, "s%d:000400" % sid]))

    def fam_own(self, big, rng, add):
        """the endpoint's OWN streams: STOP_SENDING on the control / QPACK streams at every position, the setup waiting for
        stream credit (uc=0/1/2 + gu) or for write credit on the control stream (SETTINGS accepted in pieces), the server's
        final GOAWAY (accept -> shutdown(0)) waiting for credit, interrupted, or meeting the stopped stream"""
        def merge(lists):
            """a random interleaving that keeps the order inside every list"""
            pool = [list(l) for l in lists if l]
            out = []
            while pool:
                i = rng.randrange(len(pool))
                out.append(pool[i].pop(0))
                if not pool[i]:
                    pool.pop(i)
            return out

        for role in ("server", "client"):
            pc = peer_sids(role)[0]
            own = local_sids(role)
            gs = grease_sid(role)
            st = start_op(role)
            one = "conn.A" if role == "server" else "drv.W"
            seqs = [
                ["o%d" % pc, "s%d:000400" % pc, "s%d:070100" % pc],
                ["o%d" % pc, "s%d:00" % pc, "s%d:0400" % pc, "s%d:0701" % pc, "s%d:00" % pc],
                ["o%d" % pc, "s%d:000400070100" % pc],
                ["o%d" % pc, "s%d:000400" % pc, "s%d:070104" % pc, "s%d:070100" % pc],
                ["o%d" % pc, "s%d:000400" % pc, "s%d:070100" % pc, "s%d:0000" % pc],      # DATA behind the GOAWAY
                ["o%d" % pc, "s%d:000400" % pc, "s%d:030101" % pc, "s%d:070100" % pc],
                ["o%d" % pc, "s%d:000400" % pc, "s%d:0d0101" % pc],
                ["o%d" % pc, "s%d:000400" % pc, "f%d" % pc],
            ]
            # (1) STOP_SENDING on the own streams at every position, credit unlimited
            for g in ("g0", "g1"):
                for seq in seqs:
                    for xs in ([own[0]], [own[1]], [own[2]], [own[1], own[0]], [own[0], gs]):
                        xops = ["x%d:%d" % (x, 7 + i) for i, x in enumerate(xs)]
                        for p in range(len(seq) + 1):
                            ops = seq[:p] + xops + seq[p:]
                            add(line(role, g, [st] + ops + [st]))
                            add(line(role, g, ops + [one, one]))
                            q = rng.randrange(0, len(ops) + 1)
                            add(line(role, g, ops[:q] + [one] + ops[q:] + [st, u_op(role)]))
            # (2) the setup waits for stream credit; (3) for write credit on its three streams; STOP_SENDING meanwhile
            n_rand = 6000 if big else 1500
            for _ in range(n_rand):
                g1 = rng.random() < 0.4
                seq = list(rng.choice(seqs))
                cfg = ["g1" if g1 else "g0"]
                lists = [seq]
                # (grease on and write credit short: the control stream exists from the start, so that no grant is lost)
                uc = rng.choice([None, None, 0, 1, 2, 3, 4])
                if uc is not None:
                    cfg.append("uc=%d" % uc)
                    lists.append(["gu%d" % k for k in rng.choice([[3], [1, 1, 1], [1, 2], [2, 5], [1], [1, 1, 1, 1], [4]])])
                if not g1 and rng.random() < 0.3:
                    cfg.append(rng.choice(["mfs=0", "mfs=63", "mfs=64", "mfs=16384", "mfs=1073741824", "ec=1", "dg=1", "wt=1", "wts=70"]))
                wc = rng.choice([None, 0, 0, 1, 5, 25, 26, 27, 28, 29, 30]) if not g1 else rng.choice([None, 0, 0, 5, 27, 40])
                if wc is not None and g1 and uc == 0:
                    cfg[-1] = "uc=1"
                if wc is not None:
                    cfg.append("wc=%d" % wc)
                    if g1:
                        # the length of the control stream header is 28..35 with grease: totals stay outside that window
                        targets = rng.choice([[27, 35, 37, 38], [35, 38], [20, 36, 39], [40], [27], [35, 36]])
                        grants, have = [], wc
                        for t in targets:
                            if t > have:
                                grants.append("gw%d:%d" % (own[0], t - have))
                                have = t
                        if wc < 9:
                            lists.append(rng.choice([["gw%d:100" % gs], ["gw%d:3" % gs, "gw%d:100" % gs], []]))
                    else:
                        grants = ["gw%d:%d" % (own[0], k) for k in rng.choice(
                            [[26], [29], [10, 16], [10, 16, 3], [13, 13, 1, 1, 1], [1, 25, 2, 1], [5, 5, 5, 5, 5, 1, 3], [25], [26, 2], [100],
                             [20, 2, 1, 3], [19, 3], [22, 3]])]
                    lists.append(grants)
                    lists.append(rng.choice([["gw%d:1" % own[1], "gw%d:1" % own[2]], ["gw%d:1" % own[2], "gw%d:1" % own[1]],
                                             ["gw%d:1" % own[1]], ["gw%d:5" % own[1], "gw%d:5" % own[2]]]))
                r = rng.random()
                if r < 0.45:
                    lists.append(["x%d:%d" % (rng.choice(own), rng.randrange(0, 300))])
                elif r < 0.55:
                    lists.append(["x%d:1" % rng.choice(own), "x%d:2" % rng.choice(own)])
                api = rng.choice([[st], [st], [one], [one, one], [st, u_op(role), st], [one, u_op(role), one], [st, st]])
                lists.append(api)
                ops = merge(lists)
                # the credit ops that open the own streams come before those that grant write credit on them more often
                add(line(role, ",".join(cfg), ops))
            # (4) the server's final GOAWAY: credit for the setup exactly, then the peer's GOAWAY, then credit byte by byte,
            #     a command that interrupts the accept loop, STOP_SENDING, more frames from the peer
            if role == "server":
                up = ["gw%d:26" % own[0], "gw%d:1" % own[1], "gw%d:1" % own[2]]
                peer = ["o%d" % pc, "s%d:000400" % pc, "s%d:070100" % pc]
                tails = [["gw3:1", "gw3:1", "gw3:1"], ["gw3:3"], ["gw3:2", "x3:7"], ["x3:7"], ["gw3:1", "conn.U", "gw3:5"],
                         ["conn.AS", "conn.AL", "gw3:3"], ["gw3:2", "s%d:0000" % pc, "gw3:1", "conn.A"], ["s%d:070100" % pc, "gw3:3"],
                         ["gw3:1", "conn.AL", "gw3:1", "gw3:1", "conn.A"], ["f%d" % pc, "gw3:3", "conn.A"], []]
                for acc in ("conn.AL", "conn.A"):
                    for wcs, pre in (("wc=0", up), ("wc=26", []), ("wc=27", []), ("wc=28", []), ("wc=29", [])):
                        for tail in tails:
                            for api_first in (True, False):
                                ops = ([acc] + pre + peer) if api_first else (pre + peer + [acc])
                                add(line(role, "g0," + wcs, ops + tail))
                                add(line(role, "g0," + wcs, ops + tail + ["conn.A"]))

    def cases(self, tier, rng):
        big = tier == "thorough"
        L, seen = [], set()

        def add(l):
            if l not in seen:
                seen.add(l)
                L.append(l)

        self.fam_grease(big, rng, add)
        self.fam_own(big, rng, add)
        from props import faults
        for l in faults.cases(big, rng):
            add(l)
        self.fam_types(big, rng, add)
        self.fam_orders(big, rng, add)
        self.fam_control(big, rng, add)
        return L

    # RFC 9114 by the letter where the property's text is silent (server push, reading R-04b): the witnesses are
    # re-run against the real code on every check and judged by `Spec.ControlRules.verdictRfc` (engine `ctlrfc`)
    RFC_WITNESSES = [
        ("ctl server g0 o2 s2:000400 o6 s6:0100 conn.A", "a push stream sent to a server (RFC 9114 6.2.2: H3_STREAM_CREATION_ERROR)"),
        ("ctl client g0 o3 s3:000400 o7 s7:0100 drv.W", "a push stream sent to a client that never sent MAX_PUSH_ID (4.6: H3_ID_ERROR)"),
        ("ctl server g0 o2 s2:000400 s2:030101 conn.A", "CANCEL_PUSH sent to a server that promised nothing (7.2.3: H3_ID_ERROR)"),
        ("ctl client g0 o3 s3:000400 s3:030101 drv.W", "CANCEL_PUSH sent to a client that allowed no push (7.2.3: H3_ID_ERROR)"),
        ("ctl server g0 o2 s2:000400 s2:0d0105 s2:0d0101 conn.A", "MAX_PUSH_ID going down (7.2.7: H3_ID_ERROR)"),
    ]

    # reading R-04d: the same bytes, the control stream reset before the endpoint looks; whole / five chunks
    RESET_PAIR = ("ctl server g0 o2 s2:0004000400 r2:7 conn.AL", "ctl server g0 o2 s2:00 s2:04 s2:00 s2:04 s2:00 r2:7 conn.AL")

    def extra(self, tier, rng, ctx):
        import vlib
        lines = [l for l, _ in self.RFC_WITNESSES]
        rc, out, err = vlib.run_lines(vlib.RUN, lines)
        rc2, out2, err2 = vlib.run_lines(vlib.DRV, ["ctlrfc" + l[3:] for l in lines])
        if rc != 0 or rc2 != 0 or len(out) != len(lines) or len(out2) != len(lines):
            return [("broken", "C04: the RFC witnesses could not be run", {})]
        res = []
        for (l, what), raw, drv in zip(self.RFC_WITNESSES, out, out2):
            impl = project(l, raw)
            spec = drv.split(" ## ", 1)[1].strip() if " ## " in drv else "?"
            if not vlib.spec_match(spec, impl):
                res.append(("note", "outside C04's text (server push is not implemented, reading R-04b), RFC 9114 by the letter: %s: `%s` "
                                    "impl=`%s` RFC table=`%s`" % (what, l, impl.split(" | ")[0], spec), {}))
        res += self.leniency_notes(ctx)
        return res

    def leniency_notes(self, ctx):
        """Second audit: what the oracle's recorded leniencies (R-04d, R-04e, frame type 0x41) cover on THIS run:
        engine `ctl note …` tells per line which of them it meets, the counts and witnesses are printed as NOTE lines."""
        import vlib
        idx = [i for i, l in enumerate(ctx["lines"]) if l.startswith("ctl ")]
        ls = [ctx["lines"][i] for i in idx]
        try:    # in parts, side by side like the model run (a million lines in the thorough tier)
            tags, _ = vlib.run_model(["ctl note" + l[3:] for l in ls], vlib.workers_for(self))
        except RuntimeError as e:
            return [("broken", "C04: `ctl note` could not be run: %s" % e, {})]
        closed = lambda i: ctx["impl"][i].split(" ")[0]
        ov = [i for i, t in zip(idx, tags) if "overtaken=1" in t]
        ov260 = [i for i in ov if closed(i) == "closed=[260]"]
        qp = [i for i, t in zip(idx, tags) if "qpack=1" in t]
        wt_seen = [i for i, t in zip(idx, tags) if "wtseen=1" in t]
        wt_open = [i for i in wt_seen if ctx["spec"][i].strip() == "?"]
        res = []
        # R-04d: the witness pair on the real code
        rc, out, _ = vlib.run_lines(vlib.RUN, list(self.RESET_PAIR))
        rc2, out2, _ = vlib.run_lines(vlib.DRV, list(self.RESET_PAIR))
        if rc != 0 or rc2 != 0 or len(out) != 2 or len(out2) != 2:
            return [("broken", "C04: the witness pair of R-04d could not be run", {})]
        pair = [project(l, r).split(" ")[0] for l, r in zip(self.RESET_PAIR, out)]
        specs = [d.split(" ## ", 1)[1].strip() if " ## " in d else "?" for d in out2]
        res.append(("note", "reading R-04d (a RESET of the control stream that arrives before the endpoint has looked at the frames in front of it "
                            "may overtake them: the frame's own error OR H3_CLOSED_CRITICAL_STREAM, nothing else): %d lines of this run, the code answers "
                            "260 in place of the frame's own code on %d of them; which of the two depends on the chunking "
                            "(FrameStream::poll_next asks the transport before it decodes what it has buffered, h3/src/frame.rs): `%s` impl=`%s`, `%s` "
                            "impl=`%s`, oracle on both=`%s`"
                            % (len(ov), len(ov260), self.RESET_PAIR[0], pair[0], self.RESET_PAIR[1], pair[1], specs[0]), {}))
        # R-04e: peer QPACK streams closed; judged by the RFC table
        if qp:
            qls = [ctx["lines"][i] for i in qp]
            rc, rfc, _ = vlib.run_lines(vlib.DRV, ["ctlrfc" + l[3:] for l in qls])
            if rc != 0 or len(rfc) != len(qls):
                return [("broken", "C04: `ctlrfc` could not be run on the QPACK lines", {})]
            dep = [i for i, d in zip(qp, rfc) if " ## " in d and not vlib.spec_match(d.split(" ## ", 1)[1].strip(), ctx["impl"][i])]
            w = min((ctx["lines"][i] for i in dep), key=len) if dep else "-"
            res.append(("note", "outside C04's text (it names the control stream only; reading R-04e), RFC 9204 4.2 by the letter: the peer's QPACK "
                                "encoder / decoder stream closed or reset is H3_CLOSED_CRITICAL_STREAM: %d lines of this run close such a stream (the oracle "
                                "accepts no error or 260), on %d of them the code departs from the RFC table (it never reads these streams: no error for the "
                                "closing), shortest: `%s`" % (len(qp), len(dep), w), {}))
        res.append(("note", "frame type 0x41 (WebTransport signal value) on the control stream: %d lines of this run have it among the control stream's "
                            "events; the oracle has no opinion (`?`) on %d of them (the alternative that went past the frame: what follows cannot be read as "
                            "frames), %d are judged (an error demanded before the frame stays demanded)"
                            % (len(wt_seen), len(wt_open), len(wt_seen) - len(wt_open)), {}))
        return res

    def klass(self, line, impl):
        w = line.split()
        if w[0].startswith("flt"):
            from props import faults
            return faults.klass(line, impl)
        if " | " not in impl:
            return w[1] + "/" + impl.split(" ")[0]
        t = impl.split()
        closed = t[0][len("closed=["):-1] or "none"
        res = t[1][4:].split(",")[-1]
        u = "U" if t[2] != "U=-" else "-"
        stops = "stop" if "stops=[]" not in impl else "-"
        g = [x for x in t if x.startswith("g=")][0]
        gf = [re.sub(r"\d+", "", o.split(":")[0]) for o in w[3:] if o.startswith("!")]
        return "%s/closed=%s/res=%s/%s/%s/%s%s" % (w[1], closed, res, u, stops, g, "/fault=" + "+".join(gf) if gf else "")

    def trivial(self, line, impl):
        if line.startswith("flt"):
            from props import faults
            return faults.trivial(line, impl)
        return (" | " not in impl) or bool(re.match(r"^closed=\[\] res=- U=-(/-)* \| build=\w+ stops=\[\] g=none pending=", impl))

    def shrink_candidates(self, line):
        w = line.split()
        head, cfg, ops = w[:2], w[2], w[3:]
        out = []
        for i in range(len(ops)):
            out.append(" ".join(head + [cfg] + ops[:i] + ops[i + 1:]))
        for i in range(len(ops) - 1):
            a, b = ops[i], ops[i + 1]
            ma, mb = re.match(r"^s(\d+):([0-9a-f]+)$", a), re.match(r"^s(\d+):([0-9a-f]+)$", b)
            if ma and mb and ma.group(1) == mb.group(1):
                out.append(" ".join(head + [cfg] + ops[:i] + ["s%s:%s%s" % (ma.group(1), ma.group(2), mb.group(2))] + ops[i + 2:]))
        items = cfg.split(",")
        for i in range(len(items) if not line.startswith("flt") else 0):   # flt: the cfg is what makes the history observable
            rest = items[:i] + items[i + 1:]
            out.append(" ".join(head + [",".join(rest) if rest else "-"] + ops))
        for i, o in enumerate(ops):
            m = re.match(r"^s(\d+):([0-9a-f]{4,})$", o)
            if m:
                out.append(" ".join(head + [cfg] + ops[:i] + ["s%s:%s" % (m.group(1), m.group(2)[:-2])] + ops[i + 1:]))
        return [c for c in out if len(c.split()) > 3]


PROP = C04()
