import itertools
import os

from vlib import Prop
from props.c16 import hx

# DESIGN.md section 9, reading R-02s: a SETTINGS payload that ends inside an (identifier, value) entry is
# H3_FRAME_ERROR (RFC 9114 7.1 paragraph 5).  The unchanged code answers H3_SETTINGS_ERROR.  With
# VERIF_C02_STRICT_SETTINGS=1 every case of this property is judged under that reading alone (ops `decS`,
# `loopS`, `callsS`: same code path in the harness, strict oracle `observeS` in the Lean driver); the default
# run also accepts the answer of `Spec.Framing.observe` (H3_SETTINGS_ERROR) on exactly those payloads.
STRICT_SETTINGS = os.environ.get("VERIF_C02_STRICT_SETTINGS", "0") == "1"

# payload sizes around the boundaries of the varint length forms (1/2/4 bytes) and beyond one 64 KiB buffer
LONG_SIZES = [63, 64, 65, 300, 16383, 16384, 16385, 70000]

ALPHA = [0x00, 0x01, 0x02, 0x03, 0x04, 0x05, 0x06, 0x07, 0x08, 0x09, 0x0d, 0x0f, 0x21, 0x40, 0x41, 0x80, 0xc0, 0xff]
KNOWN = [0x0, 0x1, 0x3, 0x4, 0x5, 0x7, 0xd]
H2 = [0x2, 0x6, 0x8, 0x9]
OTHER = [0x21, 0x40, 0x0f, 0x1f * 7 + 0x21, 2**30 + 5]


def varint(v, form=None):
    if form is None:
        form = 0 if v < 64 else 1 if v < 2**14 else 2 if v < 2**30 else 3
    n = 1 << form
    x = v | (form << (8 * n - 2))
    return list(x.to_bytes(n, "big"))


def cuts_all(bs):
    n = len(bs)
    if n == 0:
        yield []
        return
    for mask in range(1 << (n - 1)):
        parts, cur = [], [bs[0]]
        for i in range(1, n):
            if mask >> (i - 1) & 1:
                parts.append(cur)
                cur = []
            cur.append(bs[i])
        parts.append(cur)
        yield parts


def cuts_random(bs, rng):
    parts, cur = [], []
    p = rng.choice([0.1, 0.3, 0.6, 1.0])
    for b in bs:
        cur.append(b)
        if rng.random() < p:
            parts.append(cur)
            cur = []
    if cur:
        parts.append(cur)
    return parts


def script(parts, ending, rng=None, pend=0.0):
    ev = []
    for p in parts:
        if rng is not None and rng.random() < pend:
            ev.append("p")
        ev.append("c" + hx(p))
    if rng is not None and rng.random() < pend:
        ev.append("p")
    if ending == "fin":
        ev.append("f")
    elif ending == "reset":
        ev.append("r%d" % (rng.randrange(0, 1000) if rng else 7))
    return ",".join(ev) if ev else "-"


def chunks_of(bs, n):
    return [bs[i:i + n] for i in range(0, len(bs), n)]


def judge(queries):
    """verdicts of the Lean judge (`H3.Spec.Framing.judgeLoop` / `judgeCalls`, op `fs judge`) on observed answers"""
    import vlib
    if not queries:
        return []
    w = vlib.workers_for()
    if w <= 1 or len(queries) < 4000:
        parts = [queries]
    else:
        n = (len(queries) + w - 1) // w
        parts = [queries[i:i + n] for i in range(0, len(queries), n)]

    def one(part):
        rc, out, err = vlib.run_lines(vlib.DRV, part)
        if rc != 0 or len(out) != len(part):
            raise RuntimeError("h3drv fs judge failed rc=%s out=%d/%d %s" % (rc, len(out), len(part), err[-300:]))
        return out
    if len(parts) == 1:
        return one(parts[0])
    from concurrent.futures import ThreadPoolExecutor
    with ThreadPoolExecutor(max_workers=w) as ex:
        res = list(ex.map(one, parts))
    return [o for part in res for o in part]


def payload_for(ty, rng, valid=True):
    if ty in (0x3, 0x7, 0xd):
        return safe_varint(rng.choice([0, 1, 4, 63, 64, 300, 2**20, 2**40]), rng.choice([None, None, 0, 1, 2, 3]))
    if ty == 0x4:
        ids = [0x1, 0x6, 0x7, 0x8, 0x33, 0x2b603742, 0x2b603743, 0x21, 0x40]
        out = []
        for _ in range(rng.randrange(0, 4)):
            out += varint(rng.choice(ids)) + varint(rng.choice([0, 1, 100, 2**20]))
        return out
    if ty == 0x5:
        return varint(rng.choice([0, 5, 70])) + [rng.randrange(256) for _ in range(rng.randrange(0, 4))]
    return [rng.randrange(256) for _ in range(rng.choice([0, 0, 1, 2, 3, 5, 9]))]


def safe_varint(v, form):
    need = 0 if v < 64 else 1 if v < 2**14 else 2 if v < 2**30 else 3
    if form is None or form < need:
        form = need
    return varint(v, form)


def frame(ty, payload, rng, tform=None, lform=None, lendelta=0):
    ln = max(0, len(payload) + lendelta)
    return safe_varint(ty, tform) + safe_varint(ln, lform) + payload


# ------------------------------------------------------------------ declared lengths >= 2^30 (builder bC12)
# The length field of a frame header is a varint of up to 62 bits; nothing but the end of the stream bounds it.  These lines
# declare 2^30-1 (largest 4-byte form), 2^30, 2^32 and 2^62-1 (and a few more in the thorough tier), deliver three payload
# bytes and end the stream: the answer must be the truncation error (or, with the stream left open, a wait), never an
# allocation of the declared size, an arithmetic overflow (`2 + len`, harness built with overflow checks) or a wrapped length.
HUGE_LENS = ["bfffffff", "c000000040000000", "c000000100000000", "ffffffffffffffff"]
HUGE_LENS_MORE = ["c0000000ffffffff", "c000000080000000", "c0000001000000ff", "e000000000000000", "fffffffffffffffe"]
_RESERVED_BIG = 0x1f * ((2**62 - 1 - 0x21) // 0x1f) + 0x21          # the largest reserved ("grease") frame type
HUGE_TYPES = ["00", "01", "04", "07", "03", "0d", "21", "4021", "%016x" % (_RESERVED_BIG | (3 << 62))]
HUGE_PAYLOAD = [0xaa, 0xbb, 0xcc]


def huge_lines(big):
    """deterministic (no rng): the same lines in every run, also written to corpus/C02/huge_lengths.txt"""
    out = []
    k = 0
    for ty in HUGE_TYPES:
        tb = list(bytes.fromhex(ty))
        for lh in HUGE_LENS + (HUGE_LENS_MORE if big else []):
            lb = list(bytes.fromhex(lh))
            hdr = tb + lb
            bs = hdr + HUGE_PAYLOAD
            mid = len(tb) + len(lb) // 2
            chunkings = [[bs], [bs[:mid], bs[mid:]], [[b] for b in bs], [hdr, HUGE_PAYLOAD], [bs[:mid], bs[mid:len(hdr)], HUGE_PAYLOAD]]
            out.append("frame dec " + hx(bs))
            out.append("fs loop " + script([bs], "fin"))
            if big:
                out.append("frame dec " + hx(hdr))
                out.append("frame dec " + hx(bs[:mid]))
                for parts in chunkings:
                    for ending in ("fin", "open"):
                        out.append("fs loop " + script(parts, ending))
                    out.append("fs loop " + script(parts, "reset"))
            else:
                # quick: one cut chunking per (type, length) in rotation - the cut inside the length field comes round for
                # every type - and the open ending on every other one
                parts = chunkings[1 + k % 4]
                out.append("fs loop " + script(parts, "fin"))
                if k % 2 == 0:
                    out.append("fs loop " + script(chunkings[1 + (k + 1) % 4], "open"))
            # both call languages: n/d on a bare FrameStream, r/s on a real client::RequestStream
            if big or (ty in ("00", "01", "04", "21") and lh in ("c000000100000000", "ffffffffffffffff")):
                parts = chunkings[1 + k % 4] if not big else chunkings[4]
                nd = "n" + "d" * (len(parts) + 2) + "nn"
                out.append("fs calls %s %s" % (script([bs], "fin"), nd))
                out.append("fs calls %s %s" % (script(parts, "fin"), nd))
                n = len(parts) + 3
                out.append("fs calls %s %s" % (script(parts, "fin"), "r" * n))
                out.append("fs calls %s %s" % (script(parts, "fin"), "r" + "s" + "r" * (n - 1)))
                if big:
                    out.append("fs calls %s %s" % (script(parts, "open"), nd))
                    out.append("fs calls %s %s" % (script(parts, "open"), "s" + "r" * n))
            k += 1
    seen, res = set(), []
    for l in out:
        if l not in seen:
            seen.add(l)
            res.append(l)
    return res


HUGE = set(huge_lines(True)) | set(huge_lines(False))
HUGE |= {" ".join([l.split(" ")[0], l.split(" ")[1] + "S"] + l.split(" ")[2:]) for l in HUGE}


class C02(Prop):
    id = "C02"
    modules = ["H3.Props.C02", "H3.Lemmas.GenAgreeFrame", "H3.Lemmas.GenAgreeReq", "H3.Lemmas.GenAgreeCtl"]
    engines = ["frame", "fs"]
    design_ref = "DESIGN.md section 7, C02 and Appendix B.1"
    level_text = ("Lean theorems (unbounded, all proved in full) over models of Frame::decode, FrameDecoder::decode, "
                  "FrameStream::{poll_next,poll_data}, BufList advance/take_chunk: Frame::decode is the RFC 9114 §7.1 segmentation "
                  "with the §7.2 payload grammar (SETTINGS error iff the spec says so); it satisfies the three decoder laws "
                  "(stability, minimality, Incomplete(n) a sound lower bound); for every decoder with these laws, every script of "
                  "non-empty chunks with Pending/FIN/RESET anywhere and every poll_next/poll_data call sequence, the invariant "
                  "seen = consumed ++ buffer holds with the tokens handed out = those of a byte-at-a-time reference automaton over "
                  "consumed, consumed offsets are segment boundaries, hence independent of chunking; after FIN no call is Pending and "
                  "truncation (also inside DATA, also at a chunk boundary) ends the reader loop with UnexpectedEnd, never a clean end; "
                  "the reference automaton agrees with the RFC oracle `observe`, so the reader loop's observations are those of "
                  "`observe w ending` for all chunkings; at the two callers (request stream, control stream) Malformed and "
                  "UnexpectedEnd become the connection error H3_FRAME_ERROR, by the arms of got_frame_error / "
                  "handle_frame_stream_error_on_request_stream / poll_control as re-read on this run "
                  "(C02_frame_error_code_at_callers); the strict SETTINGS reading R-02s (`observeS`) differs from `observe` only on "
                  "SETTINGS payloads that end inside an entry; the driver's fast evaluation is the model "
                  "(C02_driver_runs_the_model)")
    level_note = ("trusted: Lean kernel + 3 standard axioms; hand model tied to the code by running real FrameStream over a scripted "
                  "RecvStream on the same scripts (all short strings over an 18-byte alphabet x all cut patterns x endings, "
                  "frame sequences with every type/length form, mutations, random call sequences); Cursor/BufList read-through is "
                  "covered by the cuts; SETTINGS payload details belong to C13; WebTransport 0x41 header belongs to C19; "
                  "answer sequences that the property does not fix uniquely (arbitrary call sequences, reset streams, DATA cut by "
                  "FIN) are judged by the chunk-blind Lean predicate H3.Spec.Framing.judgeLoop/judgeCalls (not a theorem about the "
                  "model: a run-time oracle on the implementation's and the model's answers); OPEN FINDING kept out of the default "
                  "run: a SETTINGS payload that ends inside an entry is reported as H3_SETTINGS_ERROR where RFC 9114 7.1 says "
                  "H3_FRAME_ERROR (reading R-02s; VERIF_C02_STRICT_SETTINGS=1 bin/check C02 shows it)")
    rule = ("cases: `frame dec` and `fs loop`/`fs calls` lines (with VERIF_C02_STRICT_SETTINGS=1 the same cases as `decS`/`loopS`/"
            "`callsS`, judged under the strict SETTINGS reading R-02s). (1) all strings of length<=3 (quick) / <=4 (thorough) over "
            "an 18-byte alphabet x all 2^(n-1) cut patterns x {fin, open}; (2) grammar-built sequences of 1-4 short frames (every "
            "known/H2/unknown type, all varint forms of type and length, payloads of 0-9 bytes, length field +-1/2, a random "
            "truncation, a random byte mutation) x all cuts if <=7 (quick) / <=9 (thorough) bytes else random cuts, Pending "
            "inserted, endings fin/open/reset, plus random poll_next/poll_data call sequences; (3) one well-formed sequence "
            "truncated at every offset; (4) LONG frames: DATA, HEADERS, a 1-byte and an 8-byte unknown type with payloads of "
            "63, 64, 65, 300, 16383, 16384, 16385, 70000 random bytes, the length field in its minimal form and in every longer "
            "(non-minimal) form, complete and followed by a GOAWAY (so a wrong boundary shows), delivered whole and in chunks of "
            "16384, 1000, 7 and 1 bytes (1-byte chunks: DATA at every size, the buffered types up to 16385 in the thorough tier "
            "and up to 300 in the quick tier), endings fin/open, "
            "and for each: one byte short + fin, one byte short + reset, the header cut inside the length field, `frame dec` "
            "of the whole and of the one-byte-short buffer, and one `fs calls` history; SETTINGS frames of 21..23334 entries with "
            "unknown identifiers (payloads of 63..70000 bytes) complete / with the last entry cut; (5) SETTINGS payloads that "
            "end inside an entry (identifier cut, value missing, value cut; after 0-2 complete entries; with and without a "
            "reserved or repeated identifier before the cut) x all cuts x fin/open. No complete frame with a payload above "
            "70000 bytes is generated. Every `fs` answer sequence is also sent through the Lean judge (`fs judge`, "
            "H3.Spec.Framing.judgeLoop/judgeCalls) and carries its verdict; non-trivial = the implementation emitted at least "
            "one frame, data piece or error (not only `P`/`N`/bad-op)")
    trusted = ["bytes::Bytes split_to/advance semantics",
               "translator decision table H3.Gen.FrameDispatch (Frame::decode: frame type -> payload parser / Frame variant, the HTTP/2-reserved types, unknown = skipped) and H3.Gen.FrameErrCodes (arms of FrameDecoder::decode, got_frame_error), re-read from h3/src/proto/frame.rs, h3/src/frame.rs, h3/src/error/internal_error.rs on this run (any other shape of these functions is refused); tied to the model by H3.Lemmas.GenAgreeFrame (decode_agrees: H3.Frame.decode = the decoder written over the generated table, for every byte string), rebuilt on this run",
               "translator tables H3.Gen.FrameErrCodes.code / requestStreamUnexpectedEnd and H3.Gen.CtlArms.onTruncated / onProto (the error codes at the two callers), tied to the models H3.ReqRecv.fsErr / H3.Control.classify by H3.Lemmas.GenAgreeReq (frameErrCode_agrees, fsErr_agrees) and H3.Lemmas.GenAgreeCtl (protoCode_agrees, classify_truncated, classify_proto)"]
    assumptions = ["transport chunks are non-empty (R-T)", "for RESET endings only the prefix claim is made (App. B.1)"]

    def cases(self, tier, rng):
        big = tier == "thorough"
        L = []
        seen = set()

        def add(l):
            if l not in seen:
                seen.add(l)
                L.append(l)

        # 1. exhaustive short strings
        maxlen = 4 if big else 3
        for n in range(0, maxlen + 1):
            for t in itertools.product(ALPHA, repeat=n):
                bs = list(t)
                add("frame dec " + hx(bs))
                allcuts = list(cuts_all(bs))
                if n == 4 and not big:
                    allcuts = allcuts[:1]
                for parts in allcuts:
                    for ending in ("fin", "open"):
                        add("fs loop " + script(parts, ending))
        # 2. grammar-built frame sequences
        nseq = 12000 if big else 2500
        for i in range(nseq):
            k = rng.choice([1, 1, 2, 2, 3, 4])
            bs = []
            for _ in range(k):
                r = rng.random()
                ty = rng.choice(KNOWN) if r < 0.6 else rng.choice(H2) if r < 0.68 else rng.choice(OTHER)
                pl = payload_for(ty, rng)
                delta = rng.choice([0] * 8 + [1, -1, 2, -2])
                bs += frame(ty, pl, rng, rng.choice([None, None, None, 1, 2, 3]), rng.choice([None, None, None, 1, 2, 3]), delta)
            variants = [bs]
            if rng.random() < 0.5 and len(bs) > 1:
                variants.append(bs[:rng.randrange(1, len(bs))])
            if rng.random() < 0.2 and bs:
                m = list(bs)
                m[rng.randrange(len(m))] = rng.randrange(256)
                variants.append(m)
            for v in variants:
                add("frame dec " + hx(v))
                if len(v) <= (9 if big else 7):
                    cs = list(cuts_all(v))
                    if len(cs) > 64:
                        cs = rng.sample(cs, 64)
                else:
                    cs = [cuts_random(v, rng) for _ in range(6 if big else 3)] + [[v]] + [[[b] for b in v]]
                for parts in cs:
                    ending = rng.choice(["fin", "fin", "open", "reset"])
                    add("fs loop " + script(parts, ending, rng, rng.choice([0.0, 0.0, 0.3])))
                    if rng.random() < 0.3:
                        calls = "".join(rng.choice("nnd") for _ in range(rng.randrange(1, 12)))
                        add("fs calls %s %s" % (script(parts, ending, rng, 0.2), calls))
        # 3. truncation of one well-formed sequence at every offset, every ending
        base = frame(0x1, [1, 2, 3], rng) + frame(0x0, [9, 8, 7, 6], rng) + frame(0x21, [5, 5], rng) + frame(0x7, [4], rng) + frame(0x0, [], rng) + frame(0x1, [0xaa], rng)
        for cut in range(len(base) + 1):
            v = base[:cut]
            for parts in ([v] if v else [[]], [[b] for b in v], cuts_random(v, rng)):
                parts = [p for p in parts if p]
                for ending in ("fin", "open"):
                    add("fs loop " + script(parts, ending))
        # 4. long frames: payload sizes around the boundaries of the length forms, every length encoding, coarse and fine chunks
        GO = [0x07, 0x01, 0x05]
        for ty in (0x0, 0x1, 0x21, 2**30 + 5):
            buffered = ty != 0x0           # DATA payload is handed out as it arrives, the others are buffered whole
            for size in LONG_SIZES:
                need = 0 if size < 64 else 1 if size < 2**14 else 2
                for lform in range(need, 4):
                    pl = [rng.randrange(256) for _ in range(size)]
                    hdr = safe_varint(ty, None) + varint(size, lform)
                    fr = hdr + pl
                    bs = fr + GO
                    add("frame dec " + hx(bs))
                    add("frame dec " + hx(fr[:-1]))
                    sizes = [16384, 1000, 7]
                    if (not buffered) or size <= (16385 if big else 300):
                        sizes.append(1)
                    if not big and lform not in (need, 3):
                        sizes = [rng.choice(sizes)]       # quick: the middle forms get one chunking each
                    add("fs loop " + script([bs], "fin"))
                    for n in sizes:
                        if n >= len(bs):
                            continue
                        for ending in (("fin", "open") if n in (7, 16384) or big else ("fin",)):
                            add("fs loop " + script(chunks_of(bs, n), ending))
                    n = rng.choice([7, 1000, 16384])
                    # one byte short: truncation / reset inside the long payload; header cut inside the length field
                    add("fs loop " + script(chunks_of(fr[:-1], n), "fin"))
                    add("fs loop " + script(chunks_of(fr[:-1], n), "reset", rng))
                    add("fs loop " + script(chunks_of(bs, n) + [[0x00]], "reset", rng))
                    add("fs loop " + script([hdr[:-1]], "fin"))
                    k = len(chunks_of(bs, n))
                    calls = "n" + ("d" * (k + 2) if ty == 0x0 else "") + "nn"
                    add("fs calls %s %s" % (script(chunks_of(bs, n), "fin"), calls))
        # SETTINGS with many entries of unknown identifiers (a payload far beyond what h3 itself ever encodes)
        for nent in (21, 42, 43, 100, 1000, 5462):
            pl = []
            for k in range(nent - 1):
                pl += varint(0x1f * (k + 2) + 0x21) + [k % 64]
            pl += varint(0x6) + varint(4096)
            for lform in (None, 3):
                fr = [0x04] + safe_varint(len(pl), lform) + pl
                bs = fr + GO
                add("frame dec " + hx(bs))
                for n in (len(bs), 16384, 1000, 7):
                    if n < len(bs) or n == len(bs):
                        add("fs loop " + script(chunks_of(bs, n), "fin"))
                # the last entry cut (declared length shortened by one): the payload ends inside an entry
                cutfr = [0x04] + safe_varint(len(pl) - 1, lform) + pl[:-1]
                add("frame dec " + hx(cutfr + GO))
                add("fs loop " + script(chunks_of(cutfr + GO, 1000), "fin"))
        # 5. SETTINGS payloads that end inside an entry (reading R-02s)
        pre_ok = [[], [0x06, 0x10], [0x21, 0x00, 0x08, 0x01]]
        pre_bad = [[0x00, 0x00], [0x02, 0x05], [0x06, 0x10, 0x06, 0x11], [0x21, 0x00, 0x04, 0x01]]
        tails = [[0x06], [0x40], [0x06, 0x40], [0x80, 0x00, 0x00], [0x01, 0xc0, 0x00, 0x00], [0xc0, 0x00, 0x00, 0x00, 0x00, 0x00, 0x00, 0x06],
                 [0x00], [0x06, 0x80, 0x01]]
        for pre in pre_ok + pre_bad:
            for tail in tails:
                pl = pre + tail
                for lform in (None, 1):
                    fr = [0x04] + safe_varint(len(pl), lform) + pl
                    for bs in (fr, fr + GO, [0x21, 0x01, 0xee] + fr):
                        add("frame dec " + hx(bs))
                        cs = list(cuts_all(bs)) if len(bs) <= 7 else [[bs], [[b] for b in bs]] + [cuts_random(bs, rng) for _ in range(3)]
                        for parts in cs:
                            for ending in ("fin", "open"):
                                add("fs loop " + script(parts, ending))
                        add("fs calls %s %s" % (script(cuts_random(bs, rng), "fin"), "nnn"))
        # 6. declared lengths of 2^30-1 .. 2^62-1, three payload bytes, then the end of the stream (builder bC12)
        for l in huge_lines(big):
            add(l)
        # spread the long lines evenly over the list (the runs are split into contiguous parts, one per worker)
        longs = [l for l in L if len(l) > 4000]
        if longs:
            short = [l for l in L if len(l) <= 4000]
            step = max(1, len(short) // len(longs))
            L = []
            for i, l in enumerate(longs):
                L.extend(short[i * step:(i + 1) * step])
                L.append(l)
            L.extend(short[len(longs) * step:])
        if STRICT_SETTINGS:
            L = [self.strict_line(l) for l in L]
        # 5. split() at every position of a request-body reader's call sequence (builder aC13)
        self._split_cases(tier, rng, add)
        return L

    @staticmethod
    def strict_line(l):
        w = l.split(" ")
        if w[0] in ("frame", "fs") and w[1] in ("dec", "loop", "calls"):
            w[1] += "S"
        return " ".join(w)

    @staticmethod
    def judge_query(l, o):
        """the `fs judge` query for an `fs` answer sequence, None for lines that carry no judge verdict"""
        w = l.split()
        if len(w) < 3 or w[0] != "fs" or o in ("bad-op", "hang", "abort"):
            return None
        strict = "1" if w[1].endswith("S") else "0"
        op = w[1].rstrip("S")
        if op == "loop" and len(w) == 3:
            return "fs judge %s loop %s @@ %s" % (strict, w[2], o)
        if op == "calls" and len(w) == 4 and w[3] and set(w[3]) <= set("rs"):
            return None      # calls on a real RequestStream with split(): judged by the driver's own spec half (reqView)
        if op == "calls" and len(w) == 4:
            return "fs judge %s calls %s %s @@ %s" % (strict, w[2], w[3], o)
        return None

    def project_all(self, lines, impls):
        """Every `fs` answer sequence gets the verdict of the chunk-blind Lean judge in front (`ok` / `BAD@<i>`);
        the driver prints the verdict on the model's own answers the same way."""
        res = list(impls)
        idx, qs = [], []
        for k, (l, o) in enumerate(zip(lines, impls)):
            q = self.judge_query(l, o)
            if q is not None:
                idx.append(k)
                qs.append(q)
        for k, v in zip(idx, judge(qs)):
            res[k] = (v + " " + impls[k]).strip()
        return res

    def project(self, line, impl):
        return self.project_all([line], [impl])[0]

    # -------------------------------------------------------------- reading R-02s made visible (builder bC12)

    LENIENT_ALTS = (("E:proto:malformed", "E:proto:settings(*)"), ("err malformed", "err settings(*)"))

    def extra(self, tier, rng, ctx):
        """ONE note per run: how many lines of THIS run are judged with the lenient alternative of reading R-02s, on how many
        of them the code's answer passes only because of it (the same answers re-judged by the strict ops `decS` / `loopS` /
        `callsS` of the driver and the strict judge), and the shortest such line."""
        import vlib
        lines, impl, spec = ctx["lines"], ctx["impl"], ctx["spec"]
        total = len(lines)
        if not total:
            return []
        if STRICT_SETTINGS:
            bad = [i for i in range(total) if not vlib.spec_match(spec[i], impl[i])
                   and ("settings(" in impl[i] or "H3_SETTINGS_ERROR" in impl[i])]
            wit = min((lines[i] for i in bad), key=lambda l: (len(l), l)) if bad else "-"
            return [("note", "R-02s judged STRICTLY in this run (VERIF_C02_STRICT_SETTINGS=1): %d of %d lines fail it (SETTINGS payload "
                             "ends inside an entry; the code answers H3_SETTINGS_ERROR, the strict reading demands H3_FRAME_ERROR; the "
                             "default run accepts both codes on them; witness `%s`)" % (len(bad), total, wit), None)]

        def alts(sp):
            a = [" ".join(x.split()) for x in sp.split(" || ")]
            return any(any(x.endswith(m) for x in a) and any(x.endswith(s_) for x in a) for m, s_ in self.LENIENT_ALTS)
        both = [i for i in range(total) if alts(spec[i])]
        # candidates for a verdict that depends on the reading: the spec string offers both codes, or the code answered a SETTINGS error
        cand = sorted(set(both) | {i for i in range(total) if "settings(" in impl[i] or "H3_SETTINGS_ERROR" in impl[i]})
        cand = [i for i in cand if lines[i].split(" ")[0] in ("frame", "fs") and lines[i].split(" ")[1] in ("dec", "loop", "calls")]
        raws = []
        for i in cand:        # the raw answer: the projection put the lenient judge's verdict in front of the judged `fs` lines
            o = impl[i]
            if self.judge_query(lines[i], "x") is not None and o.split(" ")[0].startswith(("ok", "BAD")):
                o = " ".join(o.split(" ")[1:])
            raws.append(o)
        sl = [self.strict_line(lines[i]) for i in cand]
        try:
            simpl = self.project_all(sl, raws)
            _, sspec = vlib.run_model(sl)
        except Exception as e:      # never silent: without the strict re-judgement the count cannot be given
            return [("broken", "R-02s note: strict re-judgement of %d lines failed (%s)" % (len(sl), e), None)]
        fail = [cand[j] for j in range(len(cand)) if not vlib.spec_match(sspec[j], simpl[j])]
        failset = set(fail)
        k_in_both = sum(1 for i in both if i in failset)
        overlap = sum(1 for i in both if i not in failset and ("settings(" in impl[i]))
        beyond = len(fail) - k_in_both
        wit = min((lines[i] for i in fail), key=lambda l: (len(l), l)) if fail else "-"
        self.r02s_counts = {"lines": total, "both_alternatives": len(both), "strict_violation": len(fail),
                            "strict_violation_among_both": k_in_both, "overlap_both_codes_demanded": overlap}
        return [("note", "R-02s undecided: %d of %d lines accept E:proto:malformed || E:proto:settings(*) (SETTINGS payload ends inside an "
                         "entry; the code answers H3_SETTINGS_ERROR on %d of them where the strict reading demands H3_FRAME_ERROR only, "
                         "and on %d more the strict reading itself accepts both codes - a reserved or repeated identifier was received "
                         "in full, R-02s overlap; %d further lines, `fs calls` histories judged by `ok **` / `E:conn:*`, pass only under "
                         "the lenient judge: %d lines in all that VERIF_C02_STRICT_SETTINGS=1 shows as VIOLATION; witness `%s`)"
                         % (len(both), total, k_in_both, overlap, beyond, len(fail), wit), None)]

    def klass_raw(self, line, raw):
        return self.klass(line, raw)

    def trivial_raw(self, line, raw):
        return self.trivial(line, raw)


    # ------------------------------------------------------------------ second round (seeds2/C02 patch3): split()

    def _split_cases(self, tier, rng, add):
        """`fs calls <script> <calls over r, s>`: a request-body reader (`r` = one poll_recv_data on a real
        client::RequestStream over the scripted stream) with `s` = split() at every position of the call sequence"""
        big = tier == "thorough"

        def lines(parts, ending, pend, allpos):
            sc = script(parts, ending, rng, pend)
            nev = len(sc.split(",")) if sc != "-" else 0
            nbytes = sum(len(p) for p in parts)
            n = nev + nbytes // 2 + 2
            add("fs calls %s %s" % (sc, "r" * n))
            pos = list(range(n + 1))
            if not allpos and len(pos) > 14:
                pos = sorted(set([0, 1, 2, 3, n] + rng.sample(pos, 9)))
            for i in pos:
                add("fs calls %s %s" % (sc, "r" * i + "s" + "r" * (n - i)))

        # 1. exhaustive: one DATA frame (+ a second frame), every cut pattern, every split position, both endings
        strings = [[0x00, 0x01, 0xa1], [0x00, 0x02, 0xa1, 0xa2], [0x00, 0x03, 0xa1, 0xa2, 0xa3], [0x00, 0x04, 0x00, 0x01, 0x02, 0x03],
                   [0x00, 0x02, 0x00, 0x01, 0x00, 0x01, 0xb1], [0x00, 0x03, 0x07, 0x01, 0x05, 0x21, 0x00],
                   [0x00, 0x04, 0x04, 0x02, 0x06, 0x05], [0x00, 0x05, 0xa1, 0xa2, 0xa3], [0x21, 0x02, 0x00, 0x01, 0x00, 0x01, 0xc1],
                   [0x00, 0x00, 0x00, 0x02, 0x01, 0x00, 0x01, 0x00]]
        for bs in strings:
            for parts in cuts_all(bs):
                for ending in ("fin", "open"):
                    lines(parts, ending, 0.0, True)
        # 2. bodies built from the grammar: DATA frames of 0..12 bytes whose payload LOOKS like frames, unknown frames in
        #    between, optionally trailers / a frame that is an error / a truncation; cut at random, Pending inserted
        def body():
            bs = []
            for _ in range(rng.choice([1, 1, 2, 3])):
                r = rng.random()
                if r < 0.7:
                    n = rng.choice([0, 1, 2, 3, 4, 5, 8, 12])
                    pl = []
                    while len(pl) < n:     # payload bytes that decode as frame headers if taken for one
                        pl += rng.choice([[0x00, 0x01], [0x01, 0x00], [0x07, 0x01, 0x05], [0x04, 0x00], [0x21, 0x01], [0x02, 0x00],
                                          [0x00, 0x05], [0x40, 0x00], [rng.randrange(256)]])
                    bs += frame(0x0, pl[:n], rng, rng.choice([None, None, 1, 2, 3]), rng.choice([None, None, 1, 2, 3]))
                elif r < 0.85:
                    ty = rng.choice(OTHER)
                    bs += frame(ty, payload_for(ty, rng), rng)
                else:
                    bs += frame(0x0, [rng.randrange(256) for _ in range(rng.choice([6, 20, 70]))], rng)
            r = rng.random()
            if r < 0.2:
                bs += frame(0x1, [rng.randrange(256) for _ in range(rng.randrange(0, 5))], rng)       # trailers end the body
            elif r < 0.35:
                ty = rng.choice([0x3, 0x4, 0x5, 0x7, 0xd] + H2)
                bs += frame(ty, payload_for(ty, rng), rng, None, None, rng.choice([0, 0, 1, -1]))
            if rng.random() < 0.25 and len(bs) > 1:
                bs = bs[:rng.randrange(1, len(bs))]
            return bs

        for _ in range(1500 if big else 260):
            bs = body()
            if len(bs) <= 6:
                cs = list(cuts_all(bs))
                if len(cs) > 8:
                    cs = rng.sample(cs, 8)
            else:
                cs = [cuts_random(bs, rng) for _ in range(3)] + [[bs]] + [[[b] for b in bs]]
            for parts in cs:
                parts = [p for p in parts if p]
                lines(parts, rng.choice(["fin", "fin", "open", "reset"]), rng.choice([0.0, 0.0, 0.3]), False)
        add("fs calls c0001aa,f rsrsr")      # the halves cannot be split again: bad-op on both sides

    def klass(self, line, impl):
        k = self.klass0(line, impl)
        return k + "/huge" if line in HUGE else k          # declared length >= 2^30-1 (builder bC12): a class of their own

    def klass0(self, line, impl):
        w = line.split()
        if w[0] == "fs" and len(w) > 3 and w[1] == "calls" and w[3] and set(w[3]) <= set("rs"):
            last = impl.split(" ")[-1] if impl else "empty"
            kind = last.split(":")[0] + (":" + last.split(":")[-1] if last.startswith("E:") else "")
            where = "none" if "s" not in w[3] else "first" if w[3].startswith("s") else "between"
            return "fs/calls-rs/end=%s/data=%d/split=%s" % (kind, min(impl.count("D:"), 1), where)
        if w[0] == "frame":
            return "frame/" + impl.split(" ")[0] + ("/" + impl.split(" ")[1].split("(")[0] if impl.startswith(("ok", "err")) else "")
        last = impl.split(" ")[-1] if impl else "empty"
        kind = last.split(":")[0] + (":" + last.split(":")[1] if last.startswith("E:") else "")
        nfr = sum(1 for t in impl.split(" ") if t.startswith("F:"))
        nbig = sum(1 for t in impl.split(" ") if len(t) > 2 * 63 + 12)
        return "fs/%s/end=%s/frames=%s%s" % (w[1], kind, min(nfr, 3), "/long" if nbig else "")

    def trivial(self, line, impl):
        if impl in ("bad-op", "P", "N", ""):
            return True
        if line.startswith("frame dec") and impl.startswith("incomplete"):
            return True
        return False

    def shrink_candidates(self, line):
        w = line.split()
        out = []
        if w[0] == "frame" and w[2] != "-" and len(w[2]) > 2:
            out.append("frame %s %s" % (w[1], w[2][:-2]))
            out.append("frame %s %s" % (w[1], w[2][2:]))
        if w[0] == "fs" and len(w) > 3 and w[1] == "calls" and set(w[3]) <= set("rs"):
            # fewer calls (the split stays)
            for i, c in enumerate(w[3]):
                if c == "r" and len(w[3]) > 2:
                    out.append(" ".join(w[:3] + [w[3][:i] + w[3][i + 1:]]))
        if w[0] == "fs":
            evs = w[2].split(",") if w[2] != "-" else []
            if len(evs) > 40:
                # a long script: first try coarse steps (all chunks of a run merged; adjacent chunks merged pairwise)
                def merged(group):
                    m, run = [], []
                    for e in evs:
                        if e.startswith("c") and len(run) < group:
                            run.append(e[1:])
                            continue
                        if run:
                            m.append("c" + "".join(run))
                        run = [e[1:]] if e.startswith("c") else []
                        if not e.startswith("c"):
                            m.append(e)
                    if run:
                        m.append("c" + "".join(run))
                    return m
                for g in (len(evs), 64, 8, 2):
                    out.append(" ".join(w[:2] + [",".join(merged(g))] + w[3:]))
                return out
            for i in range(len(evs)):
                rest = evs[:i] + evs[i + 1:]
                out.append(" ".join(w[:2] + [",".join(rest) if rest else "-"] + w[3:]))
            # merge adjacent chunks
            for i in range(len(evs) - 1):
                if evs[i].startswith("c") and evs[i + 1].startswith("c"):
                    m = evs[:i] + [evs[i] + evs[i + 1][1:]] + evs[i + 2:]
                    out.append(" ".join(w[:2] + [",".join(m)] + w[3:]))
        return out


# second round (split()): appended here so that the class body above stays as it was
C02.rule = C02.rule.replace("; non-trivial = ", "; `fs calls` over r (poll_recv_data on a real client::RequestStream over the scripted "
                            "stream) and s (split()): DATA frames whose payload looks like frame headers, every cut pattern of short "
                            "strings and random cuts of longer bodies, s at every position of the call sequence, judged by the RFC "
                            "oracle; non-trivial = ")
C02.level_text += ("; split() is the identity on the frame-layer state (buffer, end-of-stream flag, expected memo, remaining_data): "
                   "call sequences with splits anywhere answer like the same sequences without them, also for the request-body "
                   "reader poll_recv_data, whose frame-layer answers stay a prefix of the reference automaton's tokens")
C02.rule = C02.rule.replace("; non-trivial = ", "; (6) declared lengths of 2^30-1 (largest 4-byte form), 2^30, 2^32, 2^62-1 (thorough also "
                            "2^32-1, 2^31, 2^32+255, 2^61, 2^62-2) with three payload bytes, for DATA, HEADERS, SETTINGS, GOAWAY, CANCEL_PUSH, "
                            "MAX_PUSH_ID, unknown 0x21 in one- and two-byte form and the largest reserved type: `frame dec`, `fs loop` whole / "
                            "cut inside the length field / after the header / byte by byte x fin/open(/reset), `fs calls` in both call "
                            "languages (classes with the suffix /huge; also corpus/C02/huge_lengths.txt); the NOTE line `R-02s undecided` "
                            "counts, from this run's answers re-judged by the strict ops, the lines whose verdict depends on reading R-02s"
                            "; non-trivial = ")
C02.level_text += ("; whenever Frame::decode answers Incomplete(m), m <= buffered + 1 or m < 2^62 + 2, so `remaining + 1` and `2 + len` "
                   "stay inside a 64-bit usize (C02_incomplete_no_wrap)")
C02.assumptions = C02.assumptions + ["usize is 64 bits wide (`len as usize` keeps a 62-bit declared length; on a 32-bit target it would truncate)"]
C02.level_note += ("; split() is reached through a real client::RequestStream (send_request over a one-stream scripted transport), "
                   "the only public way to FrameStream::split")

PROP = C02()
