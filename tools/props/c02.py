import itertools

from vlib import Prop
from props.c16 import hx

ALPHA = [0x00, 0x01, 0x02, 0x03, 0x04, 0x05, 0x06, 0x07, 0x08, 0x09, 0x0d, 0x0f, 0x21, 0x40, 0x41, 0x80, 0xc0, 0xff]
KNOWN = [0x0, 0x1, 0x3, 0x4, 0x5, 0x7, 0xd]
H2 = [0x2, 0x6, 0x8, 0x9]
OTHER = [0x21, 0x40, 0x0f, 0x1f * 7 + 0x21, 2**30 + 5]


def varint(v, form=None):
    if form is None:
        form = 0 if v < 64 else 1 if v < 2**14 else 2 if v < 2**30 else 3
    n = 1 << form
    x = v | (form << (8 * n - 2))
    return list(x.to_bytes(n, "big"))


def cuts_all(bs):
    n = len(bs)
    if n == 0:
        yield []
        return
    for mask in range(1 << (n - 1)):
        parts, cur = [], [bs[0]]
        for i in range(1, n):
            if mask >> (i - 1) & 1:
                parts.append(cur)
                cur = []
            cur.append(bs[i])
        parts.append(cur)
        yield parts


def cuts_random(bs, rng):
    parts, cur = [], []
    p = rng.choice([0.1, 0.3, 0.6, 1.0])
    for b in bs:
        cur.append(b)
        if rng.random() < p:
            parts.append(cur)
            cur = []
    if cur:
        parts.append(cur)
    return parts


def script(parts, ending, rng=None, pend=0.0):
    ev = []
    for p in parts:
        if rng is not None and rng.random() < pend:
            ev.append("p")
        ev.append("c" + hx(p))
    if rng is not None and rng.random() < pend:
        ev.append("p")
    if ending == "fin":
        ev.append("f")
    elif ending == "reset":
        ev.append("r%d" % (rng.randrange(0, 1000) if rng else 7))
    return ",".join(ev) if ev else "-"


def payload_for(ty, rng, valid=True):
    if ty in (0x3, 0x7, 0xd):
        return safe_varint(rng.choice([0, 1, 4, 63, 64, 300, 2**20, 2**40]), rng.choice([None, None, 0, 1, 2, 3]))
    if ty == 0x4:
        ids = [0x1, 0x6, 0x7, 0x8, 0x33, 0x2b603742, 0x2b603743, 0x21, 0x40]
        out = []
        for _ in range(rng.randrange(0, 4)):
            out += varint(rng.choice(ids)) + varint(rng.choice([0, 1, 100, 2**20]))
        return out
    if ty == 0x5:
        return varint(rng.choice([0, 5, 70])) + [rng.randrange(256) for _ in range(rng.randrange(0, 4))]
    return [rng.randrange(256) for _ in range(rng.choice([0, 0, 1, 2, 3, 5, 9]))]


def safe_varint(v, form):
    need = 0 if v < 64 else 1 if v < 2**14 else 2 if v < 2**30 else 3
    if form is None or form < need:
        form = need
    return varint(v, form)


def frame(ty, payload, rng, tform=None, lform=None, lendelta=0):
    ln = max(0, len(payload) + lendelta)
    return safe_varint(ty, tform) + safe_varint(ln, lform) + payload


class C02(Prop):
    id = "C02"
    modules = ["H3.Props.C02", "H3.Lemmas.GenAgreeFrame"]
    engines = ["frame", "fs"]
    design_ref = "DESIGN.md section 7, C02 and Appendix B.1"
    level_text = ("Lean theorems (unbounded, all proved in full) over models of Frame::decode, FrameDecoder::decode, "
                  "FrameStream::{poll_next,poll_data}, BufList advance/take_chunk: Frame::decode is the RFC 9114 §7.1 segmentation "
                  "with the §7.2 payload grammar (SETTINGS error iff the spec says so); it satisfies the three decoder laws "
                  "(stability, minimality, Incomplete(n) a sound lower bound); for every decoder with these laws, every script of "
                  "non-empty chunks with Pending/FIN/RESET anywhere and every poll_next/poll_data call sequence, the invariant "
                  "seen = consumed ++ buffer holds with the tokens handed out = those of a byte-at-a-time reference automaton over "
                  "consumed, consumed offsets are segment boundaries, hence independent of chunking; after FIN no call is Pending and "
                  "truncation (also inside DATA, also at a chunk boundary) ends the reader loop with UnexpectedEnd, never a clean end; "
                  "the reference automaton agrees with the RFC oracle `observe`, so the reader loop's observations are those of "
                  "`observe w ending` for all chunkings")
    level_note = ("trusted: Lean kernel + 3 standard axioms; hand model tied to the code by running real FrameStream over a scripted "
                  "RecvStream on the same scripts (all short strings over an 18-byte alphabet x all cut patterns x endings, "
                  "frame sequences with every type/length form, mutations, random call sequences); Cursor/BufList read-through is "
                  "covered by the cuts; SETTINGS payload details belong to C13; WebTransport 0x41 header belongs to C19")
    rule = ("cases: `frame dec` and `fs loop`/`fs calls` lines; strings: all of length<=3 (quick) / <=4 (thorough) over an 18-byte "
            "alphabet x all 2^(n-1) cut patterns x {fin, open}; grammar-built frame sequences (every known/H2/unknown type, all "
            "varint forms, length field +-1/2, truncation at every offset) x all cuts if <=9 bytes else random cuts, Pending "
            "inserted, endings fin/open/reset; random call sequences; non-trivial = the implementation emitted at least one frame, "
            "data piece or error (not only `P`/`N`/bad-op)")
    trusted = ["bytes::Bytes split_to/advance semantics",
               "translator decision table H3.Gen.FrameDispatch (Frame::decode: frame type -> payload parser / Frame variant, the HTTP/2-reserved types, unknown = skipped) and H3.Gen.FrameErrCodes (arms of FrameDecoder::decode, got_frame_error), re-read from h3/src/proto/frame.rs, h3/src/frame.rs, h3/src/error/internal_error.rs on this run (any other shape of these functions is refused); tied to the model by H3.Lemmas.GenAgreeFrame (decode_agrees: H3.Frame.decode = the decoder written over the generated table, for every byte string), rebuilt on this run"]
    assumptions = ["transport chunks are non-empty (R-T)", "for RESET endings only the prefix claim is made (App. B.1)"]

    def cases(self, tier, rng):
        big = tier == "thorough"
        L = []
        seen = set()

        def add(l):
            if l not in seen:
                seen.add(l)
                L.append(l)

        # 1. exhaustive short strings
        maxlen = 4 if big else 3
        for n in range(0, maxlen + 1):
            for t in itertools.product(ALPHA, repeat=n):
                bs = list(t)
                add("frame dec " + hx(bs))
                allcuts = list(cuts_all(bs))
                if n == 4 and not big:
                    allcuts = allcuts[:1]
                for parts in allcuts:
                    for ending in ("fin", "open"):
                        add("fs loop " + script(parts, ending))
        # 2. grammar-built frame sequences
        nseq = 12000 if big else 2500
        for i in range(nseq):
            k = rng.choice([1, 1, 2, 2, 3, 4])
            bs = []
            for _ in range(k):
                r = rng.random()
                ty = rng.choice(KNOWN) if r < 0.6 else rng.choice(H2) if r < 0.68 else rng.choice(OTHER)
                pl = payload_for(ty, rng)
                delta = rng.choice([0] * 8 + [1, -1, 2, -2])
                bs += frame(ty, pl, rng, rng.choice([None, None, None, 1, 2, 3]), rng.choice([None, None, None, 1, 2, 3]), delta)
            variants = [bs]
            if rng.random() < 0.5 and len(bs) > 1:
                variants.append(bs[:rng.randrange(1, len(bs))])
            if rng.random() < 0.2 and bs:
                m = list(bs)
                m[rng.randrange(len(m))] = rng.randrange(256)
                variants.append(m)
            for v in variants:
                add("frame dec " + hx(v))
                if len(v) <= (9 if big else 7):
                    cs = list(cuts_all(v))
                    if len(cs) > 64:
                        cs = rng.sample(cs, 64)
                else:
                    cs = [cuts_random(v, rng) for _ in range(6 if big else 3)] + [[v]] + [[[b] for b in v]]
                for parts in cs:
                    ending = rng.choice(["fin", "fin", "open", "reset"])
                    add("fs loop " + script(parts, ending, rng, rng.choice([0.0, 0.0, 0.3])))
                    if rng.random() < 0.3:
                        calls = "".join(rng.choice("nnd") for _ in range(rng.randrange(1, 12)))
                        add("fs calls %s %s" % (script(parts, ending, rng, 0.2), calls))
        # 3. truncation of one well-formed sequence at every offset, every ending
        base = frame(0x1, [1, 2, 3], rng) + frame(0x0, [9, 8, 7, 6], rng) + frame(0x21, [5, 5], rng) + frame(0x7, [4], rng) + frame(0x0, [], rng) + frame(0x1, [0xaa], rng)
        for cut in range(len(base) + 1):
            v = base[:cut]
            for parts in ([v] if v else [[]], [[b] for b in v], cuts_random(v, rng)):
                parts = [p for p in parts if p]
                for ending in ("fin", "open"):
                    add("fs loop " + script(parts, ending))
        # 4. split() at every position of a request-body reader's call sequence
        self._split_cases(tier, rng, add)
        return L


    # ------------------------------------------------------------------ second round (seeds2/C02 patch3): split()

    def _split_cases(self, tier, rng, add):
        """`fs calls <script> <calls over r, s>`: a request-body reader (`r` = one poll_recv_data on a real
        client::RequestStream over the scripted stream) with `s` = split() at every position of the call sequence"""
        big = tier == "thorough"

        def lines(parts, ending, pend, allpos):
            sc = script(parts, ending, rng, pend)
            nev = len(sc.split(",")) if sc != "-" else 0
            nbytes = sum(len(p) for p in parts)
            n = nev + nbytes // 2 + 2
            add("fs calls %s %s" % (sc, "r" * n))
            pos = list(range(n + 1))
            if not allpos and len(pos) > 14:
                pos = sorted(set([0, 1, 2, 3, n] + rng.sample(pos, 9)))
            for i in pos:
                add("fs calls %s %s" % (sc, "r" * i + "s" + "r" * (n - i)))

        # 1. exhaustive: one DATA frame (+ a second frame), every cut pattern, every split position, both endings
        strings = [[0x00, 0x01, 0xa1], [0x00, 0x02, 0xa1, 0xa2], [0x00, 0x03, 0xa1, 0xa2, 0xa3], [0x00, 0x04, 0x00, 0x01, 0x02, 0x03],
                   [0x00, 0x02, 0x00, 0x01, 0x00, 0x01, 0xb1], [0x00, 0x03, 0x07, 0x01, 0x05, 0x21, 0x00],
                   [0x00, 0x04, 0x04, 0x02, 0x06, 0x05], [0x00, 0x05, 0xa1, 0xa2, 0xa3], [0x21, 0x02, 0x00, 0x01, 0x00, 0x01, 0xc1],
                   [0x00, 0x00, 0x00, 0x02, 0x01, 0x00, 0x01, 0x00]]
        for bs in strings:
            for parts in cuts_all(bs):
                for ending in ("fin", "open"):
                    lines(parts, ending, 0.0, True)
        # 2. bodies built from the grammar: DATA frames of 0..12 bytes whose payload LOOKS like frames, unknown frames in
        #    between, optionally trailers / a frame that is an error / a truncation; cut at random, Pending inserted
        def body():
            bs = []
            for _ in range(rng.choice([1, 1, 2, 3])):
                r = rng.random()
                if r < 0.7:
                    n = rng.choice([0, 1, 2, 3, 4, 5, 8, 12])
                    pl = []
                    while len(pl) < n:     # payload bytes that decode as frame headers if taken for one
                        pl += rng.choice([[0x00, 0x01], [0x01, 0x00], [0x07, 0x01, 0x05], [0x04, 0x00], [0x21, 0x01], [0x02, 0x00],
                                          [0x00, 0x05], [0x40, 0x00], [rng.randrange(256)]])
                    bs += frame(0x0, pl[:n], rng, rng.choice([None, None, 1, 2, 3]), rng.choice([None, None, 1, 2, 3]))
                elif r < 0.85:
                    ty = rng.choice(OTHER)
                    bs += frame(ty, payload_for(ty, rng), rng)
                else:
                    bs += frame(0x0, [rng.randrange(256) for _ in range(rng.choice([6, 20, 70]))], rng)
            r = rng.random()
            if r < 0.2:
                bs += frame(0x1, [rng.randrange(256) for _ in range(rng.randrange(0, 5))], rng)       # trailers end the body
            elif r < 0.35:
                ty = rng.choice([0x3, 0x4, 0x5, 0x7, 0xd] + H2)
                bs += frame(ty, payload_for(ty, rng), rng, None, None, rng.choice([0, 0, 1, -1]))
            if rng.random() < 0.25 and len(bs) > 1:
                bs = bs[:rng.randrange(1, len(bs))]
            return bs

        for _ in range(1500 if big else 260):
            bs = body()
            if len(bs) <= 6:
                cs = list(cuts_all(bs))
                if len(cs) > 8:
                    cs = rng.sample(cs, 8)
            else:
                cs = [cuts_random(bs, rng) for _ in range(3)] + [[bs]] + [[[b] for b in bs]]
            for parts in cs:
                parts = [p for p in parts if p]
                lines(parts, rng.choice(["fin", "fin", "open", "reset"]), rng.choice([0.0, 0.0, 0.3]), False)
        add("fs calls c0001aa,f rsrsr")      # the halves cannot be split again: bad-op on both sides

    def klass(self, line, impl):
        w = line.split()
        if w[0] == "fs" and len(w) > 3 and w[1] == "calls" and w[3] and set(w[3]) <= set("rs"):
            last = impl.split(" ")[-1] if impl else "empty"
            kind = last.split(":")[0] + (":" + last.split(":")[-1] if last.startswith("E:") else "")
            where = "none" if "s" not in w[3] else "first" if w[3].startswith("s") else "between"
            return "fs/calls-rs/end=%s/data=%d/split=%s" % (kind, min(impl.count("D:"), 1), where)
        if w[0] == "frame":
            return "frame/" + impl.split(" ")[0] + ("/" + impl.split(" ")[1].split("(")[0] if impl.startswith(("ok", "err")) else "")
        last = impl.split(" ")[-1] if impl else "empty"
        kind = last.split(":")[0] + (":" + last.split(":")[1] if last.startswith("E:") else "")
        nfr = sum(1 for t in impl.split(" ") if t.startswith("F:"))
        return "fs/%s/end=%s/frames=%s" % (w[1], kind, min(nfr, 3))

    def trivial(self, line, impl):
        if impl in ("bad-op", "P", "N", ""):
            return True
        if line.startswith("frame dec") and impl.startswith("incomplete"):
            return True
        return False

    def shrink_candidates(self, line):
        w = line.split()
        out = []
        if w[0] == "frame" and w[2] != "-" and len(w[2]) > 2:
            out.append("frame dec " + w[2][:-2])
            out.append("frame dec " + w[2][2:])
        if w[0] == "fs" and len(w) > 3 and w[1] == "calls" and set(w[3]) <= set("rs"):
            # fewer calls (the split stays)
            for i, c in enumerate(w[3]):
                if c == "r" and len(w[3]) > 2:
                    out.append(" ".join(w[:3] + [w[3][:i] + w[3][i + 1:]]))
        if w[0] == "fs":
            evs = w[2].split(",") if w[2] != "-" else []
            for i in range(len(evs)):
                rest = evs[:i] + evs[i + 1:]
                out.append(" ".join(w[:2] + [",".join(rest) if rest else "-"] + w[3:]))
            # merge adjacent chunks
            for i in range(len(evs) - 1):
                if evs[i].startswith("c") and evs[i + 1].startswith("c"):
                    m = evs[:i] + [evs[i] + evs[i + 1][1:]] + evs[i + 2:]
                    out.append(" ".join(w[:2] + [",".join(m)] + w[3:]))
        return out


# second round (split()): appended here so that the class body above stays as it was
C02.rule = C02.rule.replace("; non-trivial = ", "; `fs calls` over r (poll_recv_data on a real client::RequestStream over the scripted "
                            "stream) and s (split()): DATA frames whose payload looks like frame headers, every cut pattern of short "
                            "strings and random cuts of longer bodies, s at every position of the call sequence, judged by the RFC "
                            "oracle; non-trivial = ")
C02.level_text += ("; split() is the identity on the frame-layer state (buffer, end-of-stream flag, expected memo, remaining_data): "
                   "call sequences with splits anywhere answer like the same sequences without them, also for the request-body "
                   "reader poll_recv_data, whose frame-layer answers stay a prefix of the reference automaton's tokens")
C02.level_note += ("; split() is reached through a real client::RequestStream (send_request over a one-stream scripted transport), "
                   "the only public way to FrameStream::split")

PROP = C02()
