import re

from vlib import Prop
from props.c16 import hx
from props.c11 import Enc, fstr

U64 = 2**64 - 1
DEFAULT = 2**62 - 1
URI = hx(list(b"https://a/"))


def varint(v):
    form = 0 if v < 64 else 1 if v < 2**14 else 2 if v < 2**30 else 3
    n = 1 << form
    return list((v | (form << (8 * n - 2))).to_bytes(n, "big"))


def headers_frame(block):
    return [0x01] + varint(len(block)) + list(block)


def settings_chunk(limit):
    """control stream type, then a SETTINGS frame carrying MAX_FIELD_SECTION_SIZE (or nothing)"""
    payload = [] if limit is None else [0x06] + varint(limit)
    return [0x00, 0x04] + varint(len(payload)) + payload


ENC = Enc()
# GET https://a/ : 42 + 44 + 43 + 38 = 167
REQ_FIELDS = [(b":method", b"GET"), (b":scheme", b"https"), (b":authority", b"a"), (b":path", b"/")]
REQ_SIZE = 167
# :status 200 : 42
RESP_FIELDS = [(b":status", b"200")]
RESP_SIZE = 42


def size(fs):
    return sum(len(n) + len(v) + 32 for n, v in fs)


def block(fs, rng=None):
    """a valid encoding of `fs` by the generator's own encoder (forms chosen at random)"""
    from props.c11 import appendix_a
    table = appendix_a()
    out = [0, 0]
    for n, v in fs:
        n, v = list(n), list(v)
        full = [i for i, (a, b) in enumerate(table) if a == n and b == v]
        name = [i for i, (a, b) in enumerate(table) if a == n]
        k = rng.randrange(3) if rng else 0
        if full and k != 2:
            out += ENC.indexed(full[0])
        elif name and k != 2:
            out += ENC.name_ref(name[rng.randrange(len(name)) if rng else 0], v, nbit=rng.randrange(2) if rng else 0,
                                h=rng.randrange(2) if rng else 1)
        else:
            out += ENC.literal(n, v, hn=rng.randrange(2) if rng else 1, hv=rng.randrange(2) if rng else 1)
    return out


REQ_BLOCK = block(REQ_FIELDS)
RESP_BLOCK = block(RESP_FIELDS)


def client_pre(limit="absent", hdrs="-"):
    """client scenario up to an open request stream 0 (peer SETTINGS first unless `absent`)"""
    s = "" if limit == "absent" else "o3 s3:%s " % hx(settings_chunk(limit))
    return s + "snd.R:GET:%s:%s" % (URI, hdrs)


def server_pre():
    return "o0 s0:%s" % hx(headers_frame(REQ_BLOCK))


def pad_to(base_fields, target, name=b"x"):
    """`base_fields` plus one field `name: aaa…` so that the section size is `target`
    (None when that is impossible)"""
    extra = target - size(base_fields) - len(name) - 32
    if extra < 0:
        return None
    return list(base_fields) + [(name, b"a" * extra)]


def hdrs_arg(fs):
    """scenario header argument for the non-pseudo fields"""
    fs = [(n, v) for n, v in fs if not bytes(n).startswith(b":")]
    return ";".join("%s=%s" % (bytes(n).decode(), hx(list(v))) for n, v in fs) if fs else "-"


def project_lim(impl):
    """what the `lim` model predicts: results of the q0/snd calls (message contents dropped),
    stream 0 as the peer saw it, codes of `close`"""
    if " | " not in impl:
        return impl
    trace, summ = impl.split(" | ", 1)
    keep = []
    for t in trace.split():
        if t.startswith("q0.") or t.startswith("q0s.") or t.startswith("snd."):
            t = re.sub(r"^(q0\.res=ok):.*$", r"\1", t)
            t = re.sub(r"^(q0\.rr=ok):.*$", r"\1", t)
            t = re.sub(r"^(q0\.rt=trailers):.*$", r"\1", t)
            keep.append(t)
    # stream 0 and the later request streams of the same handle (4, 8, ...: bidirectional, client-initiated)
    def req_stream(p):
        sid = p.split(":", 1)[0]
        return sid.isdigit() and int(sid) % 4 == 0
    parts = [p for p in summ.split() if req_stream(p) or p.startswith("closed=")]
    return "%s | %s" % (" ".join(keep) if keep else "-", " ".join(parts))


# ---------------------------------------------------------------------------------------------------------------------
# histories on ONE client handle (second round, seeds2/C11 patch3): an accepted request, a request refused locally
# for its size (the peer's limit is known), then further requests.  Every request has its own stream; what is written
# on it has to be the encoding of THAT request's fields (model: `encodeStateless` of its own field list) — a refused
# request writes nothing, neither on its own stream nor, later, on somebody else's.

HIST_POOL = [(b"accept", b"*/*"), (b"accept-encoding", b"gzip, deflate, br"), (b"cache-control", b"no-cache"),
             (b"user-agent", None), (b"cookie", None), (b"referer", None), (b"x-a", None), (b"x-b", None),
             (b"x-custom-name-long", None), (b"accept-language", None), (b"if-none-match", None)]
HIST_SHAPES = ["ARA", "RA", "AARA", "ARRA", "ARARA", "RRA", "ARAA", "AAA", "RR"]


def _hist_fields(rng, limit, refused):
    """non-pseudo fields of one GET https://a/ request: size <= limit (accepted) or > limit (refused)"""
    k = rng.randrange(0, 4)
    fs = []
    for n, v in rng.sample(HIST_POOL, k):
        if v is None:
            v = bytes(rng.choice(b"abcdefghijklmnopqrstuvwxyz0123456789=;, /-_.") for _ in range(rng.choice([0, 1, 3, 8, 20])))
        fs.append((n, v))
    while size(REQ_FIELDS + fs) > limit and fs:
        fs.pop()
    if refused:
        d = rng.choice([1, 1, 2, 33, 50, 100, 300])
        while True:
            padded = pad_to(REQ_FIELDS + fs, limit + d, b"x-pad")
            if padded is not None:
                return padded[len(REQ_FIELDS):]
            d += 37
    return fs


def history_lines(rng, nrandom):
    """`lim client` lines with several `send_request` calls on the same handle"""
    out = []

    def line(limit, shape, settings_after_first):
        cs = "o3 s3:%s" % hx(settings_chunk(limit))
        ops = []
        for i, c in enumerate(shape):
            # before the peer's SETTINGS have arrived every request fits the protocol default
            refused = c == "R" and not (settings_after_first and i == 0)
            ops.append("snd.R:GET:%s:%s" % (URI, hdrs_arg(REQ_FIELDS + _hist_fields(rng, limit, refused))))
        if settings_after_first:
            ops.insert(1, cs)
        else:
            ops.insert(0, cs)
        return "lim client - drv.W " + " ".join(ops)

    for limit in (167, 168, 200, 250, 1000):
        for shape in HIST_SHAPES:
            out.append(line(limit, shape, False))
            out.append(line(limit, "A" + shape, True))
    for _ in range(nrandom):
        limit = rng.choice([167, 170, 199, 200, 220, 250, 400, 1000, 5000])
        n = rng.randrange(2, 8)
        shape = "".join(rng.choice("AAR") for _ in range(n))
        out.append(line(limit, shape, rng.random() < 0.3))
    return out


def history_shrinks(line):
    """drop one `send_request` of a history at a time (the line stays a complete scenario)"""
    w = line.split()
    idx = [i for i, t in enumerate(w) if t.startswith("snd.R:")]
    if len(idx) < 2:
        return []
    out = [" ".join(w[:i] + w[i + 1:]) for i in idx]
    # and the optional fields of one request
    for i in idx:
        head, _, hdrs = w[i].rpartition(":")
        fs = hdrs.split(";") if hdrs != "-" else []
        fs = [f for f in fs]
        for j in range(len(fs)):
            if not fs[j].startswith("x-pad="):
                rest = fs[:j] + fs[j + 1:]
                out.append(" ".join(w[:i] + [head + ":" + (";".join(rest) if rest else "-")] + w[i + 1:]))
    return out


class C10(Prop):
    id = "C10"
    modules = ["H3.Props.C10", "H3.Props.C11Closed", "H3.Lemmas.GenAgreeSend", "H3.Lemmas.GenAgreeQpack"]
    engines = ["qpack", "lim"]
    design_ref = "DESIGN.md section 7, C10"
    level_text = ("Lean theorems over the Qpack model (running mem_size with early cancel) and the six call sites as decision "
                  "functions (sendSite for send_request/send_response/send_trailers with SharedState.settings as Option + the "
                  "protocol default 2^62-1 regenerated from config.rs; recvSite for accept_with_frame/recv_response/"
                  "poll_recv_trailers; serverResolve for the 431): a section h3 can decode at all is accepted under limit L "
                  "iff its RFC 9114 4.2.2 size <= L and otherwise refused with HeaderTooLong(n), L < n <= size, n never "
                  "wrapping (size <= 272*|block|); encode_stateless returns exactly the size and a send site refuses iff "
                  "size > peerLimit, writing nothing (send_request: the limit in force when its stream has been opened, "
                  "whatever it was at the call; split leaves the receive half's limit unchanged); over-limit receive outcomes (431 attempted, refused 431 still "
                  "header-too-big, STOP_SENDING H3_REQUEST_CANCELLED on the client) never touch the connection error")
    level_note = ("trusted: Lean kernel + 3 standard axioms; the call-site decision functions are hand-written summaries of "
                  "the six Rust functions, tied by the connection-level scenario engine `lim` (real h3::server/h3::client "
                  "over SimQuic, both roles, limits via builder and via peer SETTINGS delivered before/after the send, "
                  "while send_request waits for stream credit, with the driver polled or not; both halves after split) and "
                  "the function-level engine `qpack`; HeaderMap iteration order and Header::{request,response,trailer} "
                  "field order observed, not proved (C12)")
    rule = ("cases: qpack dec for L in {0,1,41,42,43,small,2^62-1,2^64-1} x sections of 1..4 fields whose size sweeps "
            "L-2..L+2 by padding one value, in random representation forms, plus random L; lim for both roles x "
            "headers/trailers x receive/send x limit sweep x SETTINGS before/after/absent/without the parameter x the "
            "431 boundary 41/42/43; the same receive and send sweeps after `split` (trailers/response sent from the send "
            "half q0s, response/trailers received on the receive half, SETTINGS before the split / between split and send "
            "/ after the send, bytes before / after the split); send_request pending on bidirectional stream credit "
            "(bc=0 + gb<n>) with request sizes L-2..L+2 and the peer's SETTINGS applied before the call / while the call "
            "is pending / after the request went out / never granted / without the parameter, each with the driver "
            "polled before, between or only after (SETTINGS count as arrived once the driver has read them); "
            "non-trivial = implementation result is not bad-op; distinct = distinct case lines")
    trusted = ["http::HeaderMap iteration order for distinct names (insertion order)",
               "SimQuic + scenario interpreter (harness/src/{sim,exec,scen}.rs)"]
    assumptions = ["usize is 64 bits", "a field list held in memory has size below 2^64 (u64 sum in encode_stateless)",
                   "received blocks are shorter than 2^55 octets"]

    def _fn(self, tier, rng, L):
        big = tier == "thorough"
        limits = [0, 1, 41, 42, 43, 100, 250, 1000, DEFAULT, U64]
        for lim in limits:
            for shape in range(6):
                base = [REQ_FIELDS, RESP_FIELDS, [], [(b"cookie", b"a=b")], [(b"te", b"trailers"), (b"x-y", b"")],
                        [(bytes([rng.randrange(256) for _ in range(3)]), bytes([rng.randrange(256) for _ in range(9)]))]][shape]
                for d in range(-2, 3):
                    t = lim + d if lim < 10**6 else rng.choice([167, 500, 3000]) + d
                    fs = pad_to(base, t) if t >= 0 else None
                    if fs is None:
                        fs = base
                    for _ in range(2 if big else 1):
                        L.append("qpack dec %d %s" % (lim, hx(block(fs, rng))))
                    L.append("qpack enc " + fstr([(list(n), list(v)) for n, v in fs]))
        for _ in range(20000 if big else 2500):
            k = rng.randrange(0, 6)
            fs = []
            for _ in range(k):
                fs.append((bytes([rng.choice(b"abc-xyz") for _ in range(rng.randrange(0, 9))]),
                           bytes([rng.randrange(256) for _ in range(rng.choice([0, 1, 2, 9, 30, 90]))])))
            s = size(fs)
            lim = rng.choice([s, s, s - 1, s + 1, max(0, s - 33), rng.randrange(0, 400), 0, DEFAULT, U64])
            L.append("qpack dec %d %s" % (max(lim, 0), hx(block(fs, rng))))

    def _lim(self, tier, rng, L):
        big = tier == "thorough"

        def cfg(mfs, seed):
            parts = ([] if mfs is None else ["mfs=%d" % mfs]) + ([] if seed == 0 else ["seed=%d" % seed])
            return ",".join(parts) if parts else "-"
        for seed in ([0, 1, 2] if big else [0]):
            # ---- receiving: server request head (GET https://a/ is 167; padded for larger limits)
            for lim in [0, 1, 41, 42, 43, 100, 165, 166, 167, 168, 169, 250, 1000, DEFAULT]:
                for d in (range(-2, 3) if 200 <= lim < 10**6 else [0]):
                    t = lim + d if 200 <= lim < 10**6 else REQ_SIZE
                    fs = pad_to(REQ_FIELDS, t) or REQ_FIELDS
                    fr = hx(headers_frame(block(fs, rng)))
                    # the client's limit, which the 431 (size 42) has to respect
                    for cl in ("absent", None, 0, 41, 42, 43, 1000):
                        if d != 0 and cl not in ("absent", 42):
                            continue
                        pre = "" if cl == "absent" else "o2 s2:%s " % hx(settings_chunk(cl))
                        L.append("lim server %s conn.AL %so0 s0:%s f0 q0.res" % (cfg(lim, seed), pre, fr))
            # ---- receiving: trailers at the server, response and trailers at the client
            for lim in [0, 1, 41, 42, 43, 100, 250, DEFAULT]:
                for d in range(-2, 3):
                    t = lim + d if lim < 10**6 else 90 + d
                    tr = (pad_to([], t, b"x-t") if t > 0 else []) or []
                    trf = hx(headers_frame(block(tr, rng)))
                    if lim >= REQ_SIZE:
                        L.append("lim server %s conn.AL o0 s0:%s s0:%s f0 q0.res q0.rt"
                                 % (cfg(lim, seed), hx(headers_frame(REQ_BLOCK)), trf))
                    rs = pad_to(RESP_FIELDS, t) or RESP_FIELDS
                    L.append("lim client %s drv.W %s s0:%s q0.rr" % (cfg(lim, seed), client_pre(), hx(headers_frame(block(rs, rng)))))
                    if lim >= RESP_SIZE:
                        L.append("lim client %s drv.W %s s0:%s s0:%s f0 q0.rr q0.rt"
                                 % (cfg(lim, seed), client_pre(), hx(headers_frame(RESP_BLOCK)), trf))
                    # ---- the same after `split`: the receive half (task q0) keeps the configured maximum
                    #      (connection.rs `split`: the send half gets 0); bytes before / after the split
                    rqf, rpf = hx(headers_frame(REQ_BLOCK)), hx(headers_frame(RESP_BLOCK))
                    if lim >= REQ_SIZE:
                        L.append("lim server %s conn.AL o0 s0:%s s0:%s f0 q0.res q0.sp q0.rt" % (cfg(lim, seed), rqf, trf))
                        L.append("lim server %s conn.AL o0 s0:%s q0.res q0.sp s0:%s f0 q0.rt" % (cfg(lim, seed), rqf, trf))
                    L.append("lim client %s drv.W %s q0.sp s0:%s q0.rr"
                             % (cfg(lim, seed), client_pre(), hx(headers_frame(block(rs, rng)))))
                    if lim >= RESP_SIZE:
                        L.append("lim client %s drv.W %s q0.sp s0:%s s0:%s f0 q0.rr q0.rt" % (cfg(lim, seed), client_pre(), rpf, trf))
                        L.append("lim client %s drv.W %s s0:%s q0.rr q0.sp s0:%s f0 q0.rt" % (cfg(lim, seed), client_pre(), rpf, trf))
            # ---- sending: request / response / trailers against the peer's limit;
            #      SETTINGS before the attempt, after it, never, or without the parameter
            c0 = cfg(None, seed)
            for lim in [0, 1, 41, 42, 43, 100, 250, 1000, DEFAULT]:
                for d in range(-2, 3):
                    t = lim + d if lim < 10**6 else 400 + d
                    for when in ("before", "after", "never", "noparam"):
                        if when in ("never", "noparam") and d != 0:
                            continue
                        cs = hx(settings_chunk(None if when == "noparam" else lim))
                        rq = pad_to(REQ_FIELDS, t, b"x-pad") or REQ_FIELDS
                        send = "snd.R:GET:%s:%s" % (URI, hdrs_arg(rq))
                        tr = (pad_to([], t, b"x-t") if t > 0 else []) or []
                        st = "q0.st:%s" % hdrs_arg(tr)
                        rp = pad_to(RESP_FIELDS, t, b"x-pad") or RESP_FIELDS
                        sr = "q0.sr:200:%s" % hdrs_arg(rp)
                        head = "lim server %s conn.AL %s f0 q0.res" % (c0, server_pre())
                        if when in ("before", "noparam"):
                            L.append("lim client %s drv.W o3 s3:%s %s" % (c0, cs, send))
                            L.append("lim client %s drv.W snd.R:GET:%s:- o3 s3:%s %s" % (c0, URI, cs, st))
                            L.append("%s o2 s2:%s %s" % (head, cs, sr))
                            L.append("%s q0.sr:200:- o2 s2:%s %s" % (head, cs, st))
                        elif when == "after":
                            L.append("lim client %s drv.W %s o3 s3:%s" % (c0, send, cs))
                            L.append("lim client %s drv.W snd.R:GET:%s:- %s o3 s3:%s" % (c0, URI, st, cs))
                            L.append("%s %s o2 s2:%s" % (head, sr, cs))
                            L.append("%s q0.sr:200:- %s o2 s2:%s" % (head, st, cs))
                        else:
                            L.append("lim client %s drv.W %s" % (c0, send))
                            L.append("lim client %s drv.W snd.R:GET:%s:- %s" % (c0, URI, st))
                            L.append("%s %s" % (head, sr))
                            L.append("%s q0.sr:200:- %s" % (head, st))
                        # ---- the same through the send half of a split stream (task q0s): what may be sent is
                        #      the peer's limit in force at the send, split or not; SETTINGS before the split,
                        #      between the split and the send ("mid"), after the send, never, without the parameter
                        sts, srs = st.replace("q0.st", "q0s.st"), sr.replace("q0.sr", "q0s.sr")
                        creq = "lim client %s drv.W" % c0
                        rq0 = "snd.R:GET:%s:-" % URI
                        if when in ("before", "noparam"):
                            L.append("%s %s o3 s3:%s q0.sp %s" % (creq, rq0, cs, sts))
                            L.append("%s %s q0.sp o3 s3:%s %s" % (creq, rq0, cs, sts))
                            L.append("%s o2 s2:%s q0.sp %s" % (head, cs, srs))
                            L.append("%s q0.sp o2 s2:%s %s" % (head, cs, srs))
                            L.append("%s q0.sp q0s.sr:200:- o2 s2:%s %s" % (head, cs, sts))
                            L.append("%s q0.sr:200:- o2 s2:%s q0.sp %s" % (head, cs, sts))
                        elif when == "after":
                            L.append("%s %s q0.sp %s o3 s3:%s" % (creq, rq0, sts, cs))
                            L.append("%s q0.sp %s o2 s2:%s" % (head, srs, cs))
                            L.append("%s q0.sp q0s.sr:200:- %s o2 s2:%s" % (head, sts, cs))
                        else:
                            L.append("%s %s q0.sp %s" % (creq, rq0, sts))
                            L.append("%s q0.sp %s" % (head, srs))
                            L.append("%s q0.sp q0s.sr:200:- %s" % (head, sts))
                        # ---- client, driver not polled when the SETTINGS bytes come in: they count as arrived
                        #      once the driver has read them (reading R-10)
                        if when == "before":
                            L.append("lim client %s o3 s3:%s %s drv.W" % (c0, cs, send))
                            L.append("lim client %s o3 s3:%s drv.W %s" % (c0, cs, send))
                            L.append("lim client %s %s o3 s3:%s %s drv.W" % (c0, rq0, cs, st))
                            L.append("lim client %s %s o3 s3:%s drv.W %s" % (c0, rq0, cs, st))
            # ---- send_request waiting for stream credit (cfg bc=0, grant gb1): `poll_open_bidi` is pending while
            #      the peer's SETTINGS arrive; what counts is the limit in force when the request goes out
            for lim in [0, 42, 100, 166, 167, 168, 206, 250, 1000, 2000, DEFAULT]:
                sweep = 206 <= lim < 10**6
                for d in (range(-2, 3) if sweep else [0]):
                    rq = (pad_to(REQ_FIELDS, lim + d, b"x-pad") if sweep else None) or REQ_FIELDS
                    R = "snd.R:GET:%s:%s" % (URI, hdrs_arg(rq))
                    S = "o3 s3:%s" % hx(settings_chunk(lim))
                    S0 = "o3 s3:%s" % hx(settings_chunk(None))
                    cb = ",".join(x for x in ["bc=0", cfg(None, seed)] if x != "-")
                    orders = ["drv.W %s %s gb1" % (S, R),        # SETTINGS applied before the call
                              "%s drv.W %s gb1" % (S, R),
                              "%s %s gb1 drv.W" % (S, R),        # delivered, never read before the send: default
                              "drv.W %s %s gb1" % (R, S),        # while the call is pending, driver polled
                              "%s %s drv.W gb1" % (R, S),        # … driver polled only after the bytes came in
                              "%s %s gb1 drv.W" % (R, S),        # … driver not polled before the grant: default
                              "drv.W %s gb1 %s" % (R, S),        # after the request went out
                              "drv.W %s %s gb2" % (R, S)]
                    if d == 0:
                        orders += ["drv.W %s %s" % (R, S),       # never granted: nothing is sent
                                   "drv.W %s %s gb1" % (R, S0),  # SETTINGS without the parameter while pending
                                   "drv.W %s gb1" % R]
                    for o in orders:
                        L.append("lim client %s %s" % (cb, o))
                    # credit available at once (bc=1): the plain path under a finite credit
                    L.append("lim client %s drv.W %s %s" % (cb.replace("bc=0", "bc=1"), S, R))

    def cases(self, tier, rng):
        L = []
        self._fn(tier, rng, L)
        self._lim(tier, rng, L)
        # second round: several requests on one client handle, a locally refused one among them
        L += history_lines(rng, 3000 if tier == "thorough" else 300)
        return L

    def project(self, line, impl):
        return project_lim(impl) if line.startswith("lim ") else impl

    def klass(self, line, impl):
        w = line.split()
        if w[0] == "lim" and line.count(" snd.R:") >= 2:
            calls = ["A" if "=req:" in t else "R" for t in impl.split(" | ")[0].split() if t.startswith("snd.R=")]
            return "lim/history/" + "".join(calls)
        if w[0] == "lim":
            calls = [t.split("=")[0] + "=" + ("toobig" if "toobig" in t else t.split("=", 1)[1].split(":")[0])
                     for t in impl.split(" | ")[0].split() if "=" in t]
            wire = "431" if "5f09836990ff" in impl else "-"
            fam = ("credit/" if "bc=" in w[2] else "") + ("split/" if "q0.sp" in w else "")
            return "lim/%s/%s%s/%s" % (w[1], fam, ",".join(calls[-2:]) if calls else "pending", wire)
        r = impl.split(" ")
        kind = r[0] if r[0] != "err" else "err-" + r[1]
        return "qpack/%s/%s" % (w[1], kind)

    def trivial(self, line, impl):
        return impl.startswith("bad-op") or impl.startswith("harness-error")

    def shrink_candidates(self, line):
        from props.c11 import PROP as P11
        if line.startswith("qpack "):
            return P11.shrink_candidates(line)
        w = line.split()
        out = history_shrinks(line)
        # drop trailing ops
        if len(w) > 5:
            out.append(" ".join(w[:-1]))
        return out


# second round (histories on one handle): appended here so that the class body above stays as it was
C10.rule = C10.rule.replace("; non-trivial = ", "; histories of 2..8 send_request calls on ONE client handle (accepted / refused for size "
                            "in every order, SETTINGS before the first or between the first and the second), each request stream "
                            "compared with the encoding of that request's own fields; non-trivial = ")

PROP = C10()
