import os
import re

from vlib import Prop, LEAN
from props.c16 import hx
from props.c15 import spec_lengths, canonical, pack

U64 = 2**64 - 1
BIG = 2**62 - 1


def appendix_a():
    """The 99 entries of lean/H3/Spec/Qpack.lean (the generator builds encodings from the
    specification's hand-typed table, not from the code's)."""
    src = open(os.path.join(LEAN, "H3", "Spec", "Qpack.lean")).read()
    m = re.search(r"def appendixA : List \(String × String\) := \[(.*?)\]\n", src, re.S)
    ents = re.findall(r'\("([^"]*)",\s*"([^"]*)"\)', m.group(1))
    assert len(ents) == 99
    return [(list(n.encode()), list(v.encode())) for n, v in ents]


def pint(n, flags, v, extra=0):
    """RFC 7541 5.1 integer with an n-bit prefix, `flags` above it; `extra` = number of
    superfluous continuation octets (non-shortest form: 0x80 … 0x00)."""
    lim = 2**n - 1
    if v < lim:                      # a value below the prefix limit has only one form
        return [(flags << n) | v]
    out = [(flags << n) | lim]
    v -= lim
    while v >= 128:
        out.append(v % 128 + 128)
        v //= 128
    if extra:
        out.append(v + 128)
        out += [0x80] * (extra - 1) + [0x00]
    else:
        out.append(v)
    return out


class Enc:
    """Python encoder of field line representations in every form (for mutation bases)."""

    def __init__(self):
        self.codes = canonical(spec_lengths())

    def huff(self, s):
        bits = "".join(self.codes[c] for c in s)
        return pack(bits + "1" * (-len(bits) % 8))

    def string(self, n, flags, s, h, extra=0):
        """string literal with an n-bit length prefix, `flags` above the H bit"""
        p = self.huff(s) if h else list(s)
        return pint(n, (flags << 1) | (1 if h else 0), len(p), extra) + p

    def indexed(self, i, t=1, extra=0):
        return pint(6, 2 | t, i, extra)

    def name_ref(self, i, v, t=1, nbit=0, h=1, extra=0):
        return pint(4, 4 | (nbit << 1) | t, i, extra) + self.string(7, 0, v, h)

    def literal(self, name, v, nbit=0, hn=1, hv=1, extra=0):
        return self.string(3, 2 | nbit, name, hn, extra) + self.string(7, 0, v, hv)

    def post_indexed(self, i):
        return pint(4, 1, i)

    def post_name_ref(self, i, v, nbit=0, h=1):
        return pint(3, nbit, i) + self.string(7, 0, v, h)


def fstr(fs):
    return ";".join("%s=%s" % (hx(n), hx(v)) for n, v in fs) if fs else "none"


class C11(Prop):
    id = "C11"
    modules = ["H3.Props.C11", "H3.Props.C11Closed", "H3.Lemmas.GenAgreeQpack"]
    engines = ["qpack", "lim"]
    design_ref = "DESIGN.md section 7, C11"
    level_text = ("Lean theorems over a model of the stateless QPACK paths (static_.rs tables regenerated from the source, "
                  "block.rs representations, encode_stateless, decode_stateless with every error kind) against an independent "
                  "two-stage RFC 9204 4.5 decoder for dynamic-table capacity 0 (bit-pattern parser + interpretation through a "
                  "hand-typed Appendix A): generated table = Appendix A and find/find_name are sound and first-match (kernel "
                  "decide); every encoded field list is decoded by the RFC decoder to exactly the list, prefix 00 00; everything "
                  "the decoder accepts on the non-lax Huffman branch is a valid RFC 9204 section of static-indexed / static-name "
                  "/ literal lines with the same meaning (D-15 branch excluded: *_partial + decide witness); whatever the RFC "
                  "decoder rejects is an error that the receive sites map to QPACK_DECOMPRESSION_FAILED (or the size limit hit "
                  "on the valid lines before it); unbounded, no limits on lengths")
    level_note = ("trusted: Lean kernel + 3 standard axioms; C15 theorems (prefix integers, Huffman, string literals) enter as "
                  "explicit hypotheses `C15Facts` with the statements of H3.Props.C15; hand-written model tied to the code by "
                  "differential runs (all blocks of <= 2 octets after 9 prefixes as digests, sampled 3-octet ranges, grammar-directed "
                  "mutations, random, field lists over all byte values with lengths 0..300); Appendix A typed by hand, cross-checked "
                  "against PREDEFINED_HEADERS and both lookup tables by the kernel")
    rule = ("cases: enc for every static entry, every static name with foreign values, names/values over all byte values with "
            "lengths 0..300 (prefix-length boundaries 6/7/8, 126/127/128), lists of 0..8 mixed fields; dec for digest ranges over "
            "all blocks of <= 2 octets after each prefix (thorough: all 3-octet blocks after 00 00), valid encodings in every "
            "representation/length form with T/N/H flips, index +-, non-shortest integers, truncation at every offset, "
            "appended octets, random strings; limits mostly 2^62-1 plus small ones; connection level: invalid sections at "
            "the three receive sites; histories of 2..8 send_request calls on ONE client handle with locally refused requests "
            "among them: every request stream carries the encoding of its own field list; non-trivial = implementation result is not bad-op; distinct = distinct case lines")
    trusted = ["bytes::{Buf,BufMut} for Bytes / Vec<u8>", "Debug rendering of the private Huffman error type"]
    assumptions = ["usize is 64 bits", "field sections are shorter than 2^55 octets (running size stays below 2^64)",
                   "C15 theorems as stated in H3.Props.C15 (hypothesis C15Facts)"]

    # ------------------------------------------------------------------ generators

    def _names(self, rng, table):
        statics = sorted({bytes(n) for n, _ in table})
        out = []
        for n in statics:
            out.append(list(n))
        return out

    def _enc(self, tier, rng, L, table):
        big = tier == "thorough"
        L.append("qpack enc none")
        for n, v in table:
            L.append("qpack enc " + fstr([(n, v)]))
        names = self._names(rng, table)
        values = sorted({bytes(v) for _, v in table})
        for n in names:
            for v in ([], [0x30], [0x00], [0xff], list(b"GET"), list(b"get"), list(b"0 "), list(rng.choice(values))):
                L.append("qpack enc " + fstr([(n, v)]))
            # a value of another entry with the same name, one octet changed / appended / removed
            for m, v in table:
                if m == n and v:
                    w = list(v)
                    w[rng.randrange(len(w))] ^= 0x20
                    L.append("qpack enc " + fstr([(n, w)]))
                    L.append("qpack enc " + fstr([(n, list(v) + [0x20])]))
                    L.append("qpack enc " + fstr([(n, list(v)[:-1])]))
            # almost the name
            for m in (n[:-1], n + [0x61], [n[0] ^ 0x20] + n[1:], [c - 32 if 97 <= c <= 122 else c for c in n]):
                L.append("qpack enc " + fstr([(m, [])]))
                L.append("qpack enc " + fstr([(m, list(rng.choice(values)))]))
        for b in range(256):
            L.append("qpack enc " + fstr([([b], [b])]))
            L.append("qpack enc " + fstr([(list(b"x"), [b, b])]))
            L.append("qpack enc " + fstr([([b, 0x61], [])]))
        lens = [0, 1, 2, 5, 6, 7, 8, 9, 20, 100, 126, 127, 128, 129, 200, 299, 300]
        for ln in lens:
            for lv in lens:
                if big or rng.random() < 0.35:
                    n = [rng.randrange(256) for _ in range(ln)] if rng.random() < 0.5 else [rng.choice(b"abcxyz-09") for _ in range(ln)]
                    v = [rng.randrange(256) for _ in range(lv)] if rng.random() < 0.5 else [rng.choice(b"abc/ ;=") for _ in range(lv)]
                    L.append("qpack enc " + fstr([(n, v)]))
        for ln in range(0, 301, 1 if big else 7):
            L.append("qpack enc " + fstr([([rng.randrange(256) for _ in range(ln)], [rng.randrange(256) for _ in range(300 - ln)])]))
            L.append("qpack enc " + fstr([(list(b"cookie"), [rng.randrange(256) for _ in range(ln)])]))

        def one():
            k = rng.random()
            if k < 0.3:
                return rng.choice(table)
            if k < 0.6:
                return (rng.choice(names), [rng.randrange(256) for _ in range(rng.choice([0, 1, 3, 10, 40]))])
            return ([rng.choice(b"abcdefgh-XY\x00\xff") for _ in range(rng.choice([0, 1, 3, 7, 8, 12]))],
                    [rng.randrange(256) for _ in range(rng.choice([0, 1, 5, 30, 127, 128]))])
        for _ in range(8000 if big else 1200):
            L.append("qpack enc " + fstr([one() for _ in range(rng.randrange(0, 9))]))

    def _bases(self, rng, table, e):
        """valid encodings as lists of lines (each a list of octets), all representation forms"""
        def val():
            return [rng.choice(b"abcde019/-;= ") for _ in range(rng.choice([0, 1, 2, 5, 20]))]
        bases = []
        for _ in range(40):
            lines = []
            for _ in range(rng.randrange(1, 5)):
                k = rng.randrange(6)
                if k == 0:
                    lines.append(e.indexed(rng.choice([0, 1, 17, 62, 63, 64, 98])))
                elif k == 1:
                    lines.append(e.name_ref(rng.choice([0, 5, 14, 15, 16, 44, 98]), val(), nbit=rng.randrange(2), h=rng.randrange(2)))
                elif k == 2:
                    lines.append(e.literal(val() or [0x78], val(), nbit=rng.randrange(2), hn=rng.randrange(2), hv=rng.randrange(2)))
                elif k == 3:
                    lines.append(e.literal([rng.choice(b"abcdef") for _ in range(rng.choice([6, 7, 8, 9, 130]))],
                                           [0x76] * rng.choice([126, 127, 128, 129]), hn=rng.randrange(2), hv=0))
                elif k == 4:
                    lines.append(e.indexed(rng.choice([0, 62, 63, 98]), extra=rng.choice([1, 2, 8, 9, 10])))
                else:
                    lines.append(e.name_ref(rng.choice([14, 15, 16]), val(), extra=rng.choice([0, 1, 9])))
            bases.append(lines)
        return bases

    def _dec(self, tier, rng, L, table):
        big = tier == "thorough"
        e = Enc()
        # exhaustive small domains, as digest ranges (<= 2 octets: indices 0..65793)
        prefixes = ["0000", "-", "00", "0000d1", "00005f", "000027", "00002f", "0500", "0080", "0005", "00007f", "0000ff"]
        for p in prefixes:
            for lo in range(0, 65793, 16449):
                L.append("qpack range %d %s %d %d" % (BIG, p, lo, min(lo + 16449, 65793)))
        for p in ("0000", "000051"):
            L.append("qpack range 50 %s 0 65793" % p)
            L.append("qpack range 75 %s 0 65793" % p)
        if big:
            step = 65536
            for lo in range(65793, 16843009, step):
                L.append("qpack range %d 0000 %d %d" % (BIG, lo, min(lo + step, 16843009)))
            for p in prefixes[1:]:
                for _ in range(24):
                    lo = rng.randrange(65793, 16843009 - step)
                    L.append("qpack range %d %s %d %d" % (BIG, p, lo, lo + step))
        else:
            for p in prefixes:
                for _ in range(4):
                    lo = rng.randrange(65793, 16843009 - 8192)
                    L.append("qpack range %d %s %d %d" % (BIG, p, lo, lo + 8192))
        # one-line sections: every first octet, alone and followed by something
        for a in range(256):
            L.append("qpack dec %d 0000%02x" % (BIG, a))
            for _ in range(3):
                L.append("qpack dec %d 0000%02x%s" % (BIG, a, hx([rng.randrange(256) for _ in range(rng.randrange(1, 7))])))
        # section prefixes
        for ric in ([0x00], [0x01], [0x05], [0xfe], [0xff, 0x00], [0xff, 0x80, 0x00], [0xff] + [0xff] * 9 + [0x01], [0xff] + [0x80] * 9 + [0x00], [0xff] + [0x80] * 9 + [0x02], [0xff] + [0x80] * 9 + [0x7e], [0xff]):
            for db in ([0x00], [0x01], [0x7e], [0x7f, 0x00], [0x7f, 0x80, 0x00], [0x80], [0x85], [0xff, 0x00], [0xff] + [0xff] * 8 + [0x7f],
                       [0xff] + [0xff] * 9 + [0x01], [0x7f] + [0x80] * 9 + [0x00], [0x7f] + [0x80] * 9 + [0x02], [0xff] + [0x80] * 9 + [0x04], [0x7f], [0xff], []):
                for tail in ([], [0xd1], [0x10]):
                    L.append("qpack dec %d %s" % (BIG, hx(ric + db + tail)))
        # static indices around the end of the table, every length form
        for i in list(range(55, 70)) + list(range(95, 104)) + [127, 128, 200, 2**14, 2**32, 2**62, 2**63 + 62, 2**63 + 63, 2**64 - 1,
                                                                   2**64 + 63, 2**64 + 17, 2**65 + 1, 3 * 2**64 + 70, 2**69 + 10, 2**70 - 2**64 + 5, 2**70 + 1, 2**77 + 3]:
            for ex in (0, 1, 2, 8, 9, 10):
                L.append("qpack dec %d %s" % (BIG, hx([0, 0] + e.indexed(i, extra=ex))))
                w = pint(4, 5, i, ex)
                L.append("qpack dec %d %s" % (BIG, hx([0, 0] + w + [0x00])))
                L.append("qpack dec %d %s" % (BIG, hx([0, 0] + w + [0x81, 0x1f])))
        # string lengths / name indices whose tenth continuation octet carries bits above 2^63
        for last in (0x02, 0x04, 0x7e, 0x03):
            L.append("qpack dec %d %s" % (BIG, hx([0, 0, 0x5f, 0x09, 0x7f] + [0x80] * 9 + [last] + [0x61] * 127)))
            L.append("qpack dec %d %s" % (BIG, hx([0, 0, 0x5f, 0x09, 0x7f, 0x81] + [0x80] * 8 + [last, 0x61, 0x62])))
            L.append("qpack dec %d %s" % (BIG, hx([0, 0, 0x27] + [0x80] * 9 + [last] + [0x61] * 7 + [0x01, 0x62])))
            L.append("qpack dec %d %s" % (BIG, hx([0, 0, 0x5f] + [0x80] * 9 + [last, 0x01, 0x62])))
        # grammar-directed mutations of valid encodings
        bases = self._bases(rng, table, e)
        for lines in bases:
            flat = [0, 0] + [b for l in lines for b in l]
            L.append("qpack dec %d %s" % (BIG, hx(flat)))
            L.append("qpack dec %d %s" % (rng.choice([0, 40, 80, 200, 400]), hx(flat)))
            # truncation at every offset, appended octets
            for t in range(len(flat)):
                if t < 40 or t > len(flat) - 6 or big:
                    L.append("qpack dec %d %s" % (BIG, hx(flat[:t])))
            for tail in ([0x00], [0x80], [0x10], [0xff], [0x20], [0x5f], [0xd1, 0xd1]):
                L.append("qpack dec %d %s" % (BIG, hx(flat + tail)))
            # per line: flip each of the top five bits of the first octet; index/length +-1
            pos = 2
            for l in lines:
                for bit in (0x80, 0x40, 0x20, 0x10, 0x08):
                    m = list(flat)
                    m[pos] ^= bit
                    L.append("qpack dec %d %s" % (BIG, hx(m)))
                for d in (1, -1):
                    m = list(flat)
                    m[pos] = (m[pos] + d) % 256
                    L.append("qpack dec %d %s" % (BIG, hx(m)))
                if len(l) > 1:
                    for j in range(1, min(len(l), 4)):
                        for bit in (0x80, 0x01, 0x40):
                            m = list(flat)
                            m[pos + j] ^= bit
                            L.append("qpack dec %d %s" % (BIG, hx(m)))
                pos += len(l)
        # dynamic / post-base forms built on purpose
        for i in (0, 1, 15, 16, 62, 63, 100):
            L.append("qpack dec %d %s" % (BIG, hx([0, 0] + e.indexed(i, t=0))))
            L.append("qpack dec %d %s" % (BIG, hx([0, 0] + e.post_indexed(i))))
            for h in (0, 1):
                L.append("qpack dec %d %s" % (BIG, hx([0, 0] + e.name_ref(i, list(b"v1"), t=0, h=h))))
                L.append("qpack dec %d %s" % (BIG, hx([0, 0] + e.post_name_ref(i % 8, list(b"v1"), h=h))))
                L.append("qpack dec %d %s" % (BIG, hx([0, 0] + e.name_ref(i, list(b"v1"), t=0, h=h)[:-1])))
        # Huffman strings with every ending (D-15 region): padding patterns and EOS in names and values
        codes = e.codes
        for s in (b"", b"a", b"ab", b"abc", b"1", b"0;", b"z?"):
            bits = "".join(codes[c] for c in s)
            for k in range(0, 16):
                if (len(bits) + k) % 8:
                    continue
                for pat in range(2**k) if k <= 8 else [rng.getrandbits(k) for _ in range(40)]:
                    p = pack(bits + (format(pat, "0%db" % k) if k else ""))
                    if len(p) < 127:
                        L.append("qpack dec %d %s" % (BIG, hx([0, 0] + pint(4, 5, 15, 0) + pint(7, 1, len(p)) + p)))
                    if len(p) < 7 and pat % 5 == 0:
                        L.append("qpack dec %d %s" % (BIG, hx([0, 0] + pint(3, 5, len(p)) + p + [0x00])))
            p = pack(bits + codes[256] + "11")
            L.append("qpack dec %d %s" % (BIG, hx([0, 0] + pint(4, 5, 15, 0) + pint(7, 1, len(p)) + p)))
        # random strings
        for _ in range(60000 if big else 6000):
            n = rng.randrange(0, 14)
            bs = [rng.randrange(256) for _ in range(n)]
            if rng.random() < 0.8:
                bs = [0, 0] + bs
            L.append("qpack dec %d %s" % (rng.choice([BIG, BIG, BIG, U64, 0, 40, 100]), hx(bs)))

    def _lim(self, tier, rng, L):
        """the mapping of decode errors at the three receive sites (connection level)"""
        from props.c10 import headers_frame, REQ_BLOCK, RESP_BLOCK, client_pre, server_pre
        bad = ["0500d1", "0080d1", "000080", "000010", "000000", "00004000", "0000ff24", "0000ff", "00005f09", "00005f0981",
               "0000278161", "00", "-", "0000ffffffffffffffffffffff01", "00005f83ffffff"]
        for b in bad:
            blk = [] if b == "-" else list(bytes.fromhex(b))
            fr = hx(headers_frame(blk))
            L.append("lim server mfs=1000 conn.AL o0 s0:%s f0 q0.res" % fr)
            L.append("lim server mfs=10 conn.AL o0 s0:%s f0 q0.res" % fr)
            L.append("lim server mfs=1000 conn.AL o0 s0:%s s0:%s f0 q0.res q0.rt" % (hx(headers_frame(REQ_BLOCK)), fr))
            L.append("lim client mfs=1000 drv.W %s s0:%s q0.rr" % (client_pre(), fr))
            L.append("lim client mfs=1000 drv.W %s s0:%s s0:%s f0 q0.rr q0.rt" % (client_pre(), hx(headers_frame(RESP_BLOCK)), fr))
        # D-15 at connection level: accepted although the padding is invalid
        L.append("lim server mfs=1000 conn.AL o0 s0:%s s0:%s f0 q0.res q0.rt"
                 % (hx(headers_frame(REQ_BLOCK)), hx(headers_frame(list(bytes.fromhex("00002bf2b0ff81ff"))))))

    def cases(self, tier, rng):
        L = []
        table = appendix_a()
        self._enc(tier, rng, L, table)
        self._dec(tier, rng, L, table)
        self._lim(tier, rng, L)
        # second round: what h3 WRITES for a request is the encoding of that request's field list, whatever was asked of
        # the same SendRequest handle before (accepted request, request refused locally for its size, further requests)
        from props.c10 import history_lines
        L += history_lines(rng, 3000 if tier == "thorough" else 300)
        return L

    # ------------------------------------------------------------------ projection / statistics

    def project(self, line, impl):
        if line.startswith("lim "):
            from props.c10 import project_lim
            return project_lim(impl)
        return impl

    def klass(self, line, impl):
        w = line.split()
        r = impl.split(" ")
        if w[0] == "lim":
            if line.count(" snd.R:") >= 2:
                calls = ["A" if "=req:" in t else "R" for t in impl.split(" | ")[0].split() if t.startswith("snd.R=")]
                return "lim/history/" + "".join(calls)
            return "lim/" + w[1] + "/" + ("closed" if "closed=[512]" in impl else "open")
        if w[1] == "range":
            return "qpack/range"
        kind = r[0]
        if kind == "err":
            kind = "err-" + "-".join(r[1:3] if len(r) > 2 and r[1] in ("InvalidInteger", "InvalidString") else r[1:2])
        if w[1] == "dec":
            h = w[3]
            first = "none"
            if h != "-" and len(h) >= 6:
                b = int(h[4:6], 16)
                first = ("indexed" if b & 0x80 else "nameref" if b & 0x40 else "literal" if b & 0x20 else
                         "postidx" if b & 0x10 else "postname")
            return "qpack/dec/%s/%s" % (first, kind)
        return "qpack/enc/" + kind

    def trivial(self, line, impl):
        return impl.startswith("bad-op") or impl.startswith("harness-error")

    def shrink_candidates(self, line):
        w = line.split()
        out = []
        if w[0] == "lim":
            from props.c10 import history_shrinks
            return history_shrinks(line)
        if w[0] != "qpack":
            return out
        if w[1] == "range":
            lo, hi = int(w[4]), int(w[5])
            if hi - lo > 1:
                mid = (lo + hi) // 2
                out += [" ".join(w[:4] + [str(lo), str(mid)]), " ".join(w[:4] + [str(mid), str(hi)])]
            return out
        if w[1] == "dec":
            h = w[3]
            if h != "-":
                bs = list(bytes.fromhex(h))
                if len(bs) > 2:
                    out.append(" ".join(w[:3] + [hx(bs[:-1])]))
                    out.append(" ".join(w[:3] + [hx(bs[:2] + bs[3:])]))
                    for i in range(2, len(bs)):
                        out.append(" ".join(w[:3] + [hx(bs[:i] + bs[i + 1:])]))
                elif bs:
                    out.append(" ".join(w[:3] + [hx(bs[:-1])]))
        elif w[1] == "enc" and w[2] != "none":
            fs = w[2].split(";")
            if len(fs) > 1:
                for i in range(len(fs)):
                    out.append("qpack enc " + ";".join(fs[:i] + fs[i + 1:]))
            else:
                n, v = fs[0].split("=")
                for a, b in ((n, v[:-2] or "-"), (n[:-2] or "-", v)):
                    if (a, b) != (n, v) and "" not in (a, b):
                        out.append("qpack enc %s=%s" % (a, b))
        return out


PROP = C11()
