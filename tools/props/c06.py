import glob
import json
import os
import re
import subprocess
import sys

import vlib
from vlib import Prop
from props.c16 import hx
from props.c02 import frame, payload_for, KNOWN, H2, OTHER, varint

REQ_HEADERS = "010d0000d1d750831af1ff518263cf"          # GET https://a.b/x
RESP_HEADERS = "01030000d9"                               # 200
SETTINGS = "000400"
TRAILERS = "0108000023782d740176"                        # HEADERS frame: trailer section  x-t: v
GET_URI = "68747470733a2f2f612e622f78"
SEND_CMDS = ("sr", "sd", "st", "fi")


def _inventory_files():
    sys.path.insert(0, os.path.join(vlib.ROOT, "tools"))
    try:
        import panic_sites
        return panic_sites.FILES
    finally:
        sys.path.pop(0)


def stream_events(role, cfg, ops):
    """What the peer's script has ended.  A stream op counts only if the stream EXISTS when it is applied (SimQuic
    ignores it otherwise): server - the peer opened it before (`o<sid>`); client - a unidirectional stream the peer
    opened before, or a request stream whose request was sent before (the (sid/4+1)-th `snd.R`; not decidable from
    the line when bidirectional stream credit is limited, `bc=`: then no op on a request stream is counted).
    Returns (ended: receive sides finished / reset by `f<sid>` / `r<sid>`, stopped: {sid: op index} send sides ended
    by STOP_SENDING `x<sid>`, closed: the connection was closed / timed out)."""
    ended, stopped, closed = set(), {}, False
    opened, nreq = set(), 0
    limited = any(t.startswith("bc=") for t in cfg.split(","))
    for i, op in enumerate(ops):
        m = re.match(r"^o(\d+)$", op)
        if m:
            opened.add(int(m.group(1)))
        if op.startswith("snd.R"):
            nreq += 1
        m = re.match(r"^([frx])(\d+)", op)
        if m:
            sid = int(m.group(2))
            if role == "server" or sid % 4 != 0:
                exists = sid in opened
            else:
                exists = not limited and sid // 4 < nreq
            if exists and m.group(1) == "x":
                stopped.setdefault(sid, i)
            elif exists:
                ended.add(sid)
        if re.match(r"^C\d+$", op) or op == "T":
            closed = True
    return ended, stopped, closed


def fired_faults(impl):
    """injected transport faults that fired (summary token `fired=[…]`): a connection error means
    the connection has failed (SimQuic makes it sticky); a stream error on a read ends that stream"""
    ended, closed = set(), False
    m = re.search(r"fired=\[([^\]]*)\]", impl)
    for lab in (m.group(1).split(",") if m and m.group(1) else []):
        head, _, err = lab.partition(":")
        if err[:1] in ("C", "T", "I", "U"):
            closed = True
        elif head.startswith("rd"):
            mm = re.match(r"^rd(\d+)", head)
            if mm:
                ended.add(int(mm.group(1)))
    return ended, closed


class C06(Prop):
    id = "C06"
    thorough_rounds = 10   # thorough tier: this many independently seeded rounds of the random generators (duplicates dropped)
    modules = ["H3.Props.C06", "H3.Lemmas.GenAgreeFrame", "H3.Lemmas.GenAgreeReq", "H3.Lemmas.GenAgreeCtl"]
    engines = ["adv", "flt", "wt"]
    # every case line runs in well under a second (the longest, a million minimal frames, 0.2 s): a harness process
    # that does not come back within 10 s (or 5 ms per line of the batch) is executing a line that never returns -
    # recorded as `process-hang` (a failing input by itself) and the run continues behind it
    batch_timeout = 10
    batch_line_allowance = 0.005
    batch_max_hangs = 3     # per batch of 2000 lines; the rest of such a batch is reported as not executed
    design_ref = "DESIGN.md section 7, C06"
    level_text = ("Lean theorems: no step of the receive-path models (frame layer, request receive machine, uni-stream type "
                  "resolution, control machine, QPACK/field parsing) returns the explicit panic outcome - on a request stream for "
                  "EVERY order of recv_data / recv_trailers calls from every state (no call-pattern hypothesis, after the repair of "
                  "D-06t: recv_trailers tests has_data() first), the message head as the first call; once the script has ended a "
                  "stream (FIN/RESET) or the connection - the connection error is an event of the model (H3.ConnClose, carried "
                  "additively by the frame-stream model) - no call waiting on it stays pending, from any state; every send-side call "
                  "(send_request incl. its wait for stream credit, send_response, send_data, send_trailers, finish with its grease "
                  "frame) against every script of flow-control answers and error answers (STOP_SENDING => StreamTerminated, "
                  "close/timeout => connection error) never panics, returns exactly the first error answer, and stays pending only "
                  "while the script contains no error and too little credit; tied to the source by the panic-site inventory (every "
                  "unwrap/expect/assert/index/range, every + - * << >> pow and / % by a non-literal, every panicking Buf/BufMut/Bytes "
                  "call on the receive-path files is listed with the guard or theorem that covers it; an unlisted site breaks the "
                  "obligation) and by adversarial peer scripts over SimQuic with panics caught per case")
    level_note = ("trusted: Lean kernel + 3 standard axioms; the models (tied by the other properties' correspondence runs; the guard "
                  "of poll_recv_trailers is re-read from the source on every run: H3.Gen.ReqArms.trailersGuard, GenAgreeReq); "
                  "tools/panic_sites.py + tools/panic_table.json (hand-written justifications, cited theorem names checked); debug "
                  "assertions and overflow checks are ON in the harness build so wrap-arounds surface as panics; that the transport "
                  "wakes every task parked on one of its calls when a stream or the connection ends (SimQuic does; observed at "
                  "executor quiescence, R-06); memory exhaustion is out of scope; D-06u (the Huffman decoder's u32 bit positions "
                  "overflowed for a string literal of 2^29 bytes or more; repaired: such a literal is refused, "
                  "C15_huffman_positions_fit) stays probed on every run with its witness (a panic there is a failing input)")
    rule = ("adversarial peer scripts: grammar-mutated and arbitrary bytes on request, control, QPACK and unknown streams, random "
            "chunking, FIN/RESET/STOP_SENDING/close/timeout injected at every step index of base scenarios (with and without valid "
            "trailers and grease frames between / behind the frames), both roles, documented call patterns - and, on a tree with the "
            "repair of D-06t, recv_data / recv_trailers in arbitrary order and number, going on after errors; SEND side: no write "
            "credit / no stream credit by default, credit handed out a few bytes at a time so that send_response / send_data / "
            "send_trailers / finish (grease frame) / send_request is left pending inside a frame, at a frame boundary or before its "
            "first byte, THEN STOP_SENDING / RESET / close / timeout behind every prefix (a send call still pending after the peer's "
            "STOP_SENDING or a close is a hang); WebTransport stream reads through both AsyncRead faces (engine wt), plain and in "
            "FILL mode (one tokio ReadBuf / the unfilled sub-slice across calls, as read_exact does), buffer sizes that chunks "
            "cross, reads before / between / after the deliveries, FIN / RESET / close / timeout; the same exchanges over a failing "
            "transport: faults (every ConnectionErrorIncoming / StreamErrorIncoming variant) armed at every step index and at random "
            "positions on every transport call site, also before the connection is built; engine `flt`: the systematic fault "
            "scenarios of tools/props/faults.py judged by H3.Spec.Faults; a harness process that does not return from a line "
            "within 10 s is a failing input (process-hang); non-trivial = at least one API call completed with a result other than "
            "no-task")
    trusted = ["the decision tables of the receive paths (H3.Gen.FrameDispatch, ReqArms, FirstFrame, CtlArms, UniArms, FrameErrCodes) are re-read from the sources on this run and the models this property's theorems are about are proved to follow them (H3.Lemmas.GenAgreeFrame/GenAgreeReq/GenAgreeCtl, rebuilt on this run)"]
    assumptions = ["'pending forever' is judged at executor quiescence after the script ended what the call waits on (R-06)",
                   "recv_response is called once, before recv_data (its documentation); resolve_request consumes the resolver",
                   "engine wt lines: the C19 driver predicts every observable (C19's projection); a closed connection reaches a "
                   "WebTransport stream read as err:conn once h3's own buffer is empty"]

    # ---- the repair of D-06t (recv_trailers while a DATA payload is outstanding: `assert!` of poll_next)
    FIX_SUBJECT = "fix: recv_trailers answers an error instead of panicking while a DATA payload is outstanding"
    D06T_WITNESS = "adv server g0 conn.AL o2 s2:000400 o0 s0:%s0004aabb f0 q0.res q0.rb q0.rt" % REQ_HEADERS

    def has_trailers_guard(self):
        """Is the repair in the repository under test?  Yes if its commit is in the history (then call sequences
        outside the documented pattern are generated unconditionally, so that losing the guard again is a failing
        input), or - history rewritten - if the witness no longer panics."""
        if getattr(self, "_guard", None) is None:
            rc, out = vlib.sh(["git", "-C", vlib.REPO, "log", "--format=%s", "-n", "1000"])
            self._guard = self.FIX_SUBJECT in out
            if not self._guard:
                try:
                    rc, o, err = vlib.run_lines(vlib.RUN, [self.D06T_WITNESS], timeout=60)
                    self._guard = bool(o) and " | " in o[0]
                except Exception:
                    self._guard = False
        return self._guard

    # ---- projection: the only observables are `panic` and calls left pending on something that has ended
    def project(self, line, impl):
        ops = line.split()[3:]
        if impl in ("hang", "abort"):
            # the harness process did not come back from this line / died on it (vlib says the same in the main run;
            # the shrinker and the replay come through here)
            return "process-" + impl
        if line.startswith("wt "):
            # WebTransport stream I/O (engine wt): C19's observables, which the Lean driver predicts in full -
            # a panic or a call left waiting where the model says it returns is then a difference
            from props import c19
            return c19.PROP.project(line, impl)
        if impl == "panic" or impl == "abort":
            return "panic=1 hang=[]"
        if impl.startswith("bad-op"):
            return impl
        role, cfg = line.split()[1], line.split()[2]
        ended, stopped, closed = stream_events(role, cfg, ops)
        e2, c2 = fired_faults(impl)
        ended, closed = ended | e2, closed or c2
        m = re.search(r"pending=\[([^\]]*)\]", impl)
        pend = [p for p in (m.group(1).split(",") if m and m.group(1) else [])]
        hang = []
        # the peer's control stream (first octet 0x00 delivered) finished or reset by the script: a closed critical
        # stream must end accept / wait_idle with H3_CLOSED_CRITICAL_STREAM, whatever else the endpoint waits for
        # (judged only on lines without injected transport faults - those are engine flt's business - and only for a
        # stream the script really opened before it delivered bytes on it)
        ctl_ended = False
        seen = {}
        opened = set()
        faults_armed = any(op.startswith("!") for op in ops)
        for op in ops:
            m = re.match(r"^o(\d+)$", op)
            if m:
                opened.add(int(m.group(1)))
            m = re.match(r"^s(\d+):([0-9a-f]+)$", op)
            if m and int(m.group(1)) % 4 in (2, 3) and int(m.group(1)) in opened:
                seen.setdefault(int(m.group(1)), "")
                seen[int(m.group(1))] += m.group(2)
            m = re.match(r"^[fr](\d+)", op)
            if m and not faults_armed and seen.get(int(m.group(1)), "").startswith("00"):
                ctl_ended = True
        for p in pend:
            task, cmd = p.split(".", 1)
            if closed:
                hang.append(p)
                continue
            if ctl_ended and p in ("conn.A", "drv.W"):
                hang.append(p)
                continue
            mm = re.match(r"^[qw](\d+)s?$", task)
            if mm and int(mm.group(1)) in ended and cmd in ("res", "rr", "rd", "rb", "rm", "rt"):
                hang.append(p)
            # the send side: the peer's STOP_SENDING ends send_response / send_data / send_trailers / finish of
            # that stream (they wait for write credit the peer will never grant now)
            if mm and int(mm.group(1)) in stopped and cmd in SEND_CMDS:
                hang.append(p)
            # client send_request waiting for write credit on the stream it has opened (the newest one)
            if p == "snd.R" and role == "client":
                mine = [int(x) for x in re.findall(r"(?:^| )(\d+):tx=", impl.split(" | ", 1)[-1]) if int(x) % 4 == 0]
                done = len(re.findall(r"(?:^| )snd\.R=", impl.split(" | ", 1)[0]))
                calls = [i for i, op in enumerate(ops) if op.startswith("snd.R")]
                if mine and max(mine) in stopped and len(calls) > done and stopped[max(mine)] > calls[done]:
                    hang.append(p)
        return "panic=0 hang=[%s]" % ",".join(sorted(hang))

    def project_all(self, lines, impls):
        from props import faults
        res = [("process-" + o) if o in ("hang", "abort") else None for o in impls]
        idx = [i for i, l in enumerate(lines) if l.startswith("flt") and res[i] is None]
        for i, p in zip(idx, faults.project_all([lines[i] for i in idx], [impls[i] for i in idx])):
            res[i] = p
        idx = [i for i, l in enumerate(lines) if l.startswith("wt ") and res[i] is None]
        if idx:
            from props import c19
            for i, p in zip(idx, c19.PROP.project_all([lines[i] for i in idx], [impls[i] for i in idx])):
                res[i] = p
        for i, l in enumerate(lines):
            if res[i] is None:
                res[i] = self.project(l, impls[i])
        return res

    def klass_raw(self, line, raw):
        """histogram key: role + the kinds of results the API calls produced + close codes (+ the faults that fired)"""
        if " | " not in raw:
            return raw[:20]
        if line.startswith("wt "):
            kinds = sorted({m.group(1) + ":" + m.group(2) for m in
                            re.finditer(r"w\d+s?\.(r[aft][ft]?)=data:[^ ]*?:(end|more|err:rterm|err:conn)", raw)})
            pend = re.search(r"pending=\[([^\]]*)\]", raw)
            return "wt %s pending=[%s]" % (",".join(kinds), re.sub(r"\d+", "", pend.group(1)) if pend else "")
        if line.startswith("flt"):
            return "flt %s" % line.split()[1] + " fired=[%s]" % ",".join(
                sorted(set(re.sub(r"\d+", "", t[1:]) for t in raw.split(" | ")[0].split() if t.startswith("!"))))
        trace, summ = raw.split(" | ", 1)
        kinds = set()
        for t in trace.split():
            if "=" in t:
                op, res = t.split("=", 1)
                r = res.split(":")
                kinds.add(op.split(".")[1] + "=" + ":".join(r[:3] if r[0] == "err" else r[:1]))
        m = re.search(r"closed=\[([^\]]*)\]", summ)
        f = re.search(r"fired=\[([^\]]*)\]", summ)
        fk = (" fired=[%s]" % ",".join(sorted(set(re.sub(r"\d+", "", x) for x in f.group(1).split(",") if x)))) if f else ""
        return "%s %s closed=[%s]%s" % (line.split()[1], ",".join(sorted(kinds))[:150], m.group(1) if m else "", fk)

    def trivial_raw(self, line, raw):
        if raw.startswith("bad-op"):
            return True
        if line.startswith("wt "):
            return "conn.WT=ok" not in raw
        if line.startswith("flt"):
            return not any(t.startswith("!") or t.startswith("close:") or "=err:" in t for t in raw.split(" | ")[0].split())
        trace = raw.split(" | ")[0].split()
        return not any("=" in t and not t.endswith("=no-task") and ".build=" not in t for t in trace)

    def base_scenarios(self, rng, role):
        """lists of ops; each a plausible exchange that faults are then injected into"""
        out = []
        if role == "server":
            for _ in range(6):
                ops = ["conn.AL", "o2", "s2:" + SETTINGS]
                sid = 0
                for _ in range(rng.randrange(1, 3)):
                    ops.append("o%d" % sid)
                    body = frame(0x0, [rng.randrange(256) for _ in range(rng.randrange(0, 6))], rng)
                    ops.append("s%d:%s%s" % (sid, REQ_HEADERS, hx(body)))
                    ops += ["q%d.res" % sid, "q%d.rm" % sid, "f%d" % sid,
                            "q%d.sr:200" % sid, "q%d.sd:aabb" % sid, "q%d.fi" % sid]
                    sid += 4
                out.append(ops)
            out += self.trailer_scenarios(rng, role)
        else:
            for _ in range(6):
                ops = ["drv.W", "o3", "s3:" + SETTINGS, "snd.R:GET:68747470733a2f2f612e622f78:-", "q0.fi",
                       "s0:" + RESP_HEADERS + hx(frame(0x0, [1, 2, 3], rng)), "q0.rr", "q0.rm", "f0"]
                out.append(ops)
            out += self.trailer_scenarios(rng, role)
        return out

    def trailer_scenarios(self, rng, role):
        """messages that END WITH VALID TRAILERS (recv_trailers answers Some): body of 0-2 DATA frames, reserved
        (grease) frames between the frames and behind the trailers, delivered whole / cut at the frame boundaries /
        in small chunks, the receive pattern called before, in the middle of, or after the delivery"""
        out = []
        for k in range(4):
            grease = lambda: rng.choice(["", "", "2100", "402100", "2103aabbcc", "21004021020102"])
            body = "".join(hx(frame(0x0, [rng.randrange(256) for _ in range(rng.randrange(0, 5))], rng)) + grease()
                           for _ in range(rng.randrange(0, 3)))
            head = REQ_HEADERS if role == "server" else RESP_HEADERS
            parts = [head + grease(), body, TRAILERS, grease()]
            if k == 0:
                chunks = ["s0:" + "".join(parts)]
            elif k == 1:
                chunks = ["s0:" + x for x in parts if x]
            else:
                chunks = self.chunked(0, "".join(parts), rng) if k == 2 else \
                    ["s0:%02x" % b for b in bytes.fromhex("".join(parts))]
            first = "q0.res" if role == "server" else "q0.rr"
            pre = ["conn.AL", "o2", "s2:" + SETTINGS, "o0"] if role == "server" else \
                ["drv.W", "o3", "s3:" + SETTINGS, "snd.R:GET:%s:-" % GET_URI, "q0.fi"]
            cut = rng.randrange(0, len(chunks) + 1)
            if role == "server" and cut == 0:
                cut = 1          # the request task exists once the first bytes are there
            ops = pre + chunks[:cut] + [first, "q0.rm"] + chunks[cut:] + ["f0"]
            if role == "server":
                ops += ["q0.sr:200", "q0.st:782d74=76", "q0.fi"]
            out.append(ops)
        return out

    def garbage(self, rng, n=None):
        n = n if n is not None else rng.choice([1, 1, 2, 3, 5, 9, 20])
        return hx([rng.randrange(256) for _ in range(n)])

    def mutated_frames(self, rng):
        bs = []
        for _ in range(rng.randrange(1, 4)):
            r = rng.random()
            ty = rng.choice(KNOWN) if r < 0.6 else rng.choice(H2) if r < 0.7 else rng.choice(OTHER)
            bs += frame(ty, payload_for(ty, rng), rng, rng.choice([None, None, 1, 2, 3]), rng.choice([None, None, 1, 2, 3]),
                        rng.choice([0] * 6 + [1, -1, 2, -2, 100]))
        if rng.random() < 0.3 and bs:
            bs[rng.randrange(len(bs))] = rng.randrange(256)
        if rng.random() < 0.3 and len(bs) > 1:
            bs = bs[:rng.randrange(1, len(bs))]
        return hx(bs) if bs else "00"

    def chunked(self, sid, hexs, rng):
        b = bytes.fromhex(hexs)
        if len(b) <= 1 or rng.random() < 0.4:
            return ["s%d:%s" % (sid, hexs)]
        out, i = [], 0
        while i < len(b):
            k = rng.choice([1, 1, 2, 3, 7, len(b)])
            out.append("s%d:%s" % (sid, b[i:i + k].hex()))
            i += k
        return out

    def cases(self, tier, rng):
        L = []
        for l in self._cases(tier, rng):
            w = l.split(" ")
            if w[2] == "g1,wc=0":
                # no write credit by default; grant it to every stream except the grease stream (the 4th
                # unidirectional stream the endpoint opens), whose frame can then never be written
                own = [3, 7, 11] if w[1] == "server" else [2, 6, 10]
                ops, nreq = [], 0
                for op in w[3:]:
                    ops.append(op)
                    m = re.match(r"^o(\d+)$", op)
                    if m and int(m.group(1)) % 4 == 0:
                        ops.append("gw%s:100000" % m.group(1))
                    if op.startswith("snd.R"):
                        ops.append("gw%d:100000" % (4 * nreq))
                        nreq += 1
                l = " ".join(w[:3] + ["gw%d:100000" % i for i in own] + ops)
            L.append(l)
        return L

    def _cases(self, tier, rng):
        big = tier == "thorough"
        L = []
        faults_stream = ["f%d", "r%d:0", "r%d:268", "x%d:7"]
        faults_conn = ["C0", "C256", "C%d" % (2**62 - 1), "T"]
        for role in ("server", "client"):
            # `g1,uc=3`: the peer grants exactly the three unidirectional streams RFC 9114 6.2 requires and never
            # more, so the optional grease stream can never be opened; nothing may wait for it
            cfgs = ["g0", "g0,seed=%d" % rng.randrange(1, 1000), "g1", "g0,mfs=40", "g0,wt=1,ec=1,dg=1", "g1,uc=3",
                    "g1,uc=3,seed=%d" % rng.randrange(1, 1000), "g1,wc=0"]
            for base in self.base_scenarios(rng, role):
                cfg = rng.choice(cfgs)
                L.append("adv %s %s %s" % (role, cfg, " ".join(base)))
                sids = sorted({int(m.group(1)) for op in base for m in [re.match(r"^[os](\d+)", op)] if m})
                # a fault at every step index
                for i in range(len(base) + 1):
                    picks = [rng.choice(faults_conn)] + [rng.choice(faults_stream) % rng.choice(sids)]
                    if big:
                        picks += [f % s for f in faults_stream for s in sids[:2]]
                    for f in picks:
                        L.append("adv %s %s %s" % (role, cfg, " ".join(base[:i] + [f] + base[i:])))
            # depth: very long runs of the smallest legal items (a peer chooses their number): empty DATA frames,
            # empty unknown/reserved frames, one-byte chunks; recursion or quadratic work per item shows as abort / hang
            for N in ([5000, 200000] if not big else [5000, 60000, 200000, 1000000]):
                for unit in ("0000", "2100", "402100"):
                    run = unit * N
                    if role == "server":
                        L.append("adv server g0 conn.AL o2 s2:000400 o0 s0:%s%s000568656c6c6f f0 q0.res q0.rm q0.sr:200 q0.fi"
                                 % (REQ_HEADERS, run))
                        if unit != "0000":
                            L.append("adv server g0 conn.AL o2 s2:000400%s070100 o0 s0:%s f0 q0.res q0.rm q0.sr:200 q0.fi conn.A"
                                     % (run, REQ_HEADERS))
                    else:
                        L.append("adv client g0 drv.W o3 s3:000400 snd.R:GET:68747470733a2f2f612e622f78:- q0.fi s0:%s%s000568656c6c6f f0 q0.rr q0.rm"
                                 % (RESP_HEADERS, run))
                        if unit != "0000":
                            L.append("adv client g0 drv.W o3 s3:000400%s snd.R:GET:68747470733a2f2f612e622f78:- q0.fi s0:%s f0 q0.rr q0.rm"
                                     % (run, RESP_HEADERS))
            # arbitrary / mutated bytes on every kind of stream
            n = 12000 if big else 3000
            for _ in range(n):
                cfg = rng.choice(cfgs)
                ops = ["conn.AL"] if role == "server" else ["drv.W"]
                ctl = 2 if role == "server" else 3
                uni = [ctl + 4 * k for k in range(1, 4)]
                bidi = [0, 4] if role == "server" else []
                r = rng.random()
                ops.append("o%d" % ctl)
                ctl_bytes = ("000400" if r < 0.55 else "000400" + self.mutated_frames(rng) if r < 0.7
                             else "00" + self.mutated_frames(rng) if r < 0.85 else "00" + self.garbage(rng))
                ops += self.chunked(ctl, ctl_bytes, rng)
                if role == "client":
                    ops += ["snd.R:GET:68747470733a2f2f612e622f78:-", "q0.fi"]
                    bidi = [0]
                for u in uni[:rng.randrange(0, 4)]:
                    ops.append("o%d" % u)
                    ty = rng.choice(["02", "03", "01", "4054", "21", "4021", "21", "02", "03", "00", "ff", "c0"])
                    ops += self.chunked(u, ty + self.garbage(rng), rng)
                    if rng.random() < 0.5:
                        ops.append(rng.choice(["f%d", "r%d:5"]) % u)
                for b in bidi:
                    if role == "server":
                        ops.append("o%d" % b)
                    r = rng.random()
                    hdr = REQ_HEADERS if role == "server" else RESP_HEADERS
                    data = (hdr if r < 0.5 else "") + (self.mutated_frames(rng) if r < 0.8 else self.garbage(rng))
                    if rng.random() < 0.3:
                        # a HEADERS frame with garbage / mutated field section
                        sec = bytes.fromhex(hdr)[2:]
                        sec = bytearray(sec)
                        if sec:
                            sec[rng.randrange(len(sec))] = rng.randrange(256)
                        data = hx(frame(0x1, list(sec) + [rng.randrange(256) for _ in range(rng.randrange(0, 4))], rng)) + data
                    ops += self.chunked(b, data, rng)
                    first = "q%d.res" % b if role == "server" else "q%d.rr" % b
                    ops += [first, "q%d.rm" % b]
                    ops.append(rng.choice(["f%d" % b, "r%d:3" % b, "f%d" % b, "x%d:9" % b]))
                    if role == "server":
                        ops += ["q%d.sr:200" % b, "q%d.fi" % b]
                if rng.random() < 0.4:
                    ops.insert(rng.randrange(1, len(ops) + 1), rng.choice(faults_conn))
                rng_ops = list(ops)
                L.append("adv %s %s %s" % (role, cfg, " ".join(rng_ops)))
                # the same exchange over a transport that fails: one or two faults armed at random positions
                # (any call site, any error, fired at the k-th call), some before the connection is built
                if rng.random() < (0.6 if big else 0.5):
                    L.append(self.with_faults(role, cfg, rng_ops, ctl, uni, bidi, rng))
        # the transport fails at every step index of the base scenarios
        for role in ("server", "client"):
            bases = self.base_scenarios(rng, role)
            for base in bases[:3 if big else 2] + bases[6:9 if big else 8]:      # plain ones + ones with trailers
                ctl = 2 if role == "server" else 3
                sids = sorted({int(m.group(1)) for op in base for m in [re.match(r"^[os](\d+)", op)] if m})
                for i in range(len(base) + 1):
                    for f in self.fault_menu(role, sids, rng, 6 if big else 3):
                        L.append("adv %s g1 %s" % (role, " ".join(base[:i] + [f] + base[i:])))
        # send calls left waiting for write credit / stream credit, then STOP_SENDING / RESET / close / timeout
        L += self.send_side_cases(rng, big)
        # receive calls in ANY order, also after errors (C06_no_panic_any_call_order) - on a tree with the repair
        if self.has_trailers_guard():
            L += self.free_order_cases(rng, big)
        # WebTransport stream reads through both AsyncRead faces, buffers filled across calls, adversarial chunking
        L += self.wt_cases(rng, big)
        # whole connections whose transport fails, judged by the oracle H3.Spec.Faults (engine flt)
        from props import faults
        L += faults.cases(big, rng)
        return L

    def send_side_cases(self, rng, big):
        """Send-side liveness.  The peer grants NO write credit by default (`wc=0`; the endpoint's own three
        unidirectional streams get theirs so that the setup completes) or no bidirectional stream credit (`bc=`),
        then hands out a few bytes at a time, so that send_response / send_data / send_trailers / finish (with the
        grease frame, `g1`) / send_request is left PENDING in the middle of a frame, at a frame boundary, or before its
        first byte - and THEN sends STOP_SENDING, resets its own side, closes the connection or lets it time out.
        The ending is placed behind every prefix of the exchange; a few calls follow it."""
        L = []
        ends_stream = ["x%d:0", "x%d:7", "x%d:268", "r%d:3"]
        ends_conn = ["C0", "C256", "C%d" % (2**62 - 1), "T"]
        hdrs = ["-", "782d74=76"]

        def grant(sid):
            return "gw%d:%d" % (sid, rng.choice([1, 1, 2, 3, 4, 5, 7, 15, 40]))

        for role in ("server", "client"):
            own = [3, 7, 11] if role == "server" else [2, 6, 10]
            n = (60 if big else 24)
            for it in range(n):
                g = rng.choice(["g0", "g1"])
                cfg = "%s,wc=0,seed=%d" % (g, rng.randrange(1, 1000))
                pre = ["gw%d:100000" % i for i in own]
                if role == "server":
                    pre += ["conn.AL", "o2", "s2:" + SETTINGS]
                    nreq = rng.choice([1, 1, 2])
                    calls = []
                    for k in range(nreq):
                        sid = 4 * k
                        pre += ["o%d" % sid, "s%d:%s%s" % (sid, REQ_HEADERS, hx(frame(0x0, [1, 2], rng))), "f%d" % sid,
                                "q%d.res" % sid]
                        t = "q%d" % sid
                        if rng.random() < 0.3:
                            pre.append("%s.sp" % t)
                            calls.append("%s.rm" % t)
                            t += "s"
                        else:
                            pre.append("%s.rm" % t)
                        prog = ["%s.sr:200:%s" % (t, rng.choice(hdrs))]
                        for _ in range(rng.randrange(0, 3)):
                            prog.append("%s.sd:%s" % (t, self.garbage(rng, rng.choice([0, 1, 2, 9, 40]))))
                        if rng.random() < 0.5:
                            prog.append("%s.st:%s" % (t, rng.choice(hdrs)))
                        prog.append("%s.fi" % t)
                        calls += prog
                    sids = [4 * k for k in range(nreq)]
                else:
                    pre += ["drv.W", "o3", "s3:" + SETTINGS]
                    calls = ["snd.R:%s:%s:%s" % (rng.choice(["GET", "POST"]), GET_URI, rng.choice(hdrs))]
                    for _ in range(rng.randrange(0, 3)):
                        calls.append("q0.sd:%s" % self.garbage(rng, rng.choice([0, 1, 2, 9, 40])))
                    if rng.random() < 0.4:
                        calls.append("q0.st:%s" % rng.choice(hdrs))
                    calls.append("q0.fi")
                    if rng.random() < 0.4:
                        calls.insert(rng.randrange(1, len(calls) + 1), "q0.rr")
                    sids = [0]
                # credit trickles in between the calls; it runs dry somewhere
                prog, dry = [], rng.randrange(0, len(calls) + 1)
                for i, c in enumerate(calls):
                    prog.append(c)
                    if i < dry:
                        m = re.match(r"^q(\d+)", c)
                        prog.append("gw%d:100000" % (int(m.group(1)) if m else 0))
                    elif rng.random() < 0.6:
                        m = re.match(r"^q(\d+)", c)
                        prog.append(grant(int(m.group(1)) if m else 0))
                tail = ["q%d.fi" % sids[0], "q%d.sd:aa" % sids[0]] if rng.random() < 0.5 else []
                L.append("adv %s %s %s" % (role, cfg, " ".join(pre + prog)))
                positions = range(len(prog) + 1) if (big or it < 8) else sorted({rng.randrange(0, len(prog) + 1) for _ in range(4)})
                for i in positions:
                    ends = [rng.choice(ends_conn), rng.choice(ends_stream) % rng.choice(sids), "x%d:9" % sids[0]]
                    for e in ends:
                        L.append("adv %s %s %s" % (role, cfg, " ".join(pre + prog[:i] + [e] + prog[i:] + tail)))
                    # both: first the stream, then the connection
                    L.append("adv %s %s %s" % (role, cfg, " ".join(
                        pre + prog[:i] + ["x%d:5" % sids[0]] + prog[i:i + 1] + [rng.choice(ends_conn)] + prog[i + 1:])))
        # client: send_request waits for STREAM credit (`bc=`), then close / timeout / late credit without write credit
        for it in range(40 if big else 16):
            bc = rng.choice([0, 0, 1, 2])
            wc = rng.choice(["", "", ",wc=0"])
            cfg = "%s,bc=%d%s" % (rng.choice(["g0", "g1"]), bc, wc)
            pre = (["gw2:100000", "gw6:100000", "gw10:100000"] if wc else []) + ["drv.W", "o3", "s3:" + SETTINGS]
            reqs = []
            for k in range(bc + rng.choice([1, 1, 2])):
                reqs.append("snd.R:GET:%s:-" % GET_URI)
                if wc and rng.random() < 0.7:
                    reqs.append("gw%d:%d" % (4 * k, rng.choice([3, 15, 100000])))
                if k < bc and rng.random() < 0.5:
                    reqs.append("q%d.fi" % (4 * k))
            late = rng.choice([[], [], ["gb1"], ["gb1", "x%d:3" % (4 * bc)], ["gb2", "gw%d:4" % (4 * bc)]])
            for i in range(len(reqs) + 1):
                for e in (rng.choice(ends_conn), rng.choice(["T", "C0"])):
                    L.append("adv client %s %s" % (cfg, " ".join(pre + reqs[:i] + [e] + reqs[i:])))
            for e in ends_conn[:2] + ["x%d:1" % (4 * bc)]:
                L.append("adv client %s %s" % (cfg, " ".join(pre + reqs + late + [e, "snd.R:GET:%s:-" % GET_URI])))
        return L

    def free_order_cases(self, rng, big):
        """recv_data / recv_trailers (and the loops built from them) in ARBITRARY order and number, going on after
        errors, against bodies that are truncated by FIN, reset inside a DATA frame, left incomplete, followed by
        trailers / a WebTransport frame / garbage - the call sequences the documented pattern excludes."""
        L = [self.D06T_WITNESS]
        for role in ("server", "client"):
            for _ in range(1200 if big else 400):
                hdr = REQ_HEADERS if role == "server" else RESP_HEADERS
                n = rng.choice([2, 4, 4, 9])
                have = rng.randrange(0, n + 1)
                body = "00%02x%s" % (n, self.garbage(rng, have) if have else "")
                k = rng.random()
                data = hdr + (body if k < 0.6 else body + TRAILERS if k < 0.7 else "4100aabb" if k < 0.8
                              else hx(frame(0x0, [1, 2, 3], rng)) + body if k < 0.9 else self.mutated_frames(rng))
                end = rng.choice(["f0", "f0", "r0:7", "C256", "T", None])
                pre = ["conn.AL", "o2", "s2:" + SETTINGS, "o0"] if role == "server" else \
                    ["drv.W", "o3", "s3:" + SETTINGS, "snd.R:GET:%s:-" % GET_URI, "q0.fi"]
                ev = self.chunked(0, data, rng) + ([end] if end else [])
                calls = ["q0.res" if role == "server" else "q0.rr"]
                calls += [rng.choice(["q0.rd", "q0.rd", "q0.rt", "q0.rt", "q0.rb", "q0.rm"]) for _ in range(rng.randrange(2, 7))]
                # the head call first (the server's request task exists once the first bytes are there), the rest anywhere
                ops = ev[:1] + calls[:1]
                rest = self.merge(rng, ev[1:], calls[1:])
                L.append("adv %s %s %s" % (role, rng.choice(["g0", "g1", "g0,seed=%d" % rng.randrange(1, 1000)]),
                                           " ".join(pre + ops + rest)))
        return L

    def merge(self, rng, a, b):
        a, b, out = list(a), list(b), []
        while a or b:
            if a and (not b or rng.random() < len(a) / (len(a) + len(b))):
                out.append(a.pop(0))
            else:
                out.append(b.pop(0))
        return out

    def wt_cases(self, rng, big):
        """Engine `wt` (C19's interpreter and Lean driver; projection = C19's observables, so a panic, a call left
        waiting, or a wrong byte is a difference).  A WebTransport bidi / uni stream of the peer carries 3-40 payload
        bytes in chunks of the PEER's choosing; the application reads through tokio / futures `poll_read` - plain
        (`rt` / `rf`: a fresh buffer per call) and in FILL mode (`rtf` / `rff`: one `ReadBuf` / the unfilled sub-slice
        until the buffer is full, as `read_exact` does), buffer sizes chosen so that chunks cross the end of a partly
        filled buffer; the read is issued before, between or after the deliveries; the stream then ends with FIN /
        RESET, or the connection is closed / times out (possibly with data still queued)."""
        from props import c19
        L = []
        n = 1500 if big else 500
        for it in range(n):
            bidi = rng.random() < 0.6
            sid = 4 if bidi else 6
            cfg = "g0,wt=1,ec=1,dg=1" + (",seed=%d" % rng.randrange(1, 1000) if rng.random() < 0.5 else "")
            pre = ["o2", "s2:" + c19.PEER_SETTINGS, "o0", "s0:" + c19.CONNECT, "conn.WT", "o%d" % sid]
            hdr = "404100" if bidi else "405400"
            payload = [rng.getrandbits(8) for _ in range(rng.choice([3, 5, 8, 12, 12, 17, 40]))]
            # the peer's chunking
            chunks, i = [], 0
            while i < len(payload):
                k = rng.choice([1, 2, 3, 3, 5, 9, 13])
                chunks.append(payload[i:i + k])
                i += k
            ev = ["s%d:%s" % (sid, hx(c)) for c in chunks]
            if rng.random() < 0.3:
                ev[0] = "s%d:%s%s" % (sid, hdr, hx(chunks[0]))     # header and first bytes in one chunk
                head = []
            else:
                head = ["s%d:%s" % (sid, hdr)]
            acc = "conn.ab" if bidi else "conn.au"
            sizes = lambda: ",".join(str(rng.choice([1, 2, 4, 7, 8, 8, 10, 16, len(payload), len(payload) + 1]))
                                     for _ in range(rng.randrange(1, 3)))
            reads = []
            for _ in range(rng.choice([1, 1, 2])):
                m = rng.choice(["rtf", "rtf", "rtf", "rff", "rff", "rt", "rf"])
                calls = ":%d" % rng.randrange(1, 4) if rng.random() < 0.3 else ""
                reads.append("w%d.%s:%s%s" % (sid, m, sizes(), calls))
            end = rng.choice(["f%d" % sid] * 4 + ["r%d:%d" % (sid, rng.choice([0, 7, 268]))] * 2 + ["C0", "C256", "T"])
            tail = ev + [end]
            # reads are placed anywhere behind the accept (which needs the complete header)
            first = rng.randrange(0, 2) if not head else 0
            body = tail[:first] + [acc] + tail[first:] if not head else [acc] + tail
            if head and rng.random() < 0.5:
                body = tail[:1] + [acc] + tail[1:]
            for r in reads:
                j = body.index(acc) + 1
                body.insert(rng.randrange(j, len(body) + 1), r)
            if end[0] in "CT" and rng.random() < 0.5:
                body.append("w%d.%s:4" % (sid, rng.choice(["rtf", "rff", "rt", "rf", "ra"])))
            L.append("wt server %s %s" % (cfg, " ".join(pre + head + body)))
        return L

    def fault_menu(self, role, sids, rng, n):
        base = 3 if role == "server" else 2
        conn_errs = ["T", "I", "U", "C256", "C%d" % (2**62 - 1)]
        out = []
        for _ in range(n):
            r = rng.random()
            sid = rng.choice(sids) if sids else 0
            if r < 0.25:
                site = rng.choice(["au", "ab"])
                err = rng.choice(conn_errs)
            elif r < 0.5:
                site = "rd%d" % sid
                err = rng.choice(conn_errs + ["K", "K", "X%d" % rng.choice([0, 7, 268])])
            elif r < 0.8:
                tgt = rng.choice([sid, sid, base, base + 4, base + 8, base + 12])
                site = rng.choice(["sd", "pr", "pf"]) + str(tgt)
                err = rng.choice(conn_errs + ["K", "K", "X%d" % rng.choice([0, 7, 268])])
            else:
                site = rng.choice(["ou%d" % rng.randrange(0, 5), "ob%d" % rng.randrange(0, 2), "ou", "ob"])
                err = rng.choice(conn_errs + ["K", "X7"])
            skip = rng.choice([0, 0, 0, 1, 2, 3])
            out.append("!%s%s:%s" % (site, "@%d" % skip if skip else "", err))
        return out

    def with_faults(self, role, cfg, ops, ctl, uni, bidi, rng):
        sids = [ctl] + list(uni) + list(bidi)
        fs = self.fault_menu(role, sids, rng, rng.choice([1, 1, 2]))
        task = "conn" if role == "server" else "drv"
        if rng.random() < 0.3:
            # armed before the connection is built
            return "adv %s %s,hold=1 %s %s.B %s" % (role, cfg, " ".join(fs), task, " ".join(ops))
        ops = list(ops)
        for f in fs:
            ops.insert(rng.randrange(0, len(ops) + 1), f)
        return "adv %s %s %s" % (role, cfg, " ".join(ops))

    # ---- the panic-site inventory is part of the check (DESIGN section 7, C06: "tie to source")
    def extra(self, tier, rng, ctx):
        """Runs tools/panic_sites.py on the repository: every panic-capable site on the receive-path
        files must be listed in tools/panic_table.json (an unlisted site = the code changed in a way
        the argument does not cover = broken obligation), and every theorem / model name a
        justification cites must exist in the Lean sources of this run."""
        res = []
        tool = os.path.join(vlib.ROOT, "tools", "panic_sites.py")
        table_path = os.path.join(vlib.ROOT, "tools", "panic_table.json")
        p = subprocess.run([sys.executable, tool, vlib.REPO, "--table", table_path],
                           capture_output=True, text=True)
        try:
            out = json.loads(p.stdout.strip().split("\n")[-1])
        except Exception:
            return [("broken", "panic-site inventory: tools/panic_sites.py did not run: %s"
                     % (p.stderr.strip()[-200:] or p.stdout.strip()[-200:]), {})]
        for u in out.get("unlisted", []):
            res.append(("broken", "panic-site inventory: unlisted site %s" % u,
                        {"site": u, "kind": "panic-capable site not covered by tools/panic_table.json"}))
        # names cited by the justifications
        src = {}
        for f in glob.glob(os.path.join(vlib.ROOT, "lean", "H3", "**", "*.lean"), recursive=True):
            src[f] = open(f).read()
        decl = set()
        for t in src.values():
            for m in re.finditer(r"^(?:private )?(?:theorem|def|structure|inductive|abbrev)\s+([A-Za-z0-9_.?']+)", t, re.M):
                decl.add(m.group(1).split(".")[-1])
        table = json.load(open(table_path))
        cited = set()
        for e in table["sites"]:
            why = e.get("why", "")
            for n in re.findall(r"\bC\d\d_\w+", why):
                cited.add(n)
                if n not in decl:
                    res.append(("broken", "panic-site inventory: justification of `%s` (%s) cites theorem %s, which does not exist"
                                % (e["line"][:60], e["file"], n), {"site": e["line"], "name": n}))
            for n in re.findall(r"\bH3(?:\.[A-Za-z0-9_?']+)+", why):
                last = n.split(".")[-1]
                # a namespace (H3.Huffman) or a declaration (H3.FS.pollNext)
                is_ns = any(re.search(r"^namespace\s+%s\b" % re.escape(n), t, re.M) for t in src.values())
                if not is_ns and last not in decl:
                    res.append(("broken", "panic-site inventory: justification of `%s` (%s) cites %s, which does not exist"
                                % (e["line"][:60], e["file"], n), {"site": e["line"], "name": n}))
        res += self.overflow_probes()
        if not self.has_trailers_guard():
            res.append(("note", "the repository under test does not contain the repair `%s`: recv_trailers called while a DATA "
                                "payload is outstanding still panics there (D-06t, witness `%s`); call sequences outside the "
                                "documented pattern are therefore not generated on this tree and C06_no_panic_any_call_order "
                                "speaks about the repaired function (H3.ReqRecv.pollRecvTrailersG)"
                        % (self.FIX_SUBJECT, self.D06T_WITNESS), {}))
        if not [r for r in res if r[0] in ("broken", "violation")]:
            res.append(("note", "panic-site inventory: %d sites found on %d receive-path files, %d listed, 0 unlisted, "
                                "%d stale table entries; %d distinct theorems cited by the justifications, all present"
                        % (out.get("found", 0), len(_inventory_files()), out.get("listed", 0),
                           out.get("stale_entries", 0), len(cited)), {}))
        return res

    PROBES = ["huff decn 00 536870912"]

    def overflow_probes(self):
        """Sites of the inventory whose only justification is a bound on the SIZE of the input (too large for a
        generated case line) are probed directly on the real code: a panic here is a failing input unless it is a
        listed finding (`case:<line>` in known_findings.json), in which case it is reported as KNOWN-FINDING."""
        res = []
        findings = vlib.load_findings()
        for line in self.PROBES:
            try:
                rc, out, err = vlib.run_lines(vlib.RUN, [line], timeout=300)
                got = out[0] if out else "abort"
            except subprocess.TimeoutExpired:
                got = "process-hang"
            if got.startswith("ok") or got.startswith("err") or got.startswith("harness-error err"):
                res.append(("note", "overflow probe `%s`: %s (no panic)" % (line, got), {}))
                continue
            fs = [f for f in findings.get("findings", []) if f.get("property") == self.id
                  and f.get("status", "open") == "open" and f.get("key") == "case:" + line]
            if fs:
                res.append(("known", line, fs[0]))
            else:
                res.append(("violation", "overflow probe `%s`: %s" % (line, got),
                            {"case": line, "impl": got, "model": "-", "spec": "ok ** || err **",
                             "kind": "implementation panics / overflows on an input of the panic-site inventory's size probes"}))
        return res

    def shrink_candidates(self, line):
        if line.startswith("wt "):
            # everything up to and including the accept of the stream stays (session, stream header): a line whose
            # tasks do not exist, or whose accept waits inside a header, is outside the engine's domain; the reads,
            # the later deliveries and the ending are what shrinks
            w = line.split()
            ops = w[3:]
            k = max([i for i, o in enumerate(ops) if o in ("conn.ab", "conn.au")] + [-1])
            return [" ".join(w[:3] + ops[:i] + ops[i + 1:]) for i in range(k + 1, len(ops))]
        w = line.split()
        out = []
        ops = w[3:]
        # coarse first: everything that happens on one stream; the second half; then single ops
        sids = sorted({m.group(1) for o in ops for m in [re.match(r"^(?:[osfrx]|gw|q|!\w\w)(\d+)", o)] if m}, key=int)
        for sid in sids:
            rest = [o for o in ops if not re.match(r"^(?:[osfrx]|gw|q|!\w\w)%s(?!\d)" % sid, o)]
            if len(rest) < len(ops):
                out.append(" ".join(w[:3] + rest))
        if len(ops) > 6:
            out.append(" ".join(w[:3] + ops[:len(ops) // 2]))
        for i in range(len(ops)):
            out.append(" ".join(w[:3] + ops[:i] + ops[i + 1:]))
        return out


PROP = C06()
