"""Engine `flt`: scenarios in which the transport fails (fault injection `!<site>[<target>]:<err>`,
harness/src/sim.rs), shared by C04, C05 and C06.

The builder call is part of the scenario (cfg `hold=1`, op `<task>.B`), and the trace is the complete
interleaved history (cfg `ev=1,ops=1`): `@<op>` an op of the script is applied, `!<label>` an armed
fault fires, `close:<code>`, `<task>.<call>=<result>`.  The projection keeps that history (what h3
writes is dropped), prefixes the verdict of the oracle `H3.Spec.Faults` on it (judge engine `fltj` of
h3drv, as C08 does with `goawayj`) and appends `uni=<own uni streams> ctl=<frame types on the own
control stream> g=<grease stream state> pending=[…]`.  The Lean driver prints the same for the model's
history, `## ok **`."""
import re

from props.c04 import CODES

CFG = "hold=1,ev=1,ops=1"

CONN_ERRS = ["T", "I", "U", "C256", "C0"]
STREAM_ERRS = ["X7", "K"]


def canon(res):
    m = re.match(r"^err:local:(\w+)$", res)
    if m and m.group(1) in CODES:
        return "err:local:%d" % CODES[m.group(1)]
    return res


def read_varint(b, i):
    if i >= len(b):
        return None, len(b)
    n = 1 << (b[i] >> 6)
    if i + n > len(b):
        return None, len(b)
    return int.from_bytes(b[i:i + n], "big") & ((1 << (8 * n - 2)) - 1), i + n


def ctl_frames(hexs):
    """frame types of the complete frames on the own control stream (after the stream type)"""
    if hexs in ("-", ""):
        return "-"
    b = bytes.fromhex(hexs)
    ty, i = read_varint(b, 0)
    out = []
    while i < len(b):
        ft, j = read_varint(b, i)
        if ft is None:
            break
        ln, j = read_varint(b, j)
        if ln is None or j + ln > len(b):
            break
        out.append(str(ft))
        i = j + ln
    return ".".join(out) if out else "-"


def observe(line, impl):
    """(history tokens, tail) of an `flt` run, or None when the run has no trace (panic, bad-op)"""
    if " | " not in impl:
        return None
    w = line.split()
    server = w[1] == "server"
    trace, summary = impl.split(" | ", 1)
    hist = []
    for t in trace.split():
        if t[0] in "@!" or t.startswith("close:"):
            hist.append(t)
        elif "=" in t and re.match(r"^(conn|drv)\.\w+=", t):
            k, v = t.split("=", 1)
            hist.append("%s=%s" % (k, canon(v)))
    base = 3 if server else 2
    gsid = base + 12
    uni, ctl, g, pending = 0, "-", "none", "pending=[]"
    for t in summary.split():
        if t.startswith("pending="):
            pend = [p for p in t[len("pending=["):-1].split(",") if p and not p.startswith("snd")]
            pending = "pending=[%s]" % ",".join(pend)
            continue
        m = re.match(r"^(\d+):tx=([0-9a-f-]*)((?:,[A-Za-z=0-9]+)*)$", t)
        if not m:
            continue
        sid = int(m.group(1))
        flags = [f for f in m.group(3).split(",") if f]
        if any(f in ("MISUSE", "OVERLAP") for f in flags):
            return ["misuse"], impl
        if sid % 4 == base:
            uni += 1
            if sid == base:
                ctl = ctl_frames(m.group(2))
            if sid == gsid:
                g = "fin" if "fin" in flags else "writing" if "writing" in flags else "idle"
    return hist, "uni=%d ctl=%s g=%s %s" % (uni, ctl, g, pending)


def judge(items):
    """items: (line, history tokens, pending token) -> verdicts, by `H3.Spec.Faults` (engine `fltj`)"""
    import vlib
    if not items:
        return []
    inp = []
    for line, hist, pend in items:
        w = line.split()
        inp.append("%s %s %s %s %s" % ("fltj5" if w[0] == "flt5" else "fltj", w[1], w[2], " ".join(hist), pend))
    rc, out, err = vlib.run_lines(vlib.DRV, inp)
    if rc != 0 or len(out) != len(inp):
        raise RuntimeError("h3drv fltj failed rc=%s %s" % (rc, err[-300:]))
    return out


def project_all(lines, impls):
    obs = [observe(l, o) for l, o in zip(lines, impls)]
    items = [(l, o[0], o[1].split()[-1]) for l, o in zip(lines, obs) if o is not None]
    verdicts = iter(judge(items))
    res = []
    for o, impl in zip(obs, impls):
        if o is None:
            res.append(impl)
        else:
            res.append("%s %s | %s" % (next(verdicts), " ".join(o[0]), o[1]))
    return res


def klass(line, impl):
    """histogram key: role, which fault fired, how each call answered, the close calls"""
    w = line.split()
    if " | " not in impl:
        return "flt/%s/%s" % (w[1], impl.split(" ")[0])
    toks = impl.split(" | ")[0].split()
    fired = [re.sub(r"\d+", "", t[1:].split(":")[0]) + ":" + re.sub(r"\d+", "", t.split(":")[-1]) for t in toks if t.startswith("!")]
    res = []
    for t in toks:
        if "=" in t and not t.startswith("@"):
            k, v = t.split("=", 1)
            res.append(k.split(".")[1] + "=" + re.sub(r"app:\d+", "app", v))
    closes = [t[6:] for t in toks if t.startswith("close:")]
    return "flt/%s/%s/fired=%s/%s/close=%s" % (w[1], toks[0], "+".join(fired) or "-", ",".join(res) or "-", ",".join(closes) or "-")


def trivial(line, impl):
    if " | " not in impl:
        return True
    toks = impl.split(" | ")[0].split()
    return not any(t.startswith("!") or t.startswith("close:") or "=err:" in t for t in toks)


# ------------------------------------------------------------------ generators

def ids(role):
    server = role == "server"
    base = 3 if server else 2
    return {"task": "conn" if server else "drv", "call": "A" if server else "W", "ctl": base, "enc": base + 4,
            "dec": base + 8, "g": base + 12, "pctl": 2 if server else 3, "puni": 6 if server else 7,
            "S": "conn.S:0" if server else "drv.S"}


def line(role, g, ops, extra=""):
    return "flt %s g%d,%s%s %s" % (role, g, CFG, extra, " ".join(ops))


def cases(big, rng):
    L, seen = [], set()

    def add(l):
        if l not in seen:
            seen.add(l)
            L.append(l)

    for role in ("server", "client"):
        I = ids(role)
        t, call = I["task"], "%s.%s" % (I["task"], I["call"])
        B = "%s.B" % t
        pctl = I["pctl"]
        peer = ["o%d" % pctl, "s%d:000400" % pctl]
        goaway = "s%d:070100" % pctl
        later = [[], [call], [call, call], [I["S"]], [call, I["S"], call], [I["S"], I["S"], call]]
        conn_errs, stream_errs = list(CONN_ERRS), list(STREAM_ERRS)
        if big:
            conn_errs += ["C258", "C%d" % (2**62 - 1)]
            stream_errs += ["X0", "X%d" % (2**62 - 1)]
        all_errs = conn_errs + stream_errs
        for g in (0, 1):
            add(line(role, g, [B, call]))
            # ---- (a) faults during the setup: every call of ConnectionInner::new x every error
            setup_sites = (["ou%d" % k for k in range(3)] +
                           ["%s%d" % (s, I[x]) for s in ("sd", "pr") for x in ("ctl", "enc", "dec")])
            for site in setup_sites:
                for e in all_errs:
                    for tail in later:
                        if g == 1 and site in ("ou1", "ou2") and e in stream_errs:
                            continue    # the grease stream would not be the fourth stream
                        add(line(role, g, ["!%s:%s" % (site, e), B] + tail))
                        # with the peer's streams already there when the connection is built
                        add(line(role, g, peer + ["!%s:%s" % (site, e), B] + tail))
            # the setup waiting for stream credit / write credit when the transport fails
            for extra, n_open in ((",uc=0", 0), (",uc=1", 1), (",uc=2", 2), (",wc=0", 3)):
                for end in ("T", "C256", "C0"):
                    add(line(role, g, [B, end, call], extra))
                    add(line(role, g, [B, call, end], extra))
            for stops in (["x%d:7" % I["ctl"]], ["x%d:7" % I["enc"]], ["x%d:7" % I["ctl"], "x%d:7" % I["enc"], "x%d:9" % I["dec"]],
                          ["x%d:9" % I["dec"], "x%d:7" % I["enc"], "x%d:7" % I["ctl"]], ["x%d:7" % I["ctl"], "T"]):
                add(line(role, g, [B] + stops, ",wc=0"))
            # ---- (a') the own control stream fails later: shutdown's GOAWAY write
            for site in ("sd%d" % I["ctl"], "pr%d" % I["ctl"]):
                for e in all_errs:
                    f = "!%s:%s" % (site, e)
                    for pre in ([], peer, peer + [call], [call]):
                        add(line(role, g, [B] + pre + [f, I["S"], call, I["S"]]))
                    if role == "server":
                        # accept() answering None (peer GOAWAY) sends the server's own GOAWAY
                        add(line(role, g, [B] + peer + [f, goaway, call, call]))
                        add(line(role, g, [B] + peer + [call, f, goaway, call]))
            add(line(role, g, [B, "x%d:7" % I["ctl"], I["S"], call, I["S"]]))
            add(line(role, g, [B, "x%d:7" % I["enc"], I["S"], call]))
            # ---- (b) the transport fails at poll_accept_recv / poll_accept_bidi / a read
            for e in conn_errs:
                for site in ("au", "ab"):
                    for pre in ([], peer):
                        add(line(role, g, [B] + pre + ["!%s:%s" % (site, e), call, call, I["S"]]))
                        add(line(role, g, [B] + pre + [call, "!%s:%s" % (site, e), "o%d" % I["puni"], call]))
                if role == "server":
                    add(line(role, g, [B] + peer + ["!ab:%s" % e, goaway, call, call]))
            for e in all_errs:
                # the peer's control stream: before its type has been read, after, with a frame waiting
                add(line(role, g, [B] + peer + ["!rd%d:%s" % (pctl, e), call, call]))
                add(line(role, g, [B, call, "o%d" % pctl, "!rd%d:%s" % (pctl, e), "s%d:000400" % pctl, call]))
                add(line(role, g, [B, call] + peer + ["!rd%d:%s" % (pctl, e), goaway, call]))
                add(line(role, g, [B] + peer + [call, "!rd%d:%s" % (pctl, e), goaway, call, call]))
                add(line(role, g, [B] + peer + [call, "!rd%d:%s" % (pctl, e), "f%d" % pctl, call]))
                # a stream whose type is not known yet
                u = I["puni"]
                add(line(role, g, [B] + peer + ["o%d" % u, "!rd%d:%s" % (u, e), call, call]))
                add(line(role, g, [B] + peer + [call, "o%d" % u, "!rd%d:%s" % (u, e), "s%d:40" % u, call]))
                add(line(role, g, [B, call, "o%d" % u, "!rd%d:%s" % (u, e), "f%d" % u] + peer + [goaway, call]))
            # the peer closes / the connection times out, at every position
            base = [B] + peer + [call, goaway, I["S"], call]
            for end in ("T", "C256", "C0"):
                for i in range(1, len(base) + 1):
                    add(line(role, g, base[:i] + [end] + base[i:]))
            # ---- (d) a client is sent a server-initiated bidirectional stream
            if role == "client":
                for sid in (1, 5):
                    add(line(role, g, [B, call, "o%d" % sid, call, I["S"]]))
                    add(line(role, g, [B, "o%d" % sid, call, call]))
                    add(line(role, g, [B] + peer + ["o%d" % sid, call, call]))
                    add(line(role, g, [B] + peer + [call, "o%d" % sid, "o%d" % (sid + 4), call]))
                    for e in conn_errs:
                        add(line(role, g, [B, "o%d" % sid, "!ab:%s" % e, call, call]))
                        add(line(role, g, [B, "o%d" % sid, "!au:%s" % e, call, call]))
                        add(line(role, g, [B, call, "!ab:%s" % e, "o%d" % sid, call]))
        # ---- (c) the grease stream's calls answer a connection error
        for site in ("ou3", "sd%d" % I["g"], "pr%d" % I["g"], "pf%d" % I["g"]):
            for e in all_errs:
                f = "!%s:%s" % (site, e)
                add(line(role, 1, [B, f] + peer + [call, call, I["S"]]))
                add(line(role, 1, [B, call, f] + peer + [goaway, call]))
                add(line(role, 1, [B, call, "o%d" % pctl, f, "s%d:000400070100" % pctl, call]))
                add(line(role, 1, [B] + peer + [f, call, goaway, call]))
                add(line(role, 0, [B, f] + peer + [call, goaway]))
    return L


def drop_cases(big, rng):
    """C05 only (reading R-05): the application drops the driver object (`<task>.D`) before, between and after the
    calls that meet a connection error.  `Drop for server::Connection` calls `close(H3_NO_ERROR)` whatever happened
    before: behind an error close that is a second `close` call, which the oracle accepts only there (once, behind
    `<task>.D=ok`) while the first close is judged as before; the client's driver has no `Drop`."""
    L, seen = [], set()

    def add(l):
        if l not in seen:
            seen.add(l)
            L.append(l)

    for role in ("server", "client"):
        I = ids(role)
        t, call, S = I["task"], "%s.%s" % (I["task"], I["call"]), I["S"]
        B, D = "%s.B" % t, "%s.D" % t
        pctl = I["pctl"]
        peer = ["o%d" % pctl, "s%d:000400" % pctl]
        # what makes the connection fail at the driver's next call: (ops, does it wake a parked driver)
        fails = [(["o%d" % pctl, "s%d:0004000000" % pctl], True),      # DATA behind SETTINGS: local 0x0105
                 (peer + ["f%d" % pctl], True),                          # control stream closed: local 0x0104
                 (["!ab:I"], False), (["!au:I"], False),                 # InternalError of the transport: close(0x0102)
                 (["!ab:T"], False), (["!au:C256"], False), (["!ab:U"], False),
                 (["C256"], True), (["T"], True), (["C0"], True)]
        if role == "client":
            fails.append((["o1"], True))                                 # server-initiated bidi: local 0x0103
        if big:
            fails += [(["!ab:C0"], False), (["!au:T"], False), (["!au:U"], False), (["C258"], True)]
        for g in (0, 1):
            add(line(role, g, [B, D]))
            add(line(role, g, [D, B]))
            add(line(role, g, [B, D, D, call]))
            add(line(role, g, [B, call, D]))
            add(line(role, g, [B] + peer + [call, S, D, call]))
            for pre, wakes in fails:
                # the error is reported (and closed for, if local), then the driver is dropped
                for tail in ([], [call], [S, call]):
                    add(line(role, g, [B] + pre + [call, D] + tail))
                add(line(role, g, [B] + pre + [call, call, S, D]))
                add(line(role, g, [B] + pre + [S, D, call]))
                # dropped before any call has met the error
                add(line(role, g, [B] + pre + [D, call]))
                # the driver is waiting when the connection fails; the drop is posted before / after
                if wakes:
                    add(line(role, g, [B, call] + pre + [D, call]))
                    add(line(role, g, [B, call, D] + pre + [call]))
                else:
                    add(line(role, g, [B, call] + pre + ["o%d" % I["puni"], D]))
            # the own control stream is stopped: shutdown's GOAWAY write meets it (local 0x0104)
            add(line(role, g, [B, "x%d:7" % I["ctl"], S, D, call]))
            add(line(role, g, [B, "x%d:7" % I["ctl"], D, S]))
            # the setup fails / is still waiting when the drop is posted
            for f in ("!ou0:X7", "!ou0:T", "!sd%d:I" % I["ctl"], "!pr%d:K" % I["ctl"]):
                add(line(role, g, [f, B, D, call]))
            for end in ("C256", "T"):
                add(line(role, g, [B, D, end, call], ",wc=0"))
                add(line(role, g, [B, D, end], ",uc=0"))
    return L
