import subprocess

import vlib
from vlib import Prop


def hx(bs):
    if isinstance(bs, str):
        bs = bs.encode("latin-1")
    return "".join("%02x" % b for b in bs) if bs else "-"


def unhx(s):
    return b"" if s == "-" else bytes.fromhex(s)


def ftok(fields):
    """field list -> token; fields are (name, value) or (name, value, repeat)."""
    if not fields:
        return "[]"
    out = []
    for f in fields:
        t = "%s=%s" % (hx(f[0]), hx(f[1]))
        if len(f) > 2 and f[2] != 1:
            t += "*%d" % f[2]
        out.append(t)
    return ",".join(out)


def parse_ftok(tok):
    if tok == "[]":
        return []
    out = []
    for it in tok.split(","):
        rep = 1
        if "*" in it:
            it, k = it.split("*")
            rep = int(k)
        n, v = it.split("=")
        out.append((unhx(n), unhx(v), rep))
    return out


def host_class(tok):
    """Host-multiplicity class of a request's field list, for sections with two or more Host values:
    `/A<number of :authority fields>H<number of Host fields, 3+ from three on>` followed by `=` (all Host values and all
    :authority values are one value), `!host` (the Host values differ among themselves) or `!auth` (the Host values are
    one value, an :authority value is another)."""
    try:
        fs = parse_ftok(tok)
    except ValueError:
        return ""
    hosts, auths = [], []
    for n, v, rep in fs:
        if n == HOST:
            hosts += [v] * min(rep, 4)
        elif n == A:
            auths += [v] * min(rep, 4)
    if len(hosts) < 2:
        return ""
    rel = "!host" if len(set(hosts)) > 1 else ("!auth" if set(auths) - set(hosts) else "=")
    return "/A%dH%s%s" % (min(len(auths), 2), "2" if len(hosts) == 2 else "3+", rel)


M, S, A, P, ST, PR, HOST = b":method", b":scheme", b":authority", b":path", b":status", b":protocol", b"host"

KIND_LETTER = {M: "m", S: "s", A: "a", P: "p", PR: "r", ST: "t"}


def kind_class(op, tok):
    """Other-kind class of a request's / response's field list (D-12f): `/K` followed by one letter per pseudo-header
    field name that is defined for the OTHER kind of message and occurs in the section — `t` (:status) in a request;
    `m` (:method), `s` (:scheme), `a` (:authority), `p` (:path), `r` (:protocol) in a response —, and `-` when the
    section lacks what its own kind needs (no :method / no :authority and Host in a request, no :status in a
    response). Empty when there is no such field."""
    try:
        fs = parse_ftok(tok)
    except ValueError:
        return ""
    names = set(n for n, _, _ in fs)
    if op in ("req", "srv"):
        other = [ST]
        own = M in names and (A in names or HOST in names)
    else:
        other = [M, S, A, P, PR]
        own = ST in names
    hit = "".join(KIND_LETTER[n] for n in other if n in names)
    if not hit:
        return ""
    return "/K" + hit + ("" if own else "-")

def syntax_class(tok):
    """R-12c class (finding D-12g, repaired) of a request's field list: `/Y` followed by one letter per crate-independent necessary condition
    that a pseudo-header value of the section fails — `s` (:scheme not an RFC 3986 scheme: empty, first byte not a letter,
    a byte outside letters / digits / + - .), `a` (:authority with two `@`, or a non-numeric port), `p` (:path with `#`),
    `e` (:path empty under http / https). Empty when all hold."""
    try:
        fs = parse_ftok(tok)
    except ValueError:
        return ""
    hit = set()
    schemes = [v for n, v, _ in fs if n == S]
    for n, v, _ in fs:
        if n == S:
            ok = len(v) > 0 and chr(v[0]).isalpha() and v[0] < 128 and all((b < 128 and chr(b).isalnum()) or b in b"+-." for b in v)
            if not ok:
                hit.add("s")
        elif n == A:
            hp = v.rsplit(b"@", 1)[-1]
            port_ok = hp.startswith(b"[") or b":" not in hp or hp.split(b":", 1)[1].isdigit() or hp.split(b":", 1)[1] == b""
            if v.count(b"@") > 1 or not port_ok:
                hit.add("a")
        elif n == P:
            if b"#" in v:
                hit.add("p")
            if v == b"" and schemes and all(x in (b"http", b"https") for x in schemes):
                hit.add("e")
    return "/Y" + "".join(sorted(hit)) if hit else ""


VALID_NAMES = [b"a", b"x-custom", b"accept", b"content-type", b"set-cookie", b"te", b"cookie", b"x_y.z", b"0", b"!#$%&'*+-.^_`|~",
               b"a" * 64, b"a" * 65, b"content-length", b"host"]
BAD_NAMES = [b"", b"A", b"Content-Type", b"hosT", b"a b", b" a", b"a ", b"a\x00", b"a\r\n", b"a:b", b"a(b", b"a)b", b"a,b", b"a/b", b"a;b",
             b"a<b", b"a=b", b"a>b", b"a?b", b"a@b", b"a[b", b"a\\b", b"a]b", b"a{b", b"a}b", b'a"b', b'"', b"a\x7f", b"a\x80", b"\xc3\xa9",
             b"a\tb", b"\x01", b"a" * 64 + b"B", b"a" * 64 + b'"', b"a" * 70 + b" "]
BAD_PSEUDO = [b":x", b":", b":Method", b":METHOD", b":method ", b": method", b":unknown", b":STATUS", b":host", b"::method", b":methodx",
              b":schem", b":authority:", b":path/", b":protocols", b":version"]
VALID_VALUES = [b"", b"v", b"a b", b"\t", b"x\ty", b" x ", b"\x80\xff", b"text/html; q=0.9", b"\xc3\xa9", b"~", b" ", b"a" * 300]
BAD_VALUES = [b"\r", b"\n", b"\x00", b"a\rb", b"a\nb", b"a\x00b", b"\x7f", b"a\x7f", b"\x1f", b"\x01", b"x\r\ny: z", b"\x0b", b"\x08"]
METHODS_OK = [b"GET", b"POST", b"PUT", b"HEAD", b"DELETE", b"PATCH", b"TRACE", b"QUERY", b"OPTIONS", b"CONNECT", b"get", b"M-SEARCH",
              b"X" * 15, b"X" * 16, b"X" * 100, b"!#$%&'*+-.^_`|~09AZaz", b"CONNECT1", b"connect"]
METHODS_BAD = [b"", b"G T", b"GET\x00", b"GET ", b" GET", b"G\tT", b"G(T", b'G"T', b"G/T", b"G:T", b"\xc3\xa9", b"G\x7f", b"GE\r\nT", b"X" * 16 + b" "]
STATUS_MISC = [b"200", b"099", b"100", b"999", b"1000", b"20", b"2", b"", b"2x0", b"20\x00", b" 200", b"200 ", b"+20", b"-20", b"0200", b"600",
               b"101", b"000", b"\xef\xbc\x92\xef\xbc\x90\xef\xbc\x90", b"2 0", b"20a", b"a00"]
SCHEMES = [b"https", b"http", b"HTTP", b"Https", b"ftp", b"", b"ht tp", b"h\x00", b"1http", b"a+b-c.d", b"a" * 64, b"a" * 65, b"http:", b"http://",
           b"h\xc3\xa9", b"\xff", b"wss", b"h_p", b"-a", b"a/b", b"h~p"]
AUTHS = [b"a.com", b"b.com", b"a.com:443", b"user@a.com", b"u:p@a.com", b"[::1]", b"[::1]:80", b"", b"a b", b"a/b", b"A.COM", b"a.com:", b"a..com",
         b":80", b"\xc3\xa9.com", b"a.com\x00", b"a.com\r\n", b"[::1", b"a.com#f", b"a?b", b"a@b@c", b"localhost", b"127.0.0.1:8080", b"a%20b",
         b"a\tb", b"\xff", b"a.com:65536", b"a.com:x", b"*", b"a" * 300]
PATHS = [b"/", b"/a?b=c", b"", b"*", b"a", b"/a b", b"/a#frag", b"?q", b"/\x00", b"/\xc3\xa9", b"/\xff", b"//", b"/a/../b", b"/%zz", b"/a?b?c", b"#",
         b"/{}", b'/"', b"/<>", b"/\x7f", b"/\t", b"http://a.com/", b"/" + b"a" * 300, b"/?", b"/\r\n"]
PROTOS = [b"webtransport", b"connect-udp", b"connect-ip", b"websocket", b"", b"WebTransport", b"webtransport ", b"h2c", b"websocket\x00", b"web",
          b"connect-tcp", b"\xff"]

REQ_BASE = [(M, b"GET"), (S, b"https"), (A, b"a.com"), (P, b"/")]
REQ_MIN = [(M, b"GET"), (A, b"a.com")]
RESP_BASE = [(ST, b"200")]


class C12(Prop):
    id = "C12"
    thorough_rounds = 2   # thorough tier: this many independently seeded rounds of the random generators (duplicates dropped)
    modules = ["H3.Props.C12"]
    engines = ["hdr"]
    design_ref = "DESIGN.md section 7, C12"
    level_text = ("Lean theorems over a model of Field::parse, Header::{try_from, into_request_parts, into_response_parts, "
                  "into_trailers, request, response, trailer}, HeaderIter and Protocol, for ALL field lists and all caller-built "
                  "messages: an accepted request/response/trailer section satisfies the well-formedness oracle written from "
                  "the property text and RFC 9114 §4.2-4.3 and the parts handed over carry exactly the received values; every "
                  "other list is refused (no panic) and each of the three call sites turns every HeaderError into a "
                  "stream-level H3_MESSAGE_ERROR; HeaderIter yields the pseudo-header fields first, each at most once, in a "
                  "fixed order, with the caller's values, then the map in its own order; reading R-12c: the :protocol tokens are "
                  "written out in the specification and proved equal to the list read from ext.rs, and the crate-independent "
                  "necessary conditions of a parseable :scheme / :authority / :path (RFC 3986 3.1-3.4, RFC 9114 4.3.1) are proved "
                  "for every Http whose PathAndQuery refuses the empty string: Field::parse checks the scheme grammar, the two "
                  "authority conditions and the absence of # itself (pseudo_value_syntax, the D-12g fix; witness by decide that an "
                  "Http answering as the real crate does accepts what this check refuses)")
    level_note = ("trusted: Lean kernel + 3 standard axioms; hand-written model tied to the code by the differential run: the real "
                  "Header functions (function level), the real poll_recv_trailers over an in-memory stream, and the real "
                  "server accept+resolve_request / client send_request+recv_response over a private 160-line in-memory "
                  "transport, the real send_request / send_response / send_trailers (client and server) with every byte written "
                  "on the request stream read back by the specification's RFC 9204 reference decoder (driver op `hdr dec`), and "
                  "trailers received through the public recv_data + recv_trailers wrappers of client and server, "
                  "against the model on identical case lines; tools/extract.py regenerates the Protocol table, the "
                  "error codes used at the three call sites and seven source decisions the model switches on; http crate: four "
                  "validators modelled concretely (all 256 single-byte names/values/methods and digit triples enumerated against "
                  "the real crate), Scheme/Authority/PathAndQuery/Uri::builder abstract with five listed laws, instantiated per "
                  "case by the real crate's verdicts carried on the case line and checked against the laws")
    rule = ("cases: every alphabet name x value in request/response/trailer context, all 256 single-byte names (4 positions incl. "
            "a 65-byte name) and values, all 256 single-byte methods, status digit triples, scheme/authority/path/protocol "
            "alphabets, presence/absence/duplication/contradiction of the 7 special fields (3^7 combinations + orderings), "
            "CONNECT variants, host/authority contradictions, Host multiplicity (0-3 Host values, equal / one different at each position / "
            "all different from :authority, x 0/1/2 :authority fields x Host before/after/around :authority), pseudo-header fields of the other kind of "
            "message (:status in requests at every position x 5 request shapes x 4 status values; all 31 subsets of :method/:scheme/:authority/"
            ":path/:protocol in responses before/after/around :status and without it; valid, repeated, unparseable values; each at the function "
            "level and through the real server/client call site), field counts around and far beyond 24576 (no limit), 24576 / 24577 distinct names (the HeaderMap limit), seeded random lists; every second "
            "request/response case (thorough: every one) again through the real server/client call site; sent side: methods x "
            "URI shapes x protocol x maps, every third of these lines (every extended CONNECT) again through the public send call "
            "(wreq / wresp / wtrlc / wtrls: the written HEADERS frame decoded by the reference decoder), every third trailer section "
            "again through the public receive wrappers (trlc / trls); non-trivial = implementation result is ok/reject/refused/sent "
            "(not bad-op/bad-verdicts/unbuildable/panic/law-violated)")
    trusted = ["http 1.x crate (HeaderName/HeaderValue/Method/StatusCode concrete models; Scheme/Authority/PathAndQuery/Uri "
               "abstract, verdicts supplied by the real crate on every case line; HeaderMap iteration order = groups in order "
               "of first insertion)",
               "qpack::encode_stateless/decode_stateless round trip inside the trailers engine (C11)",
               "the w... ops trust H3.Spec.Qpack.specDecode (the RFC 9204 reference decoder of C11's specification) and a ten-line "
               "frame-header reader in Drv/C12.lean to read what h3 wrote"]
    assumptions = ["HttpLaws: Authority::from_str(\"\") fails; Authority::as_str is the input; Uri::builder with an empty authority "
                   "fails; the builder parses its authority with Authority's parser; HttpSyntaxLaws: PathAndQuery::from_str(\"\") "
                   "fails (each checked on every verdict table)",
                   "http::HeaderMap::try_append fails exactly when it is called on a map that already holds 24576 distinct names "
                   "(try_reserve_one runs before the name is looked up; index table of at most 2^15 slots, 3/4 usable), whatever "
                   "the name; any number of values per name; the hash-flooding defence (yellow/red danger states after probe "
                   "sequences of >= 512 slots) is not modelled; checked by boundary cases on the real crate",
                   "caller-built HeaderMap names satisfy HeaderName's invariant (no ':'), values HeaderValue's",
                   "R-12c: 'parseable' = the http crate's parser accepts the value AND the value satisfies the crate-independent "
                   "necessary conditions SyntaxOk (scheme = RFC 3986 3.1 grammar; authority: at most one @, numeric port outside an IP "
                   "literal; path: no #, not empty under http/https); not demanded: no userinfo, non-empty host, port < 65536; the "
                   "first three are h3's own check since the D-12g fix, the empty path is the crate's refusal",
                   "R-12: duplicated pseudo-header fields (which of several different values counts), pseudo-header fields after "
                   "regular ones, missing :scheme/:path are not demanded by the "
                   "property text; demanded (D-12f): 'only defined pseudo-header fields' = defined for this kind of message "
                   "(RFC 9114 4.3): no :status in a request, no :method/:scheme/:authority/:path/:protocol in a response; R-12b: every Host value must be the :authority value when there is one, and without :authority "
                   "the Host values must be one value (several identical Host fields are not refused)"]

    # ------------------------------------------------------------------ verdict pre-pass
    def verdicts(self, ftoks):
        """asks h3run (http crate called directly) for the verdict token of each field list."""
        uniq = sorted(set(ftoks))
        inp = "\n".join("hdr verdicts " + f for f in uniq) + "\n"
        p = subprocess.run([vlib.RUN], input=inp, stdout=subprocess.PIPE, stderr=subprocess.PIPE, text=True,
                           timeout=3000, env=vlib.env())
        out = p.stdout.split("\n")
        if out and out[-1] == "":
            out.pop()
        if p.returncode != 0 or len(out) != len(uniq):
            raise RuntimeError("verdict pre-pass failed: rc=%s %d/%d" % (p.returncode, len(out), len(uniq)))
        return dict(zip(uniq, out))

    def finish(self, raw):
        """raw: list of either a complete line (str) or (op, fields-token)."""
        need = [r[1] for r in raw if not isinstance(r, str)]
        vt = self.verdicts(need) if need else {}
        L = []
        for r in raw:
            if isinstance(r, str):
                L.append(r)
            else:
                L.append("hdr %s %s %s" % (r[0], r[1], vt[r[1]]))
        return L

    # ------------------------------------------------------------------ projection: what h3 wrote, read by the reference decoder
    def project_all(self, lines, impls):
        """`wire <hex>` (ops wreq / wresp / wtrlc / wtrls: every byte the real send call wrote on the request stream) is
        replaced by what the driver's op `hdr dec <hex>` reads in it: ONE complete HEADERS frame whose field section the
        RFC 9204 reference decoder of the specification (`H3.Spec.Qpack.specDecode`) decodes, printed as `sent <fields>`;
        anything else comes back as `wire-bad:<why>` and matches no specification."""
        idx = [i for i, o in enumerate(impls) if o.startswith("wire ")]
        if not idx:
            return list(impls)
        uniq = sorted(set(impls[i][5:] for i in idx))
        rc, out, err = vlib.run_lines(vlib.DRV, ["hdr dec " + h for h in uniq])
        if rc != 0 or len(out) != len(uniq):
            raise RuntimeError("h3drv hdr dec failed rc=%s %s" % (rc, err[-300:]))
        dec = dict(zip(uniq, out))
        res = list(impls)
        for i in idx:
            res[i] = dec[impls[i][5:]]
        return res

    # ------------------------------------------------------------------ generators
    def cases(self, tier, rng):
        big = tier == "thorough"
        raw = []

        count = [0]
        tcount = [0]

        def recv(op, fields):
            tok = ftok(fields)
            raw.append((op, tok))
            # the same section through the real call site over the private in-memory transport
            # (server accept + resolve_request, client send_request + recv_response)
            if op in ("req", "resp"):
                count[0] += 1
                if big or count[0] % 2 == 0:
                    raw.append(({"req": "srv", "resp": "cli"}[op], tok))
            # trailers through the PUBLIC wrappers client::RequestStream::recv_trailers / server::RequestStream::recv_trailers
            if op == "trl":
                tcount[0] += 1
                if big or tcount[0] % 3 == 0:
                    raw.append(("trlc" if tcount[0] % 2 else "trls", tok))

        def in_all(extra, ops=("req", "resp", "trl")):
            """the extra fields placed into an otherwise fine section of each kind"""
            for op in ops:
                base = {"req": REQ_BASE, "resp": RESP_BASE, "trl": []}[op]
                recv(op, base + extra)
                if op != "trl":
                    recv(op, extra + base)

        # baselines
        for op in ("req", "resp", "trl"):
            recv(op, [])
        recv("req", REQ_BASE)
        recv("req", REQ_MIN)
        recv("resp", RESP_BASE)
        recv("trl", [(b"x-trailer", b"1")])
        for op in ("trlc", "trls"):
            for fs in ([], [(b"x-trailer", b"1")], [(b"b", b"1"), (b"a", b"2"), (b"b", b"3")], [(ST, b"200")], [(b"x", b"1"), (M, b"GET")],
                       [(b"X", b"1")], [(b"x", b"\r")], [(b":x", b"1")], [(b"", b"1")], [(b'a"b', b"1")]):
                raw.append((op, ftok(fs)))

        # names x values
        for n in VALID_NAMES + BAD_NAMES + BAD_PSEUDO:
            for v in (b"v", b"", b"\x00"):
                in_all([(n, v)])
        for v in VALID_VALUES + BAD_VALUES:
            for n in (b"a", b"host", b"content-length"):
                in_all([(n, v)])
        # all 256 single-byte names (alone, first, last, at the end of a 65-byte name) and values
        for b in range(256):
            c = bytes([b])
            for n in (c, c + b"a", b"a" + c, b"a" * 64 + c):
                recv("req", REQ_MIN + [(n, b"v")])
            recv("resp", RESP_BASE + [(b"a" + c, b"v")])
            recv("trl", [(c, b"v")])
            recv("trl", [(b"a" + c, b"v")])
            for v in (c, b"a" + c + b"b"):
                recv("req", REQ_MIN + [(b"a", v)])
            recv("resp", RESP_BASE + [(b"a", c)])
            recv("trl", [(b"a", c)])
            # pseudo values
            recv("req", [(M, c), (A, b"a.com")])
            recv("req", [(M, b"G" + c + b"T"), (A, b"a.com")])
            recv("resp", [(ST, b"2" + c + b"0")])
            recv("resp", [(ST, c + b"00")])
            recv("resp", [(ST, b"20" + c)])
            recv("req", [(M, b"GET"), (A, b"a" + c + b"b")])
            recv("req", [(M, b"GET"), (HOST, b"a" + c + b"b")])
            recv("req", REQ_MIN + [(S, b"h" + c + b"p"), (P, b"/")])
            recv("req", REQ_MIN + [(S, b"https"), (P, b"/" + c)])
            recv("req", [(M, b"CONNECT"), (A, b"a.com"), (PR, b"web" + c)])
        # long names around MAX_HEADER_NAME_LEN
        for k in (65534, 65535, 65536):
            recv("req", REQ_MIN + [(b"a" * k, b"v")])
        recv("trl", [(b"a" * 65535 + b"B", b"v")])

        # pseudo-header values
        for m in METHODS_OK + METHODS_BAD:
            recv("req", [(M, m), (A, b"a.com")])
            recv("req", [(M, m), (S, b"https"), (A, b"a.com"), (P, b"/")])
        for a in "/0159:a":
            for b in "/0159:a":
                for c in "/0159:a":
                    recv("resp", [(ST, (a + b + c).encode())])
        for s in STATUS_MISC:
            recv("resp", [(ST, s)])
            recv("req", REQ_MIN + [(ST, s)])
        for s in SCHEMES:
            recv("req", [(M, b"GET"), (S, s), (A, b"a.com"), (P, b"/")])
            recv("req", [(M, b"GET"), (S, s), (A, b"a.com")])
            recv("resp", RESP_BASE + [(S, s)])
        for a in AUTHS:
            recv("req", [(M, b"GET"), (A, a)])
            recv("req", [(M, b"GET"), (HOST, a)])
            recv("req", [(M, b"GET"), (S, b"https"), (A, a), (P, b"/")])
            recv("req", [(M, b"GET"), (S, b"https"), (HOST, a), (P, b"/")])
            recv("req", [(M, b"GET"), (A, a), (HOST, a)])
            recv("resp", RESP_BASE + [(A, a)])
        for p in PATHS:
            recv("req", [(M, b"GET"), (S, b"https"), (A, b"a.com"), (P, p)])
            recv("req", [(M, b"GET"), (A, b"a.com"), (P, p)])
            recv("req", [(M, b"OPTIONS"), (S, b"https"), (A, b"a.com"), (P, p)])
        for pr in PROTOS:
            recv("req", [(M, b"CONNECT"), (PR, pr), (S, b"https"), (A, b"a.com"), (P, b"/")])
            recv("req", [(M, b"CONNECT"), (A, b"a.com"), (PR, pr)])
            recv("req", [(M, b"GET"), (A, b"a.com"), (PR, pr)])
            recv("resp", RESP_BASE + [(PR, pr)])
            recv("trl", [(PR, pr)])
        # CONNECT shapes
        for extra in ([], [(S, b"https")], [(P, b"/")], [(S, b"https"), (P, b"/")]):
            for pr in ([], [(PR, b"webtransport")]):
                for au in ([(A, b"a.com:443")], [(HOST, b"a.com:443")], []):
                    recv("req", [(M, b"CONNECT")] + pr + extra + au)

        # authority / Host agreement
        pairs = [(b"a.com", b"a.com"), (b"a.com", b"b.com"), (b"A.com", b"a.com"), (b"a.com", b"a.com:443"), (b"a.com", b""),
                 (b"a.com", b" a.com"), (b"a.com", b"a.com "), (b"a.com", b"a.com\x00"), (b"", b"a.com"), (b"", b"")]
        for a, h in pairs:
            recv("req", [(M, b"GET"), (A, a), (HOST, h)])
            recv("req", [(M, b"GET"), (HOST, h), (A, a)])
            recv("req", [(M, b"GET"), (A, a), (HOST, h), (HOST, a)])
            recv("req", [(M, b"GET"), (A, a), (HOST, a), (HOST, h)])
            recv("req", [(M, b"GET"), (A, h), (A, a), (HOST, h)])
            recv("req", [(M, b"GET"), (HOST, a), (HOST, h)])
            recv("req", [(A, a), (HOST, h)])

        # Host multiplicity (D-12e): 0/1/2/3 Host values, all equal / one of them different (at each position: another
        # name, empty, differing in case / port / a trailing space only, unparseable) / all equal but not the :authority
        # value; without :authority, with one, with two (equal, different: the last one counts); :authority before, after
        # and between the Host values; as a minimal request and as a full one with a regular field in between
        others = [b"b.com", b"", b"A.com", b"a.com:443", b"a.com ", b"a b"]
        for k in (0, 1, 2, 3):
            variants = [[b"a.com"] * k]
            for pos in range(k):
                for o in others:
                    hv = [b"a.com"] * k
                    hv[pos] = o
                    variants.append(hv)
            if k >= 2:
                variants.append([b"b.com"] * k)
            for hv in variants:
                hosts = [(HOST, v) for v in hv]
                for au in ([], [(A, b"a.com")], [(A, b"b.com"), (A, b"a.com")], [(A, b"a.com"), (A, b"a.com")]):
                    recv("req", [(M, b"GET")] + au + hosts)
                    recv("req", [(M, b"GET")] + hosts + au)
                    if k >= 2:
                        recv("req", [(M, b"GET")] + hosts[:1] + au + hosts[1:])
                        recv("req", [(M, b"GET"), (S, b"https")] + hosts[:-1] + [(b"x", b"1")] + au + [(P, b"/")] + hosts[-1:])
        # the same Host values in a response and in trailers are ordinary fields
        for hv in ([b"a.com", b"b.com"], [b"a.com", b"a.com", b""]):
            recv("resp", RESP_BASE + [(HOST, v) for v in hv])
            recv("trl", [(HOST, v) for v in hv])

        # pseudo-header fields of the other kind of message (D-12f): `:status` in a request; every non-empty subset of
        # `:method`, `:scheme`, `:authority`, `:path`, `:protocol` in a response; before, after and between the fields of
        # the right kind, with a regular field around, with valid, repeated and unparseable values, with and without
        # what the section's own kind needs; each also through the real server / client call site (`srv` / `cli`)
        def both(op, fields):
            tok = ftok(fields)
            raw.append((op, tok))
            raw.append(({"req": "srv", "resp": "cli"}[op], tok))

        for st in (b"200", b"100", b"404", b"999"):
            for base in (REQ_MIN, REQ_BASE, [(M, b"GET"), (HOST, b"a.com")], [(M, b"CONNECT"), (A, b"a.com:443")],
                         [(M, b"CONNECT"), (PR, b"webtransport"), (S, b"https"), (A, b"a.com"), (P, b"/")]):
                for i in range(len(base) + 1):
                    both("req", base[:i] + [(ST, st)] + base[i:])
                both("req", base + [(b"x", b"1"), (ST, st)])
                both("req", base + [(ST, st), (ST, st)])
        for extra in ([(ST, b"200")], [(ST, b"200"), (ST, b"404")], [(ST, b"099")], [(ST, b"")], [(ST, b"2x0")]):
            both("req", REQ_MIN + extra)
            both("req", extra + REQ_BASE + [(b"x", b"1")])
            both("req", extra)                                  # nothing but the foreign field
            both("req", [(M, b"GET")] + extra)                  # … and no authority
            both("req", [(A, b"a.com")] + extra)                # … and no :method
        req_fields = [(M, b"GET"), (S, b"https"), (A, b"a.com"), (P, b"/"), (PR, b"webtransport")]
        for code in range(1, 2 ** 5):
            sub = [f for i, f in enumerate(req_fields) if code >> i & 1]
            both("resp", RESP_BASE + sub)
            both("resp", sub + RESP_BASE)
            both("resp", sub)                                   # no :status at all
            if len(sub) >= 2:
                both("resp", sub[:1] + RESP_BASE + [(b"x", b"1")] + sub[1:])
        for n, good, bad in ((M, b"POST", b"G T"), (S, b"http", b"ht tp"), (A, b"b.com:8443", b"a b"), (P, b"/a?b=c", b"/a b"),
                             (PR, b"websocket", b"h2c")):
            for st in (b"200", b"404"):
                both("resp", [(ST, st), (n, good)])
                both("resp", [(n, good), (ST, st), (b"x", b"1")])
                both("resp", [(ST, st), (b"x", b"1"), (n, good)])
                both("resp", [(ST, st), (n, good), (n, good)])
            both("resp", RESP_BASE + [(n, bad)])                # refused by `try_from` already (unparseable value)
            both("resp", RESP_BASE + [(n, b"")])
        # a complete request as a response, a complete response as a request
        both("resp", REQ_BASE)
        both("resp", REQ_BASE + RESP_BASE)
        both("req", RESP_BASE)
        both("req", RESP_BASE + REQ_BASE)

        # presence / absence / duplication (with a contradicting second value) of the seven special fields
        special = [(M, b"GET", b"POST"), (S, b"https", b"http"), (A, b"a.com", b"b.com"), (P, b"/", b"/x"),
                   (ST, b"200", b"404"), (PR, b"webtransport", b"websocket"), (HOST, b"a.com", b"c.com")]
        combos = []
        for code in range(3 ** 7):
            fs = []
            c = code
            for (n, v1, v2) in special:
                k = c % 3
                c //= 3
                if k >= 1:
                    fs.append((n, v1))
                if k == 2:
                    fs.append((n, v2))
            combos.append(fs)
        for i, fs in enumerate(combos):
            for op in ("req", "resp", "trl"):
                if op == "req" or i % 3 == 0 or big:
                    recv(op, fs)
            if i % 2 == 0 or big:
                g = list(fs) + [(b"x", b"1")]
                rng.shuffle(g)
                recv("req", g)
            if i % 5 == 0 or big:
                g = []
                for f in fs:
                    g.append(f)
                    if rng.random() < 0.3:
                        g.append((f[0], f[1]))      # same-value duplicate
                rng.shuffle(g)
                recv(rng.choice(["req", "resp", "trl"]), g)
        # pseudo-header fields after regular fields, in every kind of section
        for op, base in (("req", REQ_BASE), ("resp", RESP_BASE)):
            for i in range(len(base) + 1):
                recv(op, base[:i] + [(b"x", b"1")] + base[i:])
        for ps in ([(ST, b"200")], [(M, b"GET")], [(P, b"/")], [(A, b"a.com")], [(S, b"https")], [(PR, b"websocket")], [(b":x", b"1")]):
            recv("trl", ps)
            recv("trl", ps + [(b"x", b"1")])
            recv("trl", [(b"x", b"1")] + ps)
            recv("trl", [(b"x", b"1")] + ps + [(b"y", b"2")])

        # duplicates of regular names: per-name order
        recv("req", REQ_BASE + [(b"set-cookie", b"a"), (b"x", b"1"), (b"set-cookie", b"b"), (b"y", b"2"), (b"x", b"3"), (b"set-cookie", b"a")])
        recv("resp", RESP_BASE + [(b"set-cookie", b"a"), (b"x", b"1"), (b"set-cookie", b"b"), (b"y", b"2"), (b"x", b"3")])
        recv("trl", [(b"b", b"1"), (b"a", b"2"), (b"b", b"3"), (b"a", b"4"), (b"c", b"5")])

        # field counts: no limit of their own (D-01, repaired: a map that cannot be pre-sized for
        # 24577 or more fields, 24576 + 24576/3 = 2^15, starts empty); pseudo-header fields are not
        # stored in the map, values under one name may be any number
        for n in (24575, 24576, 24577, 24578, 32769) + ((49153,) if big else ()):
            recv("req", [(M, b"GET", n)])
            recv("resp", [(ST, b"200", n)])
            recv("trl", [(b"x", b"1", n)])
        recv("req", REQ_MIN + [(b"x", b"1", 24574)])
        recv("req", REQ_MIN + [(b"x", b"1", 24575)])
        recv("req", REQ_BASE + [(b"x", b"1", 24573)])       # D-01 witness: 24577 fields
        recv("req", REQ_BASE + [(b"x", b"1", 30000)])
        recv("req", [(b"A", b"1")] + [(b"x", b"1", 24576)])
        recv("req", [(b"x", b"1", 24576), (b"A", b"1")])
        recv("trl", [(ST, b"200")] + [(b"x", b"1", 24576)])
        recv("resp", RESP_BASE + [(b"x", b"\x00", 24576)])
        # the limit of http::HeaderMap itself: 24576 distinct names; `try_append` fails when the map
        # already holds that many, whatever the name appended (names chosen to differ early)
        abc = "abcdefghijklmnopqrstuvwxyz"

        def dname(i):
            return (abc[i % 26] + abc[(i // 26) % 26] + abc[(i // 676) % 26] + abc[i // 17576]).encode()

        def distinct(k):
            return [(dname(i), b"y") for i in range(k)]
        recv("trl", distinct(24576))                                  # handed over
        recv("trl", distinct(24577))                                  # one name too many: refused
        if big:
            recv("trl", distinct(24576) + [(dname(0), b"z")])          # a known name, but the map is full: refused
            recv("trl", distinct(24576) + [(dname(24575), b"z")])
            recv("trl", [(dname(0), b"z")] + distinct(24576))          # the same fields, the repeat first: handed over
            recv("trl", distinct(24575) + [(b"x", b"1", 30000)])       # the 24576th name twice: refused
            recv("trl", distinct(24575) + [(dname(7), b"1", 30000)])   # 24575 names, many values: handed over
            recv("req", REQ_BASE + distinct(24576))
            recv("req", REQ_BASE + distinct(24577))
            recv("resp", RESP_BASE + distinct(24576) + [(dname(3), b"w")])
            recv("resp", RESP_BASE + [(("n%d" % i).encode(), b"v") for i in range(12000)])

        # seeded random lists
        pool_n = VALID_NAMES[:8] + [M, S, A, P, ST, PR, HOST] * 2 + BAD_NAMES[:10] + BAD_PSEUDO[:4]

        def rnd_value(n):
            r = rng.random()
            if n == M:
                return rng.choice(METHODS_OK[:10] + METHODS_BAD[:3])
            if n == S:
                return rng.choice(SCHEMES[:6])
            if n in (A, HOST):
                return rng.choice(AUTHS[:9])
            if n == P:
                return rng.choice(PATHS[:8])
            if n == ST:
                return rng.choice(STATUS_MISC[:8])
            if n == PR:
                return rng.choice(PROTOS[:6])
            if r < 0.08:
                return rng.choice(BAD_VALUES)
            if r < 0.2:
                return bytes(rng.randrange(256) for _ in range(rng.randrange(0, 4)))
            return rng.choice(VALID_VALUES)

        for _ in range(40000 if big else 4000):
            op = rng.choice(["req", "req", "resp", "trl"])
            fs = []
            if rng.random() < 0.7:
                fs += {"req": rng.choice([REQ_BASE, REQ_MIN]), "resp": RESP_BASE, "trl": []}[op]
            for _ in range(rng.randrange(0, 7)):
                n = rng.choice(pool_n) if rng.random() < 0.85 else bytes(rng.randrange(256) for _ in range(rng.randrange(0, 4)))
                fs.append((n, rnd_value(n)))
            if rng.random() < 0.5:
                rng.shuffle(fs)
            recv(op, fs)
        # mostly well-formed random lists (so that acceptance is well represented)
        for _ in range(20000 if big else 2000):
            op = rng.choice(["req", "resp", "trl"])
            fs = list({"req": rng.choice([REQ_BASE, REQ_MIN, [(M, b"POST"), (S, b"http"), (HOST, b"b.com"), (P, b"/a?b=c")]]),
                       "resp": [(ST, rng.choice([b"200", b"404", b"100", b"999"]))], "trl": []}[op])
            for _ in range(rng.randrange(0, 8)):
                fs.append((rng.choice(VALID_NAMES[:9]), rng.choice(VALID_VALUES[:9])))
            if rng.random() < 0.1:
                i = rng.randrange(len(fs) + 1)
                fs.insert(i, (rng.choice(BAD_NAMES + BAD_PSEUDO), b"v") if rng.random() < 0.5 else (b"a", rng.choice(BAD_VALUES)))
            if op == "req" and rng.random() < 0.15:
                # further Host values: the request's own authority again, or (one time in three) something else
                own = [v for n, v in fs if n in (A, HOST)][0]
                for _ in range(rng.randrange(1, 4)):
                    v = own if rng.random() < 0.67 else rng.choice([b"b.com", b"c.com", b"", own + b":443"])
                    fs.insert(rng.randrange(len(fs) + 1), (HOST, v))
            recv(op, fs)

        # ---------------------------------------------------------------- sent side
        uris = [(b"https", b"a.com", b"/"), (b"http", b"a.com", b"/p?q=1"), (b"https", b"a.com", b""), (b"https", b"a.com:443", b"/"),
                (None, None, b"/p"), (None, None, b"/"), (None, b"a.com", None), (None, b"a.com:443", None), (None, None, b"*"),
                (None, None, None), (b"https", b"a.com", b"?q"), (b"ftp", b"b.com", b"/x"), (b"https", b"user@a.com", b"/"),
                (b"https", b"[::1]:8443", b"/a/b?c"), (b"HTTPS", b"A.com", b"/"), (b"a+b", b"a.com", b"*"), (None, None, b"?q"),
                # shapes http refuses (printed `unbuildable` on both sides)
                (b"https", None, b"/"), (b"https", b"a.com", None), (None, b"a.com", b"/"), (None, None, b"")]
        maps = [[], [(b"x", b"1")], [(HOST, b"a.com")], [(HOST, b"b.com")], [(HOST, b"a.com:443")], [(HOST, b"")],
                [(b"x", b"1"), (HOST, b"a.com"), (b"x", b"2")], [(HOST, b"b.com"), (HOST, b"a.com")], [(HOST, b"a.com"), (HOST, b"b.com")],
                [(b"b", b"1"), (b"a", b"2"), (b"b", b"3"), (b"a", b"4"), (b"c", b"")], [(b"set-cookie", b"a=1"), (b"set-cookie", b"b=2")],
                [(b"a", b"\x80\xff\t ")], [(b"X", b"1")], [(b"a", b"\r")], [(b'a"b', b"1")], [(b":x", b"1")], [(b"", b"1")]]
        protos = [None, b"webtransport", b"connect-udp", b"connect-ip", b"websocket", b"h2c"]

        def opt(x):
            return "~" if x is None else hx(x)

        good_uris, bad_uris = uris[:17], uris[17:]
        for m in (b"GET", b"POST", b"CONNECT", b"OPTIONS", b"HEAD", b"M-SEARCH", b"connect", b"options"):
            for (s, a, p) in good_uris:
                for pr in protos[:5]:
                    ms = maps[:12] if (m in (b"GET", b"CONNECT") and pr in (None, b"webtransport")) else maps[:5]
                    for mp in ms:
                        raw.append("hdr sreq %s %s %s %s %s %s" % (hx(m), opt(s), opt(a), opt(p), opt(pr), ftok(mp)))
        # values no caller can build (the http crate refuses them): `unbuildable` on both sides
        for m in (b"", b"G T"):
            raw.append("hdr sreq %s %s %s %s ~ []" % (hx(m), hx(b"https"), hx(b"a.com"), hx(b"/")))
        for (s, a, p) in bad_uris:
            raw.append("hdr sreq %s %s %s %s ~ %s" % (hx(b"GET"), opt(s), opt(a), opt(p), ftok([(HOST, b"a.com")])))
        raw.append("hdr sreq %s %s %s %s %s []" % (hx(b"CONNECT"), hx(b"https"), hx(b"a.com"), hx(b"/"), hx(b"h2c")))
        for mp in maps[12:]:
            raw.append("hdr sreq %s %s %s %s ~ %s" % (hx(b"GET"), hx(b"https"), hx(b"a.com"), hx(b"/"), ftok(mp)))
        for st in list(range(95, 106)) + [199, 200, 204, 299, 404, 500, 599, 600, 998, 999, 1000, 0, 65535]:
            for mp in (maps if st in (200, 99, 1000) else maps[:12]):
                raw.append("hdr sresp %d %s" % (st, ftok(mp)))
        for mp in maps:
            raw.append("hdr strl " + ftok(mp))
        for _ in range(5000 if big else 800):
            mp = [(rng.choice(VALID_NAMES), rng.choice(VALID_VALUES[:10])) for _ in range(rng.randrange(0, 9))]
            k = rng.randrange(3)
            if k == 0:
                s, a, p = rng.choice(good_uris)
                raw.append("hdr sreq %s %s %s %s %s %s" % (hx(rng.choice(METHODS_OK)), opt(s), opt(a), opt(p), opt(rng.choice(protos[:5])), ftok(mp)))
            elif k == 1:
                raw.append("hdr sresp %d %s" % (rng.randrange(100, 1000), ftok(mp)))
            else:
                raw.append("hdr strl " + ftok(mp))
        # the send sentence at the API: every function-level send line that is not `unbuildable` by construction again through
        # the real send_request / send_response / send_trailers (ops wreq / wresp / wtrlc / wtrls), the bytes written on the
        # request stream read back by the reference decoder (`project_all`); quick: every third one, extended CONNECT always
        wcount = 0
        for r in list(raw):
            if not isinstance(r, str):
                continue
            w = r.split()
            if w[1] not in ("sreq", "sresp", "strl"):
                continue
            wcount += 1
            ext_connect = w[1] == "sreq" and w[6] != "~"
            if not (big or ext_connect or wcount % 3 == 0):
                continue
            if w[1] == "sreq":
                raw.append(" ".join(["hdr", "wreq"] + w[2:]))
            elif w[1] == "sresp":
                raw.append(" ".join(["hdr", "wresp"] + w[2:]))
            else:
                raw.append("hdr wtrlc " + w[2])
                raw.append("hdr wtrls " + w[2])
        return self.finish(raw)

    # ------------------------------------------------------------------ statistics
    def klass(self, line, impl):
        w = line.split()
        r = impl.split(" ")
        k = r[0]
        if k == "reject" and len(r) > 1:
            k += "/" + r[1]
        k = "%s/%s" % (w[1], k)
        if w[1] in ("req", "srv"):
            k += host_class(w[2])
        if w[1] in ("req", "srv", "resp", "cli"):
            k += kind_class(w[1], w[2])
        if w[1] in ("req", "srv"):
            k += syntax_class(w[2])
        return k

    def trivial(self, line, impl):
        return impl.split(" ")[0] not in ("ok", "reject", "refused", "sent", "wire")

    # ------------------------------------------------------------------ shrinking
    def shrink_candidates(self, line):
        w = line.split()
        out = []
        if w[1] in ("req", "resp", "trl", "srv", "cli", "trlc", "trls"):
            fs = parse_ftok(w[2])
            cands = []
            for i in range(len(fs)):
                cands.append(fs[:i] + fs[i + 1:])
            for i, f in enumerate(fs):
                if f[2] > 1:
                    cands.append(fs[:i] + [(f[0], f[1], f[2] - 1)] + fs[i + 1:])
                    cands.append(fs[:i] + [(f[0], f[1], (f[2] + 1) // 2)] + fs[i + 1:])
                if len(f[0]) > 1 and not f[0].startswith(b":"):
                    cands.append(fs[:i] + [(f[0][:-1], f[1], f[2])] + fs[i + 1:])
                    cands.append(fs[:i] + [(f[0][1:], f[1], f[2])] + fs[i + 1:])
                if len(f[1]) > 0:
                    cands.append(fs[:i] + [(f[0], f[1][:-1], f[2])] + fs[i + 1:])
                    cands.append(fs[:i] + [(f[0], f[1][1:], f[2])] + fs[i + 1:])
            toks = [ftok(c) for c in cands]
            try:
                vt = self.verdicts(toks)
            except Exception:
                return []
            for t in toks:
                out.append("hdr %s %s %s" % (w[1], t, vt[t]))
        elif w[1] in ("sreq", "sresp", "strl", "wreq", "wresp", "wtrlc", "wtrls"):
            fs = parse_ftok(w[-1])
            for i in range(len(fs)):
                out.append(" ".join(w[:-1] + [ftok(fs[:i] + fs[i + 1:])]))
        return out


PROP = C12()
