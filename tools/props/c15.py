import os
import re

from vlib import Prop, LEAN
from props.c16 import hx

U64 = 2**64 - 1


def spec_lengths():
    """The 257 code lengths of lean/H3/Spec/Huffman.lean (the generator builds valid and
    almost-valid Huffman strings from the specification's table, not from the code's)."""
    src = open(os.path.join(LEAN, "H3", "Spec", "Huffman.lean")).read()
    src = re.sub(r"--[^\n]*", "", src)
    m = re.search(r"def codeLengths : List Nat := \[(.*?)\]", src, re.S)
    lens = [int(x) for x in re.findall(r"\d+", m.group(1))]
    assert len(lens) == 257
    return lens


def canonical(lens):
    order = sorted(range(len(lens)), key=lambda s: (lens[s], s))
    codes = {}
    code, prev = 0, 0
    for i, s in enumerate(order):
        if i:
            code = (code + 1) << (lens[s] - prev)
        prev = lens[s]
        codes[s] = format(code, "0%db" % lens[s])
    return codes


def pack(bits):
    """bit string (multiple of 8) -> byte list"""
    return [int(bits[i:i + 8], 2) for i in range(0, len(bits), 8)]


class C15(Prop):
    id = "C15"
    modules = ["H3.Props.C15"]
    engines = ["pint", "huff", "pstr"]
    design_ref = "DESIGN.md section 7, C15"
    level_text = ("Lean theorems over models of qpack::prefix_int::{encode,decode}, the Huffman coder of "
                  "prefix_string/{decode,encode,bitwin}.rs (level-tree walker with BitWindow/read_bits/check_eof as coded; "
                  "encoder with ensure_free_space/write_bits; both tables regenerated from the sources) and "
                  "prefix_string::{encode,decode}; unbounded: integer round trip for every prefix size, RFC 7541 5.1 value "
                  "or rejection and never a wrapped value, table agreement with the canonical code of the RFC lengths "
                  "(kernel decide), Huffman round trip, acceptance = RFC 7541 5.2 except on the flagged lax check_eof "
                  "branch (D-15, recorded; *_partial), string literal round trip for every string whose Huffman coding is "
                  "shorter than 2^29 - 2 bytes and a decoding error (BufSize) beyond (the bound prefix_string::decode puts on a "
                  "Huffman literal since the repair of D-06u; which body the tree has is read from the source on every run), "
                  "the Huffman decoder with every u32 / shift / index operation checked never overflows under that bound and "
                  "never on any input behind the refusal (positions_fit), the Huffman ENCODER with every u32 operation checked never "
                  "overflows for codings of L bytes with 7L < 2^32 (both shapes of put, every growth policy of Vec) and the "
                  "unrepaired one overflows beyond 2^32 bytes and at every reservation with 7*byte >= 2^32 "
                  "(encoder_positions_fit, D-15e; the round trip / string literal encoder theorems carry that bound as a "
                  "decidable hypothesis), answers independent of how a non-contiguous Buf is cut")
    level_note = ("trusted: Lean kernel + 3 standard axioms; hand-written models tied to the code by differential runs (all "
                  "0..2-byte Huffman payloads and byte strings, every padding length/pattern, integer boundaries and "
                  "continuation patterns, error kinds and bit windows compared); Spec/Huffman.lean code lengths typed by "
                  "hand, cross-checked by canonical structure, Kraft equality, RFC 7541 App. C vectors and both code tables")
    rule = ("cases: pint enc for n in 1..8 x flags x values {0..2^n+130, +-2 around 2^k (k<=64) and around prefix+2^k, random "
            "widths}; pint dec for every first byte x n, all 2-byte strings (n=5,8), all continuation patterns of k<=11 bytes "
            "from {80,ff} closed by {00,7f,nothing}, truncations, random; huff enc for all byte strings of length 0..2 + random "
            "long; huff dec for all payloads of 0..2 bytes (thorough: all 3-byte payloads as digest ranges), valid encodings "
            "followed by every padding of 0..15 bits in every bit pattern, bit flips/truncations/EOS insertions; pstr for "
            "sizes 2..9 (4,6,8 most) x H flag x truncation/length mutations; pstr decm / pint decm = the same decoders over "
            "a NON-CONTIGUOUS Buf (chunk() is the first piece only): valid and invalid literals, raw and Huffman, with and "
            "without bytes behind them - every 2-way split, every 3-way split of the short ones, sampled 3-way splits of the "
            "others, every byte a chunk of its own, random literals with 1..4 random cuts; declared lengths around 2^29 - 2 "
            "with and without H; huff decn = Huffman literals of n copies of a unit (corpus: the 2^29-byte witness of D-06u); "
            "huff encn = n copies of a unit through the real ENCODER, answered by arithmetic (length, byte sum, tail; the model's "
            "reservation arithmetic at the puts where the Vec's capacity is used up): counts 0..17 / 100 / 1000 / 4096 / 65537 of 7 "
            "units, random units and counts, 30 000 000 x 61, corpus: the first count at which the unrepaired encoder's "
            "`7 * end_range.byte` overflows (D-15e); thorough: the bound of the theorem, the audit's witness, both sides of "
            "the repaired encoder's refusal at 2^32 bytes; "
            "non-trivial = implementation result is not bad-op; distinct = distinct case lines")
    trusted = ["bytes::{Buf,BufMut} for &[u8] cursors and Vec<u8>; the harness's multi-chunk Buf (e_c16::Chunks: remaining / "
               "chunk / advance over a VecDeque<Bytes>, default copy_to_bytes / get_u8 of the bytes crate)",
               "Debug rendering of the private Huffman error type (kind and BitWindow numbers are read from it)"]
    assumptions = ["usize is 64 bits (u64 -> usize conversion of a string length never fails)",
                   "no assumption on the length of a Huffman payload any more: the u32 BitWindow positions are covered by "
                   "C15_huffman_positions_fit and the refusal of literals of 2^29 - 2 bytes or more (D-06u, repaired); the "
                   "round trip is claimed for strings whose Huffman coding is shorter than that (reading R-15b)",
                   "the Huffman ENCODER's positions: theorems for codings of L bytes with 7L < 2^32 (613 566 757 bytes; "
                   "reading R-15e); the Vec's growth policy is a parameter of the checked model (theorems: every policy; the "
                   "driver's prediction of the boundary probes: the standard library's max(8, 2*cap, required))",
                   "overflow checks are on in the harness build: prefix size 0 panics in prefix_int::decode "
                   "(`0xFF >> 8` on u8); sizes 1..8 are the property's quantifier"]

    # ------------------------------------------------------------------ generators

    def _pint(self, tier, rng, L):
        big = tier == "thorough"
        for n in range(1, 9):
            lim = 2**n - 1
            fmax = 2**(8 - n) - 1
            vals = set(range(0, lim + 131))
            for k in range(0, 65):
                for d in range(-2, 3):
                    for base in (0, lim):
                        v = base + 2**k + d
                        if 0 <= v <= U64:
                            vals.add(v)
            vals.update([U64, U64 - 1, lim + 2**63 - 1, lim + 2**63, 2**62 - 1, 2**62])
            for _ in range(20000 if big else 1500):
                vals.add(rng.getrandbits(rng.choice([7, 8, 14, 15, 21, 28, 35, 42, 49, 56, 62, 63, 64, 64])))
            flags = sorted({0, fmax, rng.randrange(fmax + 1), rng.randrange(fmax + 1)})
            for i, v in enumerate(sorted(vals)):
                for f in (flags if i % 16 == 0 else [rng.choice(flags)]):
                    L.append("pint enc %d %d %d" % (n, f, v))
            # every first byte, alone and followed by something
            for a in range(256):
                L.append("pint dec %d %02x" % (n, a))
                L.append("pint dec %d %02x%s" % (n, a, hx([rng.randrange(256) for _ in range(rng.randrange(1, 4))])))
            # continuation patterns: k bytes with the top bit set, then a terminator or the end
            for first in (0xff, lim):   # prefix saturated, flag bits set / clear
                for k in range(0, 12):
                    for pat in range(2**k):
                        cont = [0xff if (pat >> i) & 1 else 0x80 for i in range(k)]
                        for term in ([], [0x00], [0x7f], [0x01, 0x99]):
                            if first == lim and term == [0x01, 0x99] and k < 8:
                                continue
                            L.append("pint dec %d %s" % (n, hx([first] + cont + term)))
            # random continuations and every truncation of them
            for _ in range(2000 if big else 150):
                k = rng.randrange(0, 12)
                cont = [rng.randrange(128, 256) for _ in range(k)] + [rng.randrange(128)]
                bs = [rng.randrange(256) | lim] + cont + [rng.randrange(256) for _ in range(rng.randrange(3))]
                L.append("pint dec %d %s" % (n, hx(bs)))
                for t in range(len(bs)):
                    L.append("pint dec %d %s" % (n, hx(bs[:t])))
        for n in (5, 8) if not big else range(1, 9):
            for a in range(256):
                for b in range(256):
                    L.append("pint dec %d %02x%02x" % (n, a, b))
        # outside the precondition: sizes 0 and 9.., flags wider than the room for them
        for n in (0, 9, 10, 255):
            L.append("pint dec %d 00" % n)
            L.append("pint dec %d ff01" % n)
            L.append("pint dec %d -" % n)
            L.append("pint enc %d 0 5" % n)
            L.append("pint enc %d 1 300" % n)
        for n in range(1, 9):
            L.append("pint enc %d 255 3" % n)
            L.append("pint enc %d %d 1000" % (n, 2**(8 - n)))

    def _huff(self, tier, rng, L):
        big = tier == "thorough"
        codes = canonical(spec_lengths())
        eos = codes[256]

        def enc_bits(s):
            return "".join(codes[c] for c in s)

        def padded(bits):
            return pack(bits + "1" * (-len(bits) % 8))
        # encode side: all strings of length 0..2, random longer ones
        L.append("huff enc -")
        for a in range(256):
            L.append("huff enc %02x" % a)
        for a in range(256):
            for b in range(256):
                L.append("huff enc %02x%02x" % (a, b))
        for _ in range(20000 if big else 2500):
            n = rng.choice([3, 4, 5, 8, 13, 40, 100, 300])
            kind = rng.random()
            if kind < 0.4:
                s = [rng.randrange(256) for _ in range(n)]
            elif kind < 0.8:
                s = [rng.choice(b"abcdefghijklmnopqrstuvwxyz0123456789-./:=_ %ABCXYZ") for _ in range(n)]
            else:
                s = [rng.choice([0, 1, 10, 13, 22, 249, 255, 127, 220, 48]) for _ in range(n)]
            L.append("huff enc " + hx(s))
        for n in ([1000, 4000] if big else [1000]):
            L.append("huff enc " + hx([rng.randrange(256) for _ in range(n)]))
        # decode side: all payloads of 0..2 bytes
        L.append("huff dec -")
        for a in range(256):
            L.append("huff dec %02x" % a)
        for a in range(256):
            for b in range(256):
                L.append("huff dec %02x%02x" % (a, b))
        if big:
            step = 65536
            for lo in range(65793, 16843009, step):
                L.append("huff range %d %d" % (lo, min(lo + step, 16843009)))
        else:
            for _ in range(6):
                lo = rng.randrange(65793, 16843009 - 4096)
                L.append("huff range %d %d" % (lo, lo + 4096))
        # valid encodings followed by every padding of 0..15 bits in every bit pattern
        bases = {}
        tries = 0
        while len(bases) < 8 and tries < 10000:
            tries += 1
            s = [rng.choice(b"abcdeiost012 %-./3:AB&*,;XZ!?'+|#>") for _ in range(rng.randrange(0, 5))]
            bases.setdefault(len(enc_bits(s)) % 8, s)
        fams = [bases]
        if big:
            b2 = {}
            while len(b2) < 8:
                s = [rng.randrange(256) for _ in range(rng.randrange(1, 4))]
                b2.setdefault(len(enc_bits(s)) % 8, s)
            fams.append(b2)
        for fi, fam in enumerate(fams):
            for r, s in sorted(fam.items()):
                bits = enc_bits(s)
                for k in range(0, 16):
                    if (len(bits) + k) % 8:
                        continue
                    for pat in range(2**k):
                        L.append("huff dec " + hx(pack(bits + (format(pat, "0%db" % k) if k else ""))))
        # mutations of valid encodings
        for _ in range(30000 if big else 4000):
            n = rng.choice([1, 2, 3, 5, 9, 30])
            s = [rng.randrange(256) if rng.random() < 0.5 else rng.choice(b"abcdefghij0123./-") for _ in range(n)]
            bits = enc_bits(s)
            m = rng.randrange(8)
            if m == 0:      # untouched
                bs = padded(bits)
            elif m == 1:    # one bit flipped
                bs = padded(bits)
                i = rng.randrange(len(bs) * 8)
                bs[i // 8] ^= 0x80 >> (i % 8)
            elif m == 2:    # truncated
                bs = padded(bits)
                bs = bs[:rng.randrange(len(bs) + 1)]
            elif m == 3:    # extra bytes
                bs = padded(bits) + [rng.choice([0xff, 0xff, 0x00, 0xfe, 0x7f, rng.randrange(256)]) for _ in range(rng.randrange(1, 5))]
            elif m == 4:    # EOS somewhere
                cut = rng.randrange(len(s) + 1)
                bs = padded(enc_bits(s[:cut]) + eos + enc_bits(s[cut:]))
            elif m == 5:    # EOS at the end, then every short tail
                bs = padded(bits + eos + format(rng.getrandbits(4), "04b")[:rng.randrange(5)])
            elif m == 6:    # padded with zeros
                bs = pack(bits + "0" * (-len(bits) % 8))
            else:           # a prefix of a long code as padding
                c = codes[rng.choice([0, 1, 9, 10, 13, 22, 92, 195, 208, 249, 255, 256])]
                t = bits + c[:rng.randrange(1, len(c))]
                bs = pack(t[:len(t) - len(t) % 8]) if rng.random() < 0.5 else padded(t)
            L.append("huff dec " + hx(bs))
        for n in range(0, 12):
            L.append("huff dec " + hx([0xff] * n))
            L.append("huff dec " + hx([0xff] * n + [0xfe]))
            L.append("huff dec " + hx([0xff] * n + [0x7f]))
        return codes

    def _pstr(self, tier, rng, L, codes):
        big = tier == "thorough"

        def enc_bits(s):
            return "".join(codes[c] for c in s)

        def pint(n, flags, v):
            lim = 2**n - 1
            if v < lim:
                return [(flags << n) | v]
            out = [(flags << n) | lim]
            v -= lim
            while v >= 128:
                out.append(v % 128 + 128)
                v //= 128
            out.append(v)
            return out
        sizes = [4, 6, 8] * 4 + [2, 3, 5, 7, 9]
        for _ in range(40000 if big else 6000):
            n = rng.choice(sizes)
            f = rng.randrange(2**(8 - n)) if n < 8 else 0
            ln = rng.choice([0, 1, 2, 3, 2**(n - 1) - 2, 2**(n - 1) - 1, 2**(n - 1), 2**(n - 1) + 1, 20, 130, 200, 300])
            ln = max(ln, 0)
            s = [rng.randrange(256) if rng.random() < 0.3 else rng.choice(b"abcdefghij0123./-:") for _ in range(ln)]
            L.append("pstr enc %d %d %s" % (n, f, hx(s)))
            h = rng.randrange(2) if n < 9 else 0     # size 9 leaves no room for the H bit
            if h:
                bits = enc_bits(s)
                m = rng.randrange(5)
                if m == 0:
                    bits += "1" * (-len(bits) % 8)
                elif m == 1:
                    bits += format(rng.getrandbits(8), "08b")[:(-len(bits) % 8)]
                elif m == 2:
                    bits += "1" * (-len(bits) % 8) + "11111111"
                elif m == 3:
                    bits += codes[256] + "1" * (-(len(bits) + 30) % 8)
                else:
                    bits += "1" * (-len(bits) % 8)
                    bits = bits[:len(bits) - 8 * rng.randrange(0, 2)] if len(bits) >= 8 else bits
                payload = pack(bits)
            else:
                payload = s
            dl = rng.choice([0, 0, 0, 0, 1, -1, 5, 2**62, 2**63, 2**64 - 2**(n - 1)])
            wire = pint(n - 1, (f << 1) | h, max(0, len(payload) + dl)) + payload
            rest = [rng.randrange(256) for _ in range(rng.randrange(0, 4))]
            L.append("pstr dec %d %s" % (n, hx(wire + rest)))
            if rng.random() < 0.15:
                for t in range(len(wire)):
                    if t < 12 or t > len(wire) - 4:
                        L.append("pstr dec %d %s" % (n, hx(wire[:t])))
        for n in range(2, 10):
            for a in range(256):
                L.append("pstr dec %d %02x" % (n, a))
                L.append("pstr dec %d %02x%s" % (n, a, hx([rng.randrange(256) for _ in range(rng.randrange(1, 9))])))
            # overlong / overflowing length integers
            lim = 2**(n - 1) - 1
            for k in (8, 9, 10, 11):
                L.append("pstr dec %d %s" % (n, hx([0xff] + [0x80] * k + [0x00] + [0x61])))
                L.append("pstr dec %d %s" % (n, hx([lim] + [0xff] * k + [0x7f])))
        for n in (0, 1, 10, 11, 255):
            L.append("pstr dec %d 00" % n)
            L.append("pstr dec %d 8161" % n)
            L.append("pstr dec %d -" % n)
            L.append("pstr enc %d 0 61" % n)
        for n in range(2, 10):
            L.append("pstr enc %d 255 6161" % n)

    def _chunked(self, tier, rng, L, codes):
        """`pint decm` / `pstr decm`: the real decoders over a NON-CONTIGUOUS `Buf` (`chunk()` = the first piece
        only).  Literals valid and invalid, raw and Huffman, with and without bytes behind them: every 2-way split,
        every 3-way split of the short ones and sampled 3-way splits of the others, every byte a chunk of its own."""
        big = tier == "thorough"

        def enc_bits(s):
            return "".join(codes[c] for c in s)

        def pint(n, flags, v):
            lim = 2**n - 1
            if v < lim:
                return [(flags << n) | v]
            out = [(flags << n) | lim]
            v -= lim
            while v >= 128:
                out.append(v % 128 + 128)
                v //= 128
            out.append(v)
            return out

        def splits(op, n, wire, all3, k3):
            m = len(wire)
            for c in range(1, m):
                L.append("%s decm %d %s,%s" % (op, n, hx(wire[:c]), hx(wire[c:])))
            if m >= 3:
                pairs = [(a, b) for a in range(1, m - 1) for b in range(a + 1, m)]
                if not all3 and len(pairs) > k3:
                    # 1-byte middle chunks and random ones
                    near = [(a, a + 1) for a in range(1, m - 1)]
                    pairs = rng.sample(near, min(len(near), k3 // 2)) + rng.sample(pairs, k3 - k3 // 2)
                for a, b in pairs:
                    L.append("%s decm %d %s,%s,%s" % (op, n, hx(wire[:a]), hx(wire[a:b]), hx(wire[b:])))
                L.append("%s decm %d %s" % (op, n, ",".join("%02x" % x for x in wire)))
            if m >= 1:
                L.append("%s decm %d %s" % (op, n, hx(wire)))      # one chunk: the contiguous answer, same engine

        # ---- string literals
        texts = [[], [0x61], list(b"ab"), list(b"x-a"), list(b"name"), list(b"www.example.com"), [0, 255, 97],
                 [rng.randrange(256) for _ in range(7)], list(b"0123456789"), [0xff] * 3]
        sizes = [4, 6, 8] * 2 + [2, 3, 5, 7, 9]
        wires = []          # (n, wire, short?)
        for n in sizes:
            f = rng.randrange(2**(8 - n)) if n < 8 else 0
            for s in texts:
                wires.append((n, pint(n - 1, f << 1, len(s)) + s))                                       # raw
                wires.append((n, pint(n - 1, f << 1, len(s) + 1 + rng.randrange(3)) + s))                # raw, truncated
                if n < 9:
                    bits = enc_bits(s)
                    good = pack(bits + "1" * (-len(bits) % 8))
                    wires.append((n, pint(n - 1, (f << 1) | 1, len(good)) + good))
                    wires.append((n, pint(n - 1, (f << 1) | 1, len(good) + 1) + good))                    # truncated
                    bad = pack(bits + "0" * (-len(bits) % 8)) if len(bits) % 8 else good + [0xff, 0xff, 0xff, 0xff]
                    wires.append((n, pint(n - 1, (f << 1) | 1, len(bad)) + bad))                          # bad padding / EOS
                    if good:
                        wires.append((n, pint(n - 1, (f << 1) | 1, len(good) - 1) + good))               # cut inside a code
        for n in (4, 6, 8):
            # lengths that need continuation bytes in the length integer, a long payload crossing many cuts
            for ln in (2**(n - 1) - 1, 2**(n - 1), 130, 300 if big else 140):
                s = [rng.choice(b"abcdefghij0123./-:") if rng.random() < 0.7 else rng.randrange(256) for _ in range(ln)]
                bits = enc_bits(s)
                good = pack(bits + "1" * (-len(bits) % 8))
                wires.append((n, pint(n - 1, 0, len(s)) + s))
                wires.append((n, pint(n - 1, 1, len(good)) + good))
            # over-long / overflowing / huge length integers (the payload is then missing)
            wires.append((n, [0xff] + [0x80] * 9 + [0x00, 0x61]))
            wires.append((n, [0xff] + [0xff] * 9 + [0x7f]))
            wires.append((n, pint(n - 1, 1, 2**29 - 2)))
            wires.append((n, pint(n - 1, 1, 2**29 - 3) + [0x61]))
            wires.append((n, pint(n - 1, 0, 2**29 - 2) + [0x61]))
        seen = set()
        for n, w in wires:
            for rest in ([], [rng.randrange(256) for _ in range(rng.randrange(1, 4))]):
                wire = w + rest
                key = (n, tuple(wire))
                if key in seen or not wire:
                    continue
                seen.add(key)
                short = len(wire) <= (12 if big else 9)
                if len(wire) > 40 and not big and rng.random() < 0.5:
                    # long literals: a sample of the cuts only (quick tier)
                    m = len(wire)
                    for c in rng.sample(range(1, m), 25):
                        L.append("pstr decm %d %s,%s" % (n, hx(wire[:c]), hx(wire[c:])))
                    L.append("pstr decm %d %s" % (n, ",".join("%02x" % x for x in wire)))
                    continue
                splits("pstr", n, wire, short, 40 if big else 12)
        # random literals, random cuts
        for _ in range(6000 if big else 800):
            n = rng.choice(sizes)
            ln = rng.choice([1, 2, 3, 5, 8, 13, 21, 40])
            s = [rng.randrange(256) if rng.random() < 0.3 else rng.choice(b"abcdefghij0123./-:") for _ in range(ln)]
            h = rng.randrange(2) if n < 9 else 0
            if h:
                bits = enc_bits(s)
                pad = rng.choice(["1", "1", "1", "0"])
                payload = pack(bits + pad * (-len(bits) % 8))
            else:
                payload = s
            dl = rng.choice([0, 0, 0, 0, 0, 1, -1])
            wire = pint(n - 1, ((rng.randrange(2**(8 - n)) if n < 8 else 0) << 1) | h, max(0, len(payload) + dl)) + payload
            wire += [rng.randrange(256) for _ in range(rng.randrange(0, 3))]
            k = rng.randrange(1, min(5, len(wire)))
            cuts = sorted(rng.sample(range(1, len(wire)), k))
            pieces = [wire[a:b] for a, b in zip([0] + cuts, cuts + [len(wire)])]
            L.append("pstr decm %d %s" % (n, ",".join(hx(p) for p in pieces)))
        # ---- integers
        for n in range(1, 9):
            lim = 2**n - 1
            fmax = 2**(8 - n) - 1
            vals = [0, lim - 1, lim, lim + 1, lim + 127, lim + 128, lim + 2**14, lim + 2**35 + 5, 2**62 - 1, 2**62,
                    lim + 2**63 - 1, lim + 2**63, U64]
            for v in vals:
                if v < 0 or v > U64:
                    continue
                w = pint(n, rng.choice([0, fmax]), v)
                for wire in (w, w + [0x99], w[:-1]):
                    if wire:
                        splits("pint", n, wire, len(wire) <= 7, 12)
            for wire in ([lim] + [0xff] * 10 + [0x01], [0xff] + [0x80] * 9 + [0x00, 0x07], [0xff] + [0x80] * 8):
                splits("pint", n, wire, False, 12)
        # not chunk lists
        for bad in ("61,,62", ",61", "61,", "6", "-"):
            L.append("pstr decm 8 " + bad)
            L.append("pint decm 5 " + bad)
        L.append("pstr decm 0 8161,62")
        L.append("pint decm 9 ff,01")
        L.append("pint decm 0 ff,01")

    def cases(self, tier, rng):
        L = []
        self._pint(tier, rng, L)
        codes = self._huff(tier, rng, L)
        self._pstr(tier, rng, L, codes)
        self._chunked(tier, rng, L, codes)
        # the Huffman decoder's u32 bit positions (D-06u, repaired): short `decn` literals run through the model,
        # the witness of the defect is in corpus/C15 (512 MiB, answered `err BufSize` at once)
        for unit, cnt in (("00", 0), ("00", 1), ("00", 5), ("ff", 3), ("1c", 64), ("a8eb10649cbf", 100), ("00", 65536)):
            L.append("huff decn %s %d" % (unit, cnt))
        # the Huffman ENCODER's u32 positions (D-15e): `encn` = count copies of a unit through the real encoder; the driver
        # answers by arithmetic (period of the coded bytes; the model's own reservation arithmetic at the puts where the
        # capacity is used up).  Small counts at every phase of the period, random units; the boundary: the largest count
        # under the theorem's bound 7L < 2^32 (0a = 30 bits: 163617801), the counts on both sides of the first
        # reservation with 7*byte >= 2^32 under the standard library's growth (231939058 ok on both shapes / 231939059:
        # the old shape panics - corpus/C15/d15e_huge_huffman_coding.txt runs the second on every check); thorough: the
        # audit's witness 450000000 and both sides of the repaired shape's refusal (a coding of 2^32 - 4 bytes / 4 more)
        for unit in ("0a", "00", "61", "ff", "a8eb", "0a6100", "7fc3"):
            for cnt in list(range(0, 18)) + [100, 1000, 4096, 65537]:
                L.append("huff encn %s %d" % (unit, cnt))
        for _ in range(300 if tier == "thorough" else 60):
            unit = hx([rng.randrange(256) for _ in range(rng.randrange(1, 5))])
            L.append("huff encn %s %d" % (unit, rng.randrange(0, 20000)))
        L.append("huff encn 61 30000000")
        if tier == "thorough":
            L += ["huff encn 0a 163617801", "huff encn 0a 231939058", "huff encn 0a 450000000",
                  "huff encn 0a 1145324611", "huff encn 0a 1145324612"]
        return L

    # ------------------------------------------------------------------ statistics

    def klass(self, line, impl):
        w = line.split()
        r = impl.split(" ")
        eng, op = w[0], w[1]
        if op == "range":
            return "huff/range"
        if op == "decn":
            return "huff/decn/" + "-".join(r[:2] if r[0] == "err" else [r[0]])
        if op == "encn":
            size = "small" if len(w) > 3 and w[3].isdigit() and int(w[3]) < 10**6 else "huge"
            return "huff/encn/%s/" % size + "-".join(r[:2] if r[0] == "err" else [r[0]])
        if op == "decm":
            kind = r[0]
            if kind == "err":
                kind = "err-" + "-".join(r[1:3] if eng == "pstr" and len(r) > 2 and r[1] in ("Huffman", "Integer") else r[1:2])
            pieces = w[3].split(",")
            hflag = ""
            if eng == "pstr" and re.fullmatch(r"[0-9a-f,]+", w[3]) and w[2].isdigit() and 2 <= int(w[2]) <= 8:
                first = int(w[3].replace(",", "")[:2], 16)
                hflag = "/H%d" % ((first >> (int(w[2]) - 1)) & 1)
            return "%s/decm/n%s%s/%s/%s" % (eng, w[2], hflag, "1" if len(pieces) == 1 else "2" if len(pieces) == 2
                                           else "3" if len(pieces) == 3 else "4+", kind)
        kind = r[0]
        if kind == "err":
            kind = "err-" + "-".join(r[1:3] if eng == "pstr" and len(r) > 2 and r[1] in ("Huffman", "Integer") else r[1:2])
        if op == "enc" and "rt" in r:
            j = r.index("rt")
            kind += "/rt-" + "-".join(r[j + 1:j + 3] if r[j + 1] == "err" else r[j + 1:j + 2])
        key = "%s/%s" % (eng, op)
        if eng in ("pint", "pstr"):
            key += "/n%s" % w[2]
        elif op == "dec":
            n = 0 if w[2] == "-" else len(w[2]) // 2
            key += "/len%s" % (n if n < 4 else "4+")
        return key + "/" + kind

    def trivial(self, line, impl):
        return impl.startswith("bad-op") or impl.startswith("harness-error")

    def shrink_candidates(self, line):
        w = line.split()
        out = []
        if w[1] == "range":
            lo, hi = int(w[2]), int(w[3])
            if hi - lo > 1:
                mid = (lo + hi) // 2
                out += ["huff range %d %d" % (lo, mid), "huff range %d %d" % (mid, hi)]
            return out
        if w[1] in ("decn", "encn"):
            c = int(w[3])
            return [" ".join(w[:3] + [str(x)]) for x in (c // 2, c - 1) if 0 <= x < c]
        if w[1] == "decm":
            # fewer bytes at either end, fewer cuts (a candidate that no longer fails is simply not taken)
            ps = w[3].split(",")
            if len(ps[-1]) > 2:
                out.append(" ".join(w[:3] + [",".join(ps[:-1] + [ps[-1][:-2]])]))
            elif len(ps) > 1:
                out.append(" ".join(w[:3] + [",".join(ps[:-1])]))
            for i in range(len(ps) - 1):
                out.append(" ".join(w[:3] + [",".join(ps[:i] + [ps[i] + ps[i + 1]] + ps[i + 2:])]))
            return out
        if w[0] == "pint" and w[1] == "enc":
            v = int(w[4])
            for c in (v // 2, v - 1):
                if 0 <= c < v:
                    out.append(" ".join(w[:4] + [str(c)]))
            return out
        h = w[-1]            # every other case line ends with a hex string
        if h != "-":
            if len(h) > 2:
                out.append(" ".join(w[:-1] + [h[:-2]]))
                out.append(" ".join(w[:-1] + [h[2:]]))
            else:
                out.append(" ".join(w[:-1] + ["-"]))
        return out


PROP = C15()
