import itertools
import re

from vlib import Prop

HOK = "010d0000d1d750831af1ff518263cf"           # HEADERS of `GET https://a.b/x` as h3's client writes it
REQ = "snd.R:GET:68747470733a2f2f612e622f78:-"   # the same request through the client API


def varint(v):
    form = 0 if v < 64 else 1 if v < 2**14 else 2 if v < 2**30 else 3
    n = 1 << form
    return (v | (form << (8 * n - 2))).to_bytes(n, "big").hex()


def goaway_frame(v):
    p = varint(v)
    return "07%02x%s" % (len(p) // 2, p)


def read_varint(b, i):
    n = 1 << (b[i] >> 6)
    if i + n > len(b):
        return None, len(b)
    return int.from_bytes(b[i:i + n], "big") & ((1 << (8 * n - 2)) - 1), i + n


class CtlParser:
    """Incremental parser of h3's control stream log: stream type, then frames; yields GOAWAY ids."""

    def __init__(self):
        self.buf = b""
        self.typed = False

    def feed(self, data):
        self.buf += data
        out = []
        while True:
            b = self.buf
            if not b:
                break
            if not self.typed:
                ty, i = read_varint(b, 0)
                if ty is None:
                    break
                self.typed = True
                self.buf = b[i:]
                continue
            ft, i = read_varint(b, 0)
            if ft is None or i >= len(b):
                break
            ln, i = read_varint(b, i)
            if ln is None or i + ln > len(b):
                break
            if ft == 7:
                v, j = read_varint(b, i)
                out.append("G=%d" % v if (v is not None and j == i + ln) else "G=malformed")
            self.buf = b[i + ln:]
        return out


def observe_server(impl, line=""):
    """Ordered observation tokens of a server run made with cfg `ev=1`: what accept / shutdown answered, the GOAWAY
    identifiers written, refusals (stop_sending + reset of a request stream), and whether a request shown to the
    application was then served (`Q=<i>:ok` = resolve_request returned it; `Q=<i>:<error>`; `Q=<i>:pending` if the
    call never returned although the peer's request was complete).  For the queue rules of the judge (D-08b): with
    cfg `ops=1` `O=<i>` = the peer has opened request stream <i> (first `@o<i>` of the trace); `D=<i>` = the
    application has dropped its handle of request <i> (`q<i>.dr=ok`); `S=<n>` in front of the answer of the k-th
    `shutdown` = the count of the k-th `conn.S:<n>` op of the line (the task takes its commands in order)."""
    trace, summ = impl.split(" | ", 1)
    out = []
    ctl = CtlParser()
    stop = None
    counts = [x.split(":", 1)[1] for x in line.split()[3:] if x.startswith("conn.S:")]
    opened = set()
    for t in trace.split():
        m = re.match(r"^(w|stop|rst)(\d+):([0-9a-f]+)$", t)
        if stop is not None and not (m and m.group(1) == "rst" and int(m.group(2)) == stop[0]):
            out.append("stop%d:%s" % stop)
            stop = None
        if m:
            kind, sid, arg = m.group(1), int(m.group(2)), m.group(3)
            if kind == "w":
                if sid == 3:
                    out += ctl.feed(bytes.fromhex(arg))
            elif sid % 4 == 0:
                if kind == "stop":
                    stop = (sid, arg)
                elif stop is not None:
                    out.append("R=%d:%s:%s" % (sid, arg, stop[1]))
                    stop = None
                else:
                    out.append("rst%d:%s" % (sid, arg))
        elif t.startswith("conn.S="):
            if counts:
                out.append("S=%s" % counts.pop(0))
            out.append(t)
        elif t.startswith("conn.A="):
            out.append(t)
        elif re.match(r"^@o\d+$", t):
            sid = int(t[2:])
            if sid % 4 == 0 and sid not in opened:
                opened.add(sid)
                out.append("O=%d" % sid)
        elif re.match(r"^q\d+\.dr=ok$", t):
            out.append("D=%s" % t[1:t.index(".")])
        else:
            q = re.match(r"^q(\d+)\.res=(.*)$", t)
            # `no-task` is the interpreter's answer to an op without addressee (the request was never shown to the
            # application, or its task is gone): nothing reached h3
            if q and q.group(2) != "no-task":
                out.append("Q=%s:%s" % (q.group(1), "ok" if q.group(2).startswith("ok:") else q.group(2)))
    if stop is not None:
        out.append("stop%d:%s" % stop)
    pend = "0"
    for t in summ.split():
        if t.startswith("pending=["):
            waiting = t[len("pending=["):-1].split(",")
            pend = "1" if "conn.A" in waiting else "0"
            for x in waiting:
                q = re.match(r"^q(\d+)\.res$", x)
                if q:
                    out.append("Q=%s:pending" % q.group(1))
    return out, pend


def observe_client(line, impl):
    """The client's calls in order; with cfg `ev=1` every `snd.R` result carries the client-initiated bidirectional
    streams h3 wrote on since the previous result (`/w=<ids>`: a request refused with RemoteClosing must have `/w=-`),
    other transport events on those streams are tokens of their own, `w=` are the writes after the last call; from the
    transport's final state `streams=<written>/<opened without a byte>`."""
    trace, summ = impl.split(" | ", 1)
    w = line.split()
    ev1 = len(w) > 2 and "ev=1" in w[2].split(",")
    toks, wrote = [], []

    def wlist():
        r = (",".join(wrote) if wrote else "-") if ev1 else "?"
        del wrote[:]
        return r

    for t in trace.split():
        m = re.match(r"^(w|fin|rst|stop)(\d+)(?::([0-9a-f]+))?$", t)
        if m and int(m.group(2)) % 4 == 0:
            if m.group(1) == "w":
                if m.group(2) not in wrote:
                    wrote.append(m.group(2))
            else:
                toks.append(t)
        elif t.startswith("snd.R="):
            toks.append("%s/w=%s" % (t, wlist()))
        elif t.startswith("drv.W="):
            toks.append(t)
    toks.append("w=%s" % wlist())
    pend = "0"
    written, empty = [], []
    for t in summ.split():
        if t.startswith("pending=["):
            pend = "1" if "drv.W" in t[len("pending=["):-1].split(",") else "0"
        m = re.match(r"^(\d+):tx=([0-9a-f]+|-)", t)
        if m and int(m.group(1)) % 4 == 0:
            (empty if m.group(2) == "-" else written).append(m.group(1))
    toks.append("streams=%s/%s" % (",".join(written) or "-", ",".join(empty) or "-"))
    return "%s pend=%s" % (" ".join(toks), pend)


def judge(histories):
    """RFC 9114 §5.2 oracle (Lean, `H3.Spec.Goaway` via engine `goawayj`) on observed histories."""
    import vlib
    if not histories:
        return []
    rc, out, err = vlib.run_lines(vlib.DRV, ["goawayj " + " ".join(h) for h in histories])
    if rc != 0 or len(out) != len(histories):
        raise RuntimeError("h3drv goawayj failed rc=%s %s" % (rc, err[-300:]))
    return out


BIG_COUNTS = [2**60 - 2, 2**60 - 1, 2**60, 2**60 + 1, 2**61, 2**62 - 1, 2**62, 2**63 - 1, 2**63, 2**64 - 1]


class C08(Prop):
    id = "C08"
    thorough_rounds = 10   # thorough tier: this many independently seeded rounds of the random generators (duplicates dropped)
    modules = ["H3.Props.C08", "H3.Lemmas.GenAgreeGoaway"]
    engines = ["goaway"]
    design_ref = "DESIGN.md section 7, C08; section 8, D-08; section 9, R-08"
    level_text = ("Lean theorems over a model of server shutdown()/accept() (GOAWAY id computation incl. StreamId saturation, "
                  "sent_closing, largest accepted id, the accept/reject filter, the final shutdown(0) of accept) and of the client's "
                  "poll_close GOAWAY rules + send_request gate: for every history of arrivals (any order), shutdown(n) (any n, any "
                  "moment, repeated), completions, peer GOAWAYs and accept polls, the observation trace satisfies the RFC 9114 §5.2 "
                  "oracle (ids valid client-bidi and never increasing; an arrival is surfaced iff below the last id sent; no id "
                  "surfaced earlier is at or above an id sent later — the last clause below the saturation point 2^60-1); client: "
                  "H3_ID_ERROR exactly for a non-request id or an id larger than before, and once a GOAWAY was processed send_request "
                  "returns RemoteClosing without writing a request, for ever — at both gates: a call made then, and a call that was "
                  "waiting for stream credit and gets its stream then (send_request is two events, call / stream opened; D-08c); a "
                  "request in progress is served (resolve_request returns it) in every state of the shutdown; accept answers None "
                  "exactly when no request shown earlier is still in progress, every stream waiting in the transport is one the "
                  "filter refuses and a stream was refused in this poll or the peer's GOAWAY was processed — and then every waiting "
                  "stream has had its outcome and the queue is empty (D-08b); a shutdown(n) that answers Ok leaves a GOAWAY in force "
                  "with an identifier not above the one it computed; over whole histories with distinct arrivals the judged history "
                  "(observations + arrived / completed / shutdownCalled) satisfies the oracle's queue rules: one outcome per stream, "
                  "None only when every opened stream has its outcome and every request shown is done, shutdown = Ok within its bound")
    level_note = ("trusted: Lean kernel + 3 standard axioms; hand model tied to the code by running real h3::server / h3::client "
                  "objects over SimQuic on the same scenario lines (Drv/C08.lean plays the harness tasks); the accept/reject line is "
                  "judged where accept() takes the stream from the transport (R-08); shutdown futures are awaited to completion and "
                  "the control stream has write credit (R-14)")
    rule = ("cases: server histories with K<=5 (quick) / K<=6 requests, arrivals in order, reversed and swapped, accept driven by "
            "explicit conn.A calls or the accept loop conn.AL, conn.S:n with n in 0..3 inserted at every position and repeated, "
            "completions (HEADERS, resolve, drop), a peer GOAWAY at a random position, plus seeded random histories; observed per "
            "line, in order: accept / shutdown answers (with the count n of the call: S=<n>), GOAWAY ids written, refusals (stop_sending + "
            "reset codes), the streams the peer opened (O=<i>, cfg ops=1) and the requests the application dropped (D=<i>) — the judge's "
            "queue rules (H3.Spec.Goaway.okQueue): one outcome per stream, None only when every opened stream has had its outcome and "
            "every request shown is done, shutdown = Ok only with a GOAWAY in force within the bound of its count; every order of 3 / 4 "
            "arrivals around conn.S:n (n <= 3) at every position; and for every "
            "resolve_request of a request shown to the application whether it returned the request (Q=<i>:ok; an error or a "
            "call that never returns is `not served`) — resolve after local shutdown / peer GOAWAY / refusals / None / H3_ID_ERROR; "
            "the judge (engine goawayj = H3.Spec.Goaway.okObs) refuses unknown tokens (BAD:unknown-token); client (cfg ev=1): all "
            "received-id sequences of length<=4 over {0,3,4,8,64} plus sequences with ids 1,2,5,12,16383,16384, driver started "
            "early/late, send_request before/between/after; every send_request result carries the request streams written while "
            "it ran (a refused request must have written nothing: snd.R=err:rclosing/w=-), plus the streams written at the end "
            "(streams=<written>/<opened empty>); client lines with stream credit (cfg bc=<n>, grants gb<n>): calls waiting in poll_open_bidi "
            "across GOAWAYs, grants before / after the GOAWAY, several calls queued; non-trivial = the implementation wrote a GOAWAY, refused a stream, "
            "returned None/err from accept, or the client driver/send_request reacted to a GOAWAY")
    trusted = ["SimQuic hands streams to accept in the order of the scenario's `o<sid>` ops (QUIC may reorder arrivals; the order is a quantified input)"]
    assumptions = ["peer-opened bidirectional streams have client-initiated bidirectional IDs below 2^62 (transport contract)",
                   "usize is 64 bits", "shutdown(n)/accept() futures are not cancelled in the middle of the GOAWAY write (R-14)",
                   "history indices stay below 2^60-1 for the `no surfaced id >= a later GOAWAY id` clause (explicit hypothesis; C16 saturation covers validity beyond)"]

    def project_all(self, lines, impls):
        res = list(impls)
        idx, hist, pends = [], [], []
        for k, (l, o) in enumerate(zip(lines, impls)):
            if " | " not in o:
                continue
            w = l.split()
            if len(w) > 1 and w[1] == "server":
                toks, pend = observe_server(o, l)
                idx.append(k)
                hist.append(toks)
                pends.append(pend)
            else:
                res[k] = observe_client(l, o)
        for k, toks, pend, v in zip(idx, hist, pends, judge(hist)):
            res[k] = "%s %s pend=%s" % (v, " ".join(toks) if toks else "-", pend)
        return res

    def project(self, line, impl):
        return self.project_all([line], [impl])[0]

    # ------------------------------------------------------------------ generators
    def server_line(self, ops, pre=True, seed=0):
        # ops=1: the peer's `o<sid>` ops are in the trace, so that the history carries `O=<sid>` (queue rules of the judge)
        cfg = "g0,ev=1,ops=1" if seed == 0 else "g0,ev=1,ops=1,seed=%d" % seed
        return " ".join(["goaway", "server", cfg] + (["o2", "s2:000400"] if pre else []) + ops)

    def cases(self, tier, rng):
        big = tier == "thorough"
        L, seen = [], set()

        def add(l):
            if l not in seen:
                seen.add(l)
                L.append(l)

        def done(i):
            return ["s%d:%s" % (i, HOK), "q%d.res" % i, "q%d.dr" % i]

        # D-08b witnesses first: an acceptable stream queued behind a refused one (shutdown(1) promised request 0)
        hdr = lambda i: "s%d:%s" % (i, HOK)
        add(self.server_line(["conn.S:1", "o4", "o0", hdr(4), hdr(0), "conn.A"], pre=False))
        add(self.server_line(["conn.S:1", "o4", "o0", "conn.A", "conn.A", hdr(0), "q0.res", "q0.dr", "conn.A"], pre=False))
        add(self.server_line(["conn.AL", "conn.S:2", "o8", "o12", "o4", "o0"] + done(0) + done(4), pre=False))
        add(self.server_line(["o0", "conn.A"] + done(0) + ["conn.S:1", "o12", "o8", "o4", "conn.A", "conn.A"] + done(4) + ["conn.A"], pre=False))
        # out-of-order arrivals around every shutdown(n): every order of 3 / 4 streams, the call in front of each arrival
        # and behind the last, accept called late / in a loop / after every arrival; then everything shown is completed
        for n in range(4):
            for ids in list(itertools.permutations([0, 4, 8])) + list(itertools.permutations([0, 4, 8, 12])):
                if len(ids) == 4 and not big and rng.random() < 0.5:
                    continue
                for pos in range(len(ids) + 1):
                    for style in ("late", "loop", "each"):
                        ops = ["conn.AL"] if style == "loop" else []
                        for j, i in enumerate(ids):
                            if j == pos:
                                ops.append("conn.S:%d" % n)
                            ops.append("o%d" % i)
                            if style == "each":
                                ops.append("conn.A")
                        if pos == len(ids):
                            ops.append("conn.S:%d" % n)
                        if style == "late":
                            ops += ["conn.A"] * (len(ids) + 1)
                        for i in ids:
                            ops += done(i)
                        if style != "loop":
                            ops += ["conn.A", "conn.A"]
                        add(self.server_line(ops, pre=False, seed=rng.choice([0, 0, 0, 1, 7])))
        # D-08 witnesses
        add(self.server_line(["o0", "conn.A", "conn.S:0"]))
        for n in BIG_COUNTS:
            add(self.server_line(["o0", "conn.A"] + ["conn.S:%d" % n, "o4", "conn.A", "conn.S:1", "o8", "conn.A", "conn.S:0"]))
            add(self.server_line(["conn.S:%d" % n, "o0", "conn.A", "conn.S:%d" % n]))
        add(self.server_line(["o8", "o4", "conn.A", "conn.A", "conn.S:0"]))
        add(self.server_line(["conn.S:2", "o0", "conn.A", "o4", "conn.A", "o8", "conn.A", "o12", "conn.A"]))
        add(self.server_line(["conn.AL", "o0", "o4", "conn.S:1", "o8", "o12", "o16"]))
        add(self.server_line(["s2:070100", "conn.A", "o0", "conn.A"]))
        # the three graceful-shutdown tests of h3/src/tests/connection.rs as scenarios
        add(self.server_line(["o0", "o4", "conn.A"] + done(0) + ["conn.S:0", "conn.A"]))
        add(self.server_line(["o0", "conn.A", "conn.S:1", "o4", "conn.A"] + done(0) + done(4) + ["o8", "conn.A"]))
        add(self.server_line(["conn.AL", "o0"] + done(0) + ["o4"] + done(4) + ["o8"] + done(8) + ["o12", "conn.S:2"] + done(12)
                             + ["o16"] + done(16) + ["o20"] + done(20) + ["o24"]))

        # "every request below it is still served": resolve_request AFTER the shutdown began — local shutdown(0) / (1),
        # the peer's GOAWAY, both, after a refusal, after accept answered None, on a failed connection (H3_ID_ERROR)
        add(self.server_line(["o0", "conn.A", "conn.S:0", hdr(0), "q0.res", "q0.dr", "conn.A"]))
        add(self.server_line(["o0", "conn.A", "s2:070100", "conn.A", hdr(0), "q0.res", "q0.dr"]))
        add(self.server_line(["o0", "conn.A", "conn.S:1", "o4", "conn.A", "o8", "conn.A", hdr(4), "q4.res", hdr(0), "q0.res",
                              "q4.dr", "q0.dr", "conn.A"]))
        add(self.server_line(["conn.AL", "o0", "conn.S:0", "o4", hdr(0), "q0.res", "s2:070100", "q0.dr"]))
        add(self.server_line(["o0", "o4", "conn.A", "conn.A", hdr(4), "q4.res", "q4.dr", "conn.S:0", "o8", "conn.A", hdr(0), "q0.res",
                              "q0.dr", "conn.A"]))
        add(self.server_line(["o0", "conn.A", "s2:070104", "conn.A", "s2:070108", "conn.A", "conn.S:0", hdr(0), "q0.res", "q0.dr"]))
        add(self.server_line(["conn.S:2", "o4", "o0", "conn.A", "conn.A", "conn.S:0", hdr(0), "q0.res", hdr(4), "q4.res"]))
        # request 0 is never dropped (accept keeps waiting after refusing request 4); it is resolved after both GOAWAYs
        add(self.server_line(["o0", "conn.A", "conn.S:0", "o4", "conn.A", "s2:070100", hdr(0), "q0.res"]))
        # request 0 resolved after request 4 was refused; its drop lets the next refusal (request 8) end accept with None
        add(self.server_line(["o0", "o4", "conn.A", "conn.S:0", "conn.AL", hdr(0), "q0.res", "q0.dr", "o8"]))

        # systematic: bases x shutdown(n) at every position
        maxk = 6 if big else 5
        for k in range(0, maxk + 1):
            ids = [4 * i for i in range(k)]
            orders = [ids]
            if k >= 2:
                orders.append(list(reversed(ids)))
                sw = list(ids)
                sw[0], sw[1] = sw[1], sw[0]
                orders.append(sw)
            if k >= 3:
                sw = list(ids)
                sw[-1], sw[-2] = sw[-2], sw[-1]
                orders.append(sw)
            for order in orders:
                for drv in ("AL", "A-each", "A-late"):
                    base = []
                    if drv == "AL":
                        base.append("conn.AL")
                    for j, i in enumerate(order):
                        base.append("o%d" % i)
                        if drv == "A-each":
                            base.append("conn.A")
                        if j % 2 == 1:
                            base += done(order[j - 1])
                    if drv == "A-late":
                        base += ["conn.A"] * (k + 1)
                    for i in order[-1:]:
                        base += done(i)
                    if drv != "AL":
                        base.append("conn.A")
                    for pos in range(len(base) + 1):
                        for n in range(4):
                            ops = base[:pos] + ["conn.S:%d" % n] + base[pos:]
                            add(self.server_line(ops, pre=False))
                            if rng.random() < (0.6 if big else 0.4):
                                p2 = rng.randrange(pos + 1, len(ops) + 1)
                                ops2 = ops[:p2] + ["conn.S:%d" % rng.randrange(4)] + ops[p2:]
                                if rng.random() < 0.3:
                                    p3 = rng.randrange(len(ops2) + 1)
                                    ops2 = ops2[:p3] + ["s2:070100"] + ops2[p3:]
                                    add(self.server_line(ops2, pre=True, seed=rng.choice([0, 0, 1, 7])))
                                else:
                                    add(self.server_line(ops2, pre=False, seed=rng.choice([0, 0, 1, 7])))

        # seeded random histories
        for _ in range(20000 if big else 4000):
            k = rng.randrange(1, 7)
            ids = [4 * i for i in range(k)]
            if rng.random() < 0.5:
                rng.shuffle(ids)
            loop = rng.random() < 0.5
            ops = ["conn.AL"] if loop and rng.random() < 0.7 else []
            opened = []
            todo = list(ids)
            steps = rng.randrange(k + 2, 3 * k + 8)
            for _s in range(steps):
                r = rng.random()
                if todo and r < 0.35:
                    i = todo.pop(0)
                    ops.append("o%d" % i)
                    opened.append(i)
                elif r < 0.55:
                    # mostly 0..3; sometimes a count at which last-accepted + 4n leaves the stream-id range
                    # (saturation at the largest client-initiated bidirectional id, 2^62-4) or the usize range
                    ops.append("conn.S:%d" % (rng.randrange(4) if rng.random() < 0.9 else rng.choice(BIG_COUNTS)))
                elif r < 0.75 and not loop:
                    ops.append("conn.A")
                elif r < 0.75 and loop and "conn.AL" not in ops:
                    ops.append("conn.AL")
                elif r < 0.93 and opened:
                    ops += done(rng.choice(opened))
                elif r < 0.97:
                    # peer GOAWAY (push id); a larger one than before is H3_ID_ERROR on the server too
                    ops.append("s2:" + goaway_frame(rng.choice([0, 0, 0, 4, 8])))
            for i in todo:
                ops.append("o%d" % i)
            if not loop:
                ops += ["conn.A"] * rng.randrange(0, 3)
            add(self.server_line(ops, pre=True, seed=rng.choice([0, 0, 1, 2, 3])))

        # client, D-08c: send_request waits for stream credit (cfg bc=<n>, grant gb<n>) across a GOAWAY.  The witness first,
        # then every short arrangement, then random interleavings
        add(" ".join(["goaway", "client", "g0,ev=1,bc=0", "drv.W", REQ, "o3", "s3:000400", "s3:070100", "gb1", REQ]))
        for bc in (0, 1, 2):
            for calls in (1, 2, 3):
                for g in (0, 4, 8, 64):
                    for order in ("goaway-grant", "grant-goaway", "goaway-only", "two-goaways"):
                        for drvw in ("early", "mid", "late", "never"):
                            for grant in (1, 2):
                                ops = ["drv.W"] if drvw == "early" else []
                                ops += ["o3", "s3:000400"] + [REQ] * calls
                                if drvw == "mid":
                                    ops.append("drv.W")
                                ga = ["s3:" + goaway_frame(g)]
                                if order == "two-goaways":
                                    ga.append("s3:" + goaway_frame(max(g - 4, 0)))
                                gr = ["gb%d" % grant]
                                ops += {"goaway-grant": ga + gr, "grant-goaway": gr + ga, "goaway-only": ga, "two-goaways": ga + gr}[order]
                                if drvw == "late":
                                    ops.append("drv.W")
                                ops += [REQ, "gb1", "gb1"]
                                if big or rng.random() < 0.5:
                                    add(" ".join(["goaway", "client", "g0,ev=1,bc=%d" % bc] + ops))
        for _ in range(8000 if big else 1500):
            ops = ["drv.W"] if rng.random() < 0.6 else []
            ops += ["o3", "s3:000400"]
            if rng.random() < 0.5:
                ops.insert(rng.randrange(len(ops) + 1), REQ)
            last = None
            for _s in range(rng.randrange(3, 10)):
                r = rng.random()
                if r < 0.4:
                    ops.append(REQ)
                elif r < 0.65:
                    ops.append("gb%d" % rng.choice([1, 1, 2]))
                elif r < 0.9:
                    # never larger than the one before: H3_ID_ERROR closes the connection, a call that waits then is
                    # outside this model (the id rules have their own lines below)
                    g = rng.choice([0, 4, 8, 64])
                    last = g if last is None else min(last, g)
                    ops.append("s3:" + goaway_frame(last))
                elif "drv.W" not in ops:
                    ops.append("drv.W")
            ops += [REQ, "gb1"]
            add(" ".join(["goaway", "client", "g0,ev=1,bc=%d%s" % (rng.choice([0, 0, 1, 2]), rng.choice(["", "", ",seed=1", ",seed=5"]))] + ops))

        # client: all received-id sequences
        base_ids = [0, 3, 4, 8, 64]
        extra_ids = [1, 2, 5, 12, 16383, 16384]
        seqs = []
        for n in range(0, 5):
            for t in itertools.product(base_ids, repeat=n):
                seqs.append(list(t))
        for _ in range(6000 if big else 1500):
            n = rng.randrange(1, 5)
            seqs.append([rng.choice(base_ids + extra_ids) for _ in range(n)])
        for seq in seqs:
            variants = ["early", rng.choice(["late", "mid", "early-snd"])] if not big else ["early", "late", "mid", "early-snd"]
            for v in variants:
                ops = []
                if v in ("early", "early-snd"):
                    ops.append("drv.W")
                if v == "early-snd":
                    ops.append(REQ)
                ops += ["o3", "s3:000400"]
                midpos = rng.randrange(0, len(seq) + 1)
                for j, g in enumerate(seq):
                    if v == "mid" and j == midpos:
                        ops.append("drv.W")
                    ops.append("s3:" + goaway_frame(g))
                    if rng.random() < 0.4:
                        ops.append(REQ)
                if v == "mid" and midpos == len(seq):
                    ops.append("drv.W")
                if v == "late":
                    if rng.random() < 0.5:
                        ops.append(REQ)
                    ops.append("drv.W")
                ops.append(REQ)
                if rng.random() < 0.3:
                    ops.append(REQ)
                add(" ".join(["goaway", "client", rng.choice(["g0,ev=1", "g0,ev=1", "g0,ev=1,seed=1", "g0,ev=1,seed=5"])] + ops))
        return L

    def klass(self, line, impl):
        w = line.split()
        role = w[1] if len(w) > 1 else "?"
        t = impl.split()
        if not t or "pend=" not in t[-1]:
            return "%s/%s" % (role, t[0] if t else "empty")
        if role == "server":
            ng = sum(1 for x in t if x.startswith("G="))
            nr = sum(1 for x in t if x.startswith("R="))
            return "server/%s/goaways=%d/rej=%d/none=%d/err=%d" % (t[0].split(":")[0], min(ng, 3), min(nr, 3),
                                                                   int("conn.A=none" in t), int(any(x.startswith("conn.A=err") for x in t)))
        return "client/credit=%d/emptystream=%d/err=%d/rclosing=%d/opened=%d" % (int(",bc=" in line), int(any(x.startswith("streams=") and not x.endswith("/-") for x in t)), int(any(x.startswith("drv.W=err") for x in t)), int(any(x.startswith("snd.R=err:rclosing") for x in t)),
                                                        int(any(x.startswith("snd.R=req") for x in t)))

    def trivial(self, line, impl):
        t = impl.split()
        if not t or "pend=" not in t[-1]:
            return True
        return not any(x.startswith(("G=", "R=", "conn.A=none", "conn.A=err", "drv.W=err", "snd.R=err:rclosing")) for x in t)

    def queue_rules_exercised(self, lines, impls):
        """how many generated lines put the judge's queue rules to work (for the evidence)"""
        return sum(1 for l in lines if ",bc=" in l), sum(1 for l in lines if " server " in l and "ops=1" in l)

    def shrink_candidates(self, line):
        w = line.split()
        out = []
        for i in range(3, len(w)):
            out.append(" ".join(w[:i] + w[i + 1:]))
        # the simplest configuration that still records the transport events (the observations depend on `ev=1`)
        if len(w) > 2 and w[2] != "g0,ev=1":
            out.append(" ".join(w[:2] + ["g0,ev=1"] + w[3:]))
        return out


PROP = C08()
