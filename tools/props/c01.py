import re

import vlib
from vlib import Prop
from props.c16 import hx

METHODS = ["GET", "POST", "PUT", "DELETE", "HEAD", "OPTIONS", "PATCH"]   # + CONNECT with its own target forms, below
URIS = ["https://a.b/", "https://a.b/x?q=1", "http://example.com:8080/p/a/t/h", "https://[::1]:4433/%7Euser/index.html?a=b&c=d",
        "https://host.example/" + "seg/" * 20, "https://a.b/*", "https://xn--nxasmq6b.example/?", "https://user.example:1/a//b",
        # absolute-form targets with an empty path (with and without query): the receiver sees path "/"
        "https://www.example.com?lang=en&page=2", "https://a.b", "http://a.b:8080?x", "https://a.b?", "https://a.b/?b"]
NAMES = ["x-a", "x-b", "accept", "content-type", "cookie", "x-long-header-name-with-many-characters", "te", "user-agent", "etag", "x-0"]
STATUS = [200, 201, 204, 206, 301, 404, 418, 500, 599]
# generated field names: valid tokens, lower case (RFC 9110 5.6.2 tchar without the upper-case letters)
NAME_CHARS = "abcdefghijklmnopqrstuvwxyz0123456789!#$%&'*+-.^_`|~"
# names a generated name must not be: `host` has a meaning of its own (D-12e); connection-specific fields and
# content-length are not "header values" an HTTP/3 message may carry freely (RFC 9114 4.2)
NOT_NAMES = {"host", "connection", "keep-alive", "proxy-connection", "transfer-encoding", "upgrade", "content-length"}
# long values: the Lean driver's cost is quadratic in the length of a value (the model's Huffman / string path over
# `List Nat`: 1 000 bytes 0.1-0.6 s, 4 096 bytes 0.5-9 s, 16 384 printable bytes 6.5 s, 16 384 high bytes > 60 s), so
# the quick tier stops at 4 096 bytes (printable from 2 048 on) and the thorough tier at 8 192 printable bytes;
# 16 384 / 65 535 / 65 536 / 70 000 bytes go through the real code alone, checked in Python (`extra`, impl-only probes)
LONG_VALUES = {"quick": [1000, 1000, 1500, 2048, 4096], "thorough": [1000, 1500, 2048, 4096, 8192]}
VALUE_BYTES = [0x09] + list(range(0x20, 0x7f)) + list(range(0x80, 0x100))
PRINTABLE = list(range(0x20, 0x7f))
# interim responses (RFC 9110 15.2; 101 is not used in HTTP/3)
INTERIM = [100, 102, 103, 199]
# origin-form targets (no scheme, no authority): the authority travels in `Host`
ORIGIN_TARGETS = ["/x?y=1", "/", "/a/b/c", "/?q", "/%7Euser/index.html?a=b&c=d", "/" + "seg/" * 20]
HOSTS = ["a.b", "example.com:8080", "[::1]:4433", "xn--nxasmq6b.example"]
# authority-form targets (plain CONNECT, RFC 9114 4.4: neither :scheme nor :path)
AUTHORITIES = ["a.b:443", "example.com:80", "[::1]:4433", "proxy.example:8080", "xn--nxasmq6b.example:1"]
# extended CONNECT (RFC 8441 / RFC 9220): the :protocol values h3 knows; only with ec=1 on both endpoints
PROTOCOLS = ["webtransport", "connect-udp", "connect-ip", "websocket"]


def hexs(s):
    return s.encode().hex()


class C01(Prop):
    id = "C01"
    thorough_rounds = 4   # thorough tier: this many independently seeded rounds of the random generators (duplicates dropped)
    modules = ["H3.Props.C01", "H3.Lemmas.GenAgreeSend"]
    engines = ["e2e"]
    design_ref = "DESIGN.md section 7, C01"
    level_text = ("Lean composition theorems over the component models (H3.E2E glue: Message, wire, sendAll, recvPattern, "
                  "deliver; Model/Split.lean: split(); H3.Iso: C07's product machine): C01_wire_of_send — for every "
                  "well-formed message and EVERY family of write-acceptance scripts (partial writes, Pending anywhere; calls "
                  "awaited, R-14) the request stream is handed exactly wire(m) (+ the grease frame if owed) and finished (from "
                  "C14); C01_wire_is_valid_message — the RFC 9114 oracle reads wire(m) as [HEADERS section, DATA "
                  "piece_1..piece_n, (HEADERS trailers)?] and a clean end, the sections RFC-9204-decode to pseudo fields ++ map "
                  "iteration (C11, C12); C01_recv_of_wire — for EVERY transport script carrying those bytes (any non-empty "
                  "chunks, pend anywhere, then FIN) the documented receive pattern, every call awaited, over the FrameStream "
                  "model hands over the same head, header map (per-name order kept), body = concatenation of the pieces, "
                  "trailers, exactly one clean end, no error, under size <= max_field_section_size (C10); C01_head_survives — "
                  "'the head survives the trip' (HeadOk) is DERIVED from the laws of the http crate for heads made of values "
                  "of the crate, absolute-form and authority-form (CONNECT) targets, and what arrives is expectedHead(m); "
                  "C01_delivered_parts — same method, scheme, authority, path / status; C01_end_to_end — the composition for "
                  "requests and responses, HeadOk no longer a hypothesis; C01_field_count_refused — the only limit left is "
                  "http::HeaderMap's 24576 distinct names; C01_split_anywhere — split() is modelled field by field (buffer, eos, "
                  "decoder memo, remaining_data, remembered trailers, size limit go to the receive half): the documented pattern "
                  "split before ANY of its calls answers what the unsplit stream answers (= recvPattern on a fresh stream), any "
                  "interleaving of receive polls, send steps and split() projects onto the two machines, split commutes with "
                  "both (C01_recv_of_wire_split: the delivery theorem with a split anywhere); C01_end_to_end_interleaved — ONE "
                  "interleaved sequence of the sending endpoint's machine steps (C14) and the receiving endpoint's events (C07 "
                  "product: deliveries, polls of any stream re-polled after Pending, driver polls), any number of exchanges: "
                  "every sender's stream is handed its message's bytes, every receiver's digest (ALL answers of all its polls, "
                  "Pending left out) is its own message with exactly one head, exactly one Ok(None) counted in the digest, one "
                  "trailers answer, nothing reset/stopped, cell empty, close never called, = deliver over any script with the "
                  "same bytes; that the exchanges' streams never write the error cell is proved, not assumed; "
                  "C01_interleaving_irrelevant_partial — machine projections and commutations (_partial: of the connection "
                  "driver only the error side is a component of the product; tokio/Quinn scheduling and wakers not modelled)")
    level_note = ("trusted: Lean kernel + 3 axioms; component models tied by their own correspondence runs; the two-endpoint "
                  "SimQuic run (two real h3 endpoints joined by a scripted relay) ties the composition: the driver's MODEL half "
                  "is H3.E2E.deliver over a chunking of H3.E2E.streamBytes of the scenario's message, with the identity instance "
                  "of the http parameter, so the http round-trip assumptions are checked on every case; the projection keeps "
                  "everything that happened (calls left pending, closes, resets, stops, unexpected answers) and model and "
                  "specification say 'none'; tokio/Quinn scheduling not modelled (partial): granularity is one poll of one task "
                  "or one transport event")
    rule = ("two real endpoints (client, server) over SimQuic joined by a relay that moves bytes only when the script says "
            "so; messages from alphabets of methods incl. CONNECT (authority-form target) and extended CONNECT (:protocol, "
            "ec=1 on both endpoints), absolute-form targets, origin-form targets whose authority is in Host, field "
            "sections of 0..4 fields and (8 % of the sections) 5..40 fields, names from ten fixed ones or generated tokens "
            "(lower-case letters, digits, !#$%&'*+-.^_`|~), duplicate names, values of any legal bytes with leading / "
            "trailing SP and HTAB and inner HTAB, now and then a value of 1 000..4 096 bytes (8 192 in the thorough tier; "
            "the Lean driver's cost is quadratic in the value length), bodies 0..64 KiB in arbitrary send pieces incl. "
            "empty ones (64 KiB whole or in 8..60 pieces: 4 % of the messages in the thorough tier, of one case in eight "
            "in the quick tier), trailers or not; interim responses (1xx, one send_response / recv_response per head) "
            "before the final one; SETTINGS relayed only after the first request was sent / met / read; a further "
            "request sent after a response; grease on/off per endpoint; a PRODUCT of: sender back-pressure via write credit on the client and/or the server (heads, "
            "DATA and trailers partially written) x readers posted before / while / after the data arrives x relay whole / in "
            "random 1..7-byte pieces / partial per stream x reader shapes (one loop; recv_data, split mid-body, loop on the "
            "receive half; body to its end, split with the trailers remembered, recv_trailers on the receive half; split "
            "right after the head) on both endpoints x client streams whole / split before the body / split after the "
            "response head with both halves in use at once (four tasks on one stream) x 1..4 concurrent requests x executor "
            "order seeds; one exchange whose request and response each carry more than 24576 fields; non-trivial = the "
            "request head was delivered")
    trusted = ["http crate (HeaderMap order, Uri/Method parsing and printing): parameter Http with HttpLaws (C12) and the "
               "round-trip facts HttpRoundTrip (parse(as_str(v)) = v for the crate's own Scheme, Authority, PathAndQuery "
               "values; a built Uri has the parts it was built from; scheme+authority+path build, an authority alone "
               "builds), checked by the e2e run itself and by the verdict tables of C12's hdr engine"]
    assumptions = ["well-formed messages only (names lowercase tokens, values legal bytes; octets; fields the sender's own "
                   "http::HeaderMap can hold: at most 24576 distinct names, any number of values; the head made of values "
                   "of the http crate: HeadValues)",
                   "API programs are sequences of completed calls (R-14)",
                   "transport chunks are non-empty; scripted transports: a delivery arriving after a poll is a `pend` in "
                   "the script (R-T); in C01_end_to_end_interleaved deliveries are events of the history",
                   "field sections within the receiver's max_field_section_size and the peer's advertised limit (C10)"]

    # results a call of a request-stream task may have without the projection mentioning it
    QUIET = re.compile(r"^(ok|req:\d+)$")
    # tasks whose pending call is the endpoint's driver (accept loop / wait_idle), not a call of an exchange
    DRIVERS = ("c.drv.W", "s.conn.A")

    def project(self, line, impl):
        """What the model and the specification predict, and EVERYTHING ELSE that happened: per request
        stream the answers of `res|rr` and of the reader loop `rm` (body bytes handed out by single
        `rd` calls made before the loop are joined to it); then, per endpoint, the calls left pending
        (the two drivers aside), the codes the endpoint closed the connection with, the RESET_STREAM /
        STOP_SENDING it sent on request streams (unidirectional streams — grease, QPACK — are C04's),
        MISUSE/OVERLAP/writing flags of the transport; then `extra=`: every other answer of any task that
        is not a plain success — an `rd` that answered `end` or an error, a failed sending call, an error
        of the accept loop or of `wait_idle`, `no-task`, `bad-cmd`."""
        if " | " not in impl:
            return impl
        # a `*` of a field name is printed `\\x2a` on both sides (in a specification token `*` is a wildcard)
        impl = impl.replace("*", "\\x2a")
        tr, summ = impl.split(" | ", 1)
        trace = tr.split()
        reqs, resps = {}, {}
        extra = []
        first = {}     # bytes handed out by single recv_data calls made before the reader loop (they are body bytes)
        ended = {}     # streams whose body loop was run call by call (`rda`) and has answered `end`: `rt` completes it
        for t in trace:
            m = re.match(r"^([sc])\.q(\d+)\.rd=data:([0-9a-f]+)$", t)
            if m and (m.group(1), m.group(2)) not in ended:
                first[(m.group(1), m.group(2))] = first.get((m.group(1), m.group(2)), "") + m.group(3)
                continue
            m = re.match(r"^([sc])\.q(\d+)\.rd=end$", t)
            if m and (m.group(1), m.group(2)) not in ended:
                ended[(m.group(1), m.group(2))] = t
                continue
            # the reader loop taken apart (`rda`, then `rt` — a `split()` in between): recv_data until `end`,
            # then recv_trailers = what `rm` prints; exactly one `end`, anything after it is an answer of its own
            m = re.match(r"^([sc])\.q(\d+)\.rt=(.*)$", t)
            if m and ended.get((m.group(1), m.group(2))):
                key = (m.group(1), m.group(2))
                ended[key] = None
                t = "%s.q%s.rm=body:%s:%s" % (key[0], key[1], first.pop(key, "") or "-", m.group(3))
            m = re.match(r"^([sc])\.q(\d+)\.rm=body:([0-9a-f-]+):(.*)$", t)
            if m and (m.group(1), m.group(2)) in first:
                body = first.pop((m.group(1), m.group(2))) + (m.group(3) if m.group(3) != "-" else "")
                t = "%s.q%s.rm=body:%s:%s" % (m.group(1), m.group(2), body or "-", m.group(4))
            m = re.match(r"^s\.q(\d+)\.(res|rm)=(.*)$", t)
            if m:
                reqs.setdefault(int(m.group(1)), []).append("s.q%s.%s=%s" % m.groups())
                continue
            m = re.match(r"^c\.q(\d+)\.(rr|rm)=(.*)$", t)
            if m:
                resps.setdefault(int(m.group(1)), []).append("c.q%s.%s=%s" % m.groups())
                continue
            res = t.split("=", 1)[1] if "=" in t else t
            if not self.QUIET.match(res):
                extra.append(t)
        extra += [t for t in ended.values() if t]
        # body bytes of `rd` calls that no reader loop followed are an answer of their own
        for (side, sid), b in sorted(first.items()):
            extra.append("%s.q%s.rd=data:%s" % (side, sid, b))
        out = []
        for sid in sorted(reqs):
            out += reqs[sid]
        for sid in sorted(resps):
            out += resps[sid]
        m = re.match(r"^C\[(.*)\] S\[(.*)\]$", summ)
        if not m:
            return " ".join(out + ["summary=" + summ.replace(" ", "_")])
        for side, part in (("c", m.group(1)), ("s", m.group(2))):
            pending, closed, rst, stop, flags = [], [], [], [], []
            for tok in part.split():
                k = re.match(r"^(\d+):tx=([0-9a-f-]*)(.*)$", tok)
                if k:
                    sid = int(k.group(1))
                    for f in k.group(3).split(","):
                        if f.startswith("rst=") and sid % 4 == 0:
                            rst.append("%d:%s" % (sid, f[4:]))
                        elif f.startswith("stop=") and sid % 4 == 0:
                            stop.append("%d:%s" % (sid, f[5:]))
                        elif f in ("MISUSE", "OVERLAP") or (f == "writing" and sid % 4 == 0):
                            flags.append("%d:%s" % (sid, f))
                    continue
                k = re.match(r"^(pending|closed|dgrams|fired)=\[(.*)\]$", tok)
                if k and k.group(1) == "pending":
                    pending = [x for x in k.group(2).split(",") if x and x not in self.DRIVERS]
                elif k and k.group(1) == "closed":
                    closed = [x for x in k.group(2).split(",") if x]
                elif k:
                    flags.append(tok)
                else:
                    flags.append(tok)
            out += ["%s.pending=%s" % (side, ",".join(pending) or "-"), "%s.closed=%s" % (side, ",".join(closed) or "-"),
                    "%s.rst=%s" % (side, ",".join(rst) or "-"), "%s.stop=%s" % (side, ",".join(stop) or "-")]
            extra += ["%s:%s" % (side, f) for f in flags]
        out.append("extra=" + (",".join(extra) or "-"))
        return " ".join(out)

    def klass_raw(self, line, raw):
        w = line.split()
        feats = []
        feats.append("split" if ".sp" in line else "whole")
        feats.append("bp" if "wc=" in w[1] or "wc=" in w[2] else "free")
        feats.append("grease" if "g1" in w[1].split(",") or "g1" in w[2].split(",") else "plain")
        feats.append("pieces" if re.search(r" [<>]~\d+", line) else "wholechunks")
        feats.append("tr" if ".st:" in line else "notr")
        if "R:CONNECT" in line:
            feats.append("connect")
        n = len(re.findall(r"c\.snd\.R:", line))
        ok = len(re.findall(r"\.rm=body:|\.rt=", raw))
        return "reqs=%d %s delivered=%d" % (n, ",".join(feats), ok)

    def trivial_raw(self, line, raw):
        return ".res=ok:" not in raw

    def features(self, line):
        """which cells of the product a case line covers (coverage table of the evidence / DESIGN)"""
        w = line.split()
        cbp, sbp = "wc=" in w[1], "wc=" in w[2]
        ops = w[3:]
        f = set()
        if cbp or sbp:
            f.add("bp")
        if "g1" in w[1].split(",") or "g1" in w[2].split(","):
            f.add("grease")
        first_full = {}
        for k, op in enumerate(ops):
            if re.match(r"^>(>|~\d+)$", op):
                first_full.setdefault(">", k)
        # a reader loop / head call posted before the last sending call of its message
        last_cs = max([k for k, op in enumerate(ops) if re.match(r"^c\.q\d+s?\.(sd|st|fi)", op)] or [-1])
        early = any(re.match(r"^s\.q\d+\.(rm|rd|rda)$", op) and k < last_cs for k, op in enumerate(ops))
        if early:
            f.add("early")
        if cbp and early:
            f.add("bp*early")
        if any(re.match(r"^s\.q\d+\.rd$", op) for op in ops):
            f.add("midsplit")
            if cbp:
                f.add("bp*midsplit")
        if any(re.match(r"^[sc]\.q\d+\.rda$", op) for op in ops):
            f.add("endsplit")
        if sbp and re.search(r"s:cw\d+:0", line):
            f.add("resp-partial")
        if "R:CONNECT:" in line:
            f.add("connect")
        if "R:CONNECT+" in line:
            f.add("xconnect")
        # the client's send half still sends after its receive half has been given the response head
        for m in re.finditer(r"c\.q(\d+)\.rr ", line):
            rest = line[m.end():]
            if re.search(r"c\.q%ss\.(sd|st|fi)" % m.group(1), rest) and ("c.q%s.sp" % m.group(1)) in rest:
                f.add("duplex")
        n = len(re.findall(r"c\.snd\.R:", line))
        f.add("reqs=%d" % n)
        # second audit (bC05): the generator gaps
        sections = re.findall(r"\.(?:R:[^:]+:[0-9a-f]+|sr:\d+|st):(\S+)", line)
        vals = [kv.split("=", 1) for sec in sections if sec != "-" for kv in sec.split(";")]
        if any(v[:2] in ("20", "09") or v[-2:] in ("20", "09") for _, v in vals):
            f.add("ows-edge")
        if any("09" in [v[i:i + 2] for i in range(2, len(v) - 2, 2)] for _, v in vals):
            f.add("htab-inner")
        if any(sec != "-" and sec.count(";") + 1 > 4 for sec in sections):
            f.add("fields>4")
        if any(sec != "-" and sec.count(";") + 1 >= 20 for sec in sections):
            f.add("fields>=20")
        if any(k not in NAMES and k != "host" for k, _ in vals):
            f.add("gen-name")
        if any(re.search(r"[^a-z0-9-]", k) for k, _ in vals):
            f.add("gen-name-special")
        if any(len(v) >= 2000 for _, v in vals):
            f.add("value>=1000")
        if any(len(v) >= 2 * 65536 for _, v in vals):
            f.add("value>=65536")
        body = {}
        for m in re.finditer(r"([cs])\.q(\d+)s?\.sd:([0-9a-f]+|-)", line):
            b = body.setdefault((m.group(1), m.group(2)), [0, 0])
            b[0] += len(m.group(3)) // 2
            b[1] += 1
        if any(b[0] == 65536 for b in body.values()):
            f.add("body=64KiB")
        if any(b[0] == 65536 and b[1] >= 8 for b in body.values()):
            f.add("body=64KiB,pieces>=8")
        first_req = ops.index(next(op for op in ops if op.startswith("c.snd.R:")))
        if not any(op in (">>", "<<") or re.match(r"^[<>]~", op) for op in ops[:first_req]):
            f.add("settings-after-request")
        srs = [k for k, op in enumerate(ops) if re.match(r"^s\.q\d+s?\.sr:", op)]
        if srs and any(op.startswith("c.snd.R:") for op in ops[srs[0]:]):
            f.add("request-after-sr")
        if re.search(r"s\.q\d+s?\.sr:1\d\d[: ]", line + " "):
            f.add("interim")
        if re.search(r"c\.snd\.R:[A-Z]+:2f", line):
            f.add("origin-form+host")
        return f

    def name(self, rng):
        """a field name: one of the fixed ones, or a generated token (lower-case letters, digits and the other
        token characters, 1..24 characters)"""
        if rng.random() < 0.5:
            return rng.choice(NAMES)
        while True:
            n = "".join(rng.choice(NAME_CHARS) for _ in range(rng.choice([1, 1, 2, 3, 5, 8, 13, 24])))
            if n not in NOT_NAMES:
                return n

    def value(self, rng, ln=None):
        """a field value: any bytes http::HeaderValue takes (HTAB, 0x20..0x7e, 0x80..0xff) — leading and
        trailing SP / HTAB included (the model admits them, Model/Headers.lean `validValue`; the http crate
        keeps them and QPACK carries them: the receiver must be handed the same bytes)"""
        if ln is None:
            ln = rng.choice([0, 1, 2, 5, 20, 100])
        v = bytes(rng.choices(PRINTABLE if ln >= 2048 else VALUE_BYTES, k=ln))
        k = rng.random()
        if k < 0.3:
            ows = [b" ", b"\t", b" \t", b"\t ", b"  ", b""]
            v = rng.choice(ows) + v[:len(v) // 2] + rng.choice([b"\t", b" \t ", b""]) + v[len(v) // 2:] + rng.choice(ows)
        return v

    def headers(self, rng, maxn=5, long_ok=True):
        """0..4 fields mostly; in one section of five 5..40 fields; now and then one value of 1 000..70 000 bytes
        (the receivers' max_field_section_size is h3's default, 2^62 - 1 = unlimited, and so is the limit the
        peer advertises: the section is within both, C10)"""
        many = rng.random() < 0.08
        n = rng.randrange(5, 41) if many else rng.randrange(0, maxn)
        hs = []
        for _ in range(n):
            v = self.value(rng, rng.choice([0, 1, 2, 5, 20]) if many else None)
            hs.append("%s=%s" % (self.name(rng), v.hex() if v else "-"))
        if long_ok and rng.random() < 0.003:
            v = self.value(rng, rng.choice(LONG_VALUES[self.tier]))
            hs.insert(rng.randrange(0, len(hs) + 1), "%s=%s" % (self.name(rng), v.hex()))
        return ";".join(hs) if hs else "-"

    def body_pieces(self, rng, big):
        kind = rng.random()
        if kind < 0.2:
            return []
        sizes = [rng.choice([0, 1, 2, 3, 63, 64, 100]) for _ in range(rng.randrange(1, 5))]
        if kind > 0.9:
            sizes = [rng.choice([1000, 16383, 16384, 16385]) for _ in range(rng.randrange(1, 3))]
        if big and kind > 0.985:
            sizes = [65536]
        elif big and kind > 0.96:
            # 64 KiB handed over in many pieces of uneven sizes (empty ones included)
            n = rng.randrange(8, 60)
            cuts = sorted(rng.randrange(0, 65537) for _ in range(n - 1))
            sizes = [b - a for a, b in zip([0] + cuts, cuts + [65536])]
        return [rng.randbytes(n).hex() or "-" for n in sizes]

    def message(self, rng, big):
        return {"hdrs": self.headers(rng), "pieces": self.body_pieces(rng, big),
                "trailers": self.headers(rng, 3) if rng.random() < 0.4 else None}

    def interims(self, rng):
        """interim responses sent before the final one: h3's server API has no call of its own for them —
        `send_response` writes one HEADERS frame per call and keeps no state (h3/src/server/stream.rs:141-179), so
        the application calls it once per interim response and once for the final one; on the client every
        `recv_response` call answers the next HEADERS frame as a `Response` (h3/src/client/stream.rs:99 ff.), so
        the application calls it again while the status is 1xx.  NOTE: the loop over 1xx is left to the
        application; a client that goes on to `recv_data` after an interim head (`… sr:103 sr:200 sd fi << c.q0.rr
        c.q0.rm`) is answered `err:conn:local:H3_FRAME_UNEXPECTED` and the connection is closed — such lines are
        not generated (the receiving application follows the documented pattern)."""
        if rng.random() >= 0.1:
            return []
        return [(rng.choice(INTERIM), self.headers(rng, 3, False)) for _ in range(rng.choice([1, 1, 2]))]

    @staticmethod
    def nonempty(msg):
        return any(p != "-" for p in msg["pieces"])

    def reader(self, rng, task, head, msg, may_split, heads=1):
        """the receiving application's calls on one stream: the head call, then the documented loop — as one
        reader loop (`rm`), or taken apart around a `split()`: a first `recv_data`, split in the middle of the
        body, the loop on the receive half (`rd sp rm`); the body to its end, split with the trailers already
        remembered by the stream, `recv_trailers` on the receive half (`rda sp rt`); split right after the head
        (`sp rm`).  Returns (ops, did it split)."""
        modes = ["rm", "rm"]
        if may_split:
            modes += ["sp-first", "end-split"] + (["mid", "mid"] if self.nonempty(msg) else [])
        mode = rng.choice(modes)
        cmds = {"rm": ["rm"], "sp-first": ["sp", "rm"], "mid": ["rd", "sp", "rm"], "end-split": ["rda", "sp", "rt"]}[mode]
        return ["%s.%s" % (task, c) for c in [head] * heads + cmds], mode != "rm"

    def one_case(self, rng, big):
        seed = rng.randrange(0, 1000)
        # quick tier: one case in three may draw the 64 KiB bodies (4 % of its messages do)
        big = big or rng.random() < 0.12
        # SETTINGS late: the control streams are relayed only after the first request went out (`first`), after the
        # server has met the request streams (`met`), or after the requests have been sent and read (`read`)
        late = rng.choice(["first", "met", "read"]) if rng.random() < 0.1 else None
        # a further exchange whose `send_request` comes after a `send_response`
        after_sr = rng.random() < 0.12
        cg, sg = rng.random() < 0.4, rng.random() < 0.4
        cbp, sbp = rng.random() < 0.35, rng.random() < 0.35
        ec = rng.random() < 0.15 and not late   # RFC 8441: extended CONNECT only once the peer's SETTINGS are known
        ccfg = ",".join(["g1" if cg else "g0", "seed=%d" % seed] + (["wc=0"] if cbp else []) + (["ec=1"] if ec else []))
        scfg = ",".join(["g1" if sg else "g0"] + (["wc=0"] if sbp else []) + (["ec=1"] if ec else []))
        ops = []
        if cbp:
            ops += ["c:gw2:100", "c:gw6:9", "c:gw10:9"]
        if sbp:
            ops += ["s:gw3:100", "s:gw7:9", "s:gw11:9"]
        settings = [">>", "<<"]
        if (cg or sg) and rng.random() < 0.7:
            # the grease streams (opened once the peer's SETTINGS have been read) get credit and are relayed
            settings += ["c:gw14:1000", "s:gw15:1000", ">>", "<<"]
        if late:
            ops += ["s.conn.AL", "c.drv.W"]
        else:
            ops += settings[:2] + ["s.conn.AL", "c.drv.W"] + settings[2:]
        relay = lambda d: rng.choice(["%s%s" % (d, d), "%s~%d" % (d, rng.randrange(1, 99999))])
        small = lambda: rng.choice([1, 2, 3, 5, 7, 9, 17, 40, 100, 200])
        nreq = rng.choice([1, 1, 1, 2, 2, 3, 4])
        streams = []
        # ---- phase 1: the requests' heads
        for i in range(nreq):
            sid = 4 * i
            k = rng.random()
            if k < 0.12:
                method, uri = "CONNECT", rng.choice(AUTHORITIES)
            elif ec and k < 0.5:
                method, uri = "CONNECT+" + rng.choice(PROTOCOLS), rng.choice(URIS)
            else:
                method, uri = rng.choice(METHODS), rng.choice(URIS)
            st = {"sid": sid, "req": self.message(rng, big), "resp": self.message(rng, big), "status": rng.choice(STATUS),
                  "csender": "c.q%d" % sid, "ssender": "s.q%d" % sid, "csplit": False, "ssplit": False, "sr_sent": False}
            st["interims"] = self.interims(rng)
            if not method.startswith("CONNECT") and rng.random() < 0.08:
                uri = rng.choice(ORIGIN_TARGETS)
                st["req"]["hdrs"] = self.with_host(rng, st["req"]["hdrs"])
            ops.append("c.snd.R:%s:%s:%s" % (method, hexs(uri), st["req"]["hdrs"]))
            if cbp:
                # let the request head through (in a few partial writes), then throttle the body
                for g in (rng.choice([1, 2, 7]), rng.choice([1, 50]), 100000):
                    ops.append("c:gw%d:%d" % (sid, g))
                ops.append("c:cw%d:0" % sid)
            st["cmode"] = rng.choice(["whole", "whole", "early-split", "duplex"])
            if st["cmode"] == "early-split":
                ops.append("c.q%d.sp" % sid)
                st["csender"], st["csplit"] = "c.q%ds" % sid, True
            streams.append(st)
            if late == "first" and i == 0:
                ops += settings
        # the server meets the streams: whole heads, or (not for `duplex`) a single byte first
        for st in streams:
            st["accept1"] = st["cmode"] != "duplex" and rng.random() < 0.3
            ops.append(">%d:%s" % (st["sid"], "1" if st["accept1"] else "*"))
        if late == "met":
            ops += settings
        # ---- phase 2: the request bodies are sent while (some of) the server's readers already run
        lists = []
        late_readers = []
        for st in streams:
            sid, L = st["sid"], []
            if st["cmode"] == "duplex":
                # the server splits at once and answers from its send half while its receive half reads the request;
                # the client is given the response head, splits, and goes on sending from its send half while its
                # receive half reads the response: four tasks on one stream
                L += ["s.q%d.res" % sid, "s.q%d.sp" % sid]
                L += ["s.q%ds.sr:%d:%s" % (sid, c, h) for c, h in st["interims"] + [(st["status"], st["resp"]["hdrs"])]]
                st["ssender"], st["ssplit"], st["sr_sent"] = "s.q%ds" % sid, True, True
                if sbp:
                    L += ["s:gw%d:%d" % (sid, rng.choice([1, 3])), "s:gw%d:100000" % sid, "s:cw%d:0" % sid]
                L += ["<%d:*" % sid] + ["c.q%d.rr" % sid] * (len(st["interims"]) + 1) + ["c.q%d.sp" % sid]
                st["csender"], st["csplit"] = "c.q%ds" % sid, True
                st["creader_posted"] = True
                L.append("c.q%d.rm" % sid)
                L.append("s.q%d.rm" % sid)
            else:
                r, split = self.reader(rng, "s.q%d" % sid, "res", st["req"], True)
                if split:
                    st["ssender"], st["ssplit"] = "s.q%ds" % sid, True
                if rng.random() < 0.6:
                    L += r       # posted before the message is there
                else:
                    late_readers += r
            body = ["%s.sd:%s" % (st["csender"], p) for p in st["req"]["pieces"]]
            if st["req"]["trailers"] is not None:
                body.append("%s.st:%s" % (st["csender"], st["req"]["trailers"]))
            body.append("%s.fi" % st["csender"])
            lists.append(L + body if st["cmode"] == "duplex" else self.merge(rng, [L, body]))
        merged = self.merge(rng, lists)
        sids = [st["sid"] for st in streams]
        for op in merged:
            ops.append(op)
            if cbp and re.match(r"^c\.q\d+s?\.(sd|st|fi)", op) and rng.random() < 0.7:
                ops.append("c:gw%d:%d" % (rng.choice(sids), rng.choice([1, 3, 7, 100, 100000])))
            if rng.random() < 0.4:
                ops.append(rng.choice([">%d:%d" % (rng.choice(sids), small()), relay(">")]))
        if cbp:
            for sid in sids:
                ops.append("c:gw%d:10000000" % sid)
        ops.append(relay(">"))
        ops += late_readers
        if late == "read":
            ops += settings
        # ---- phase 3: the responses
        lists = []
        late_readers = []
        for st in streams:
            sid, M = st["sid"], []
            if not st["sr_sent"]:
                M += ["%s.sr:%d:%s" % (st["ssender"], c, h) for c, h in st["interims"]]
                M.append("%s.sr:%d:%s" % (st["ssender"], st["status"], st["resp"]["hdrs"]))
                if sbp:
                    M += ["s:gw%d:%d" % (sid, rng.choice([1, 3])), "s:gw%d:100000" % sid, "s:cw%d:0" % sid]
                if not st["ssplit"] and rng.random() < 0.3:
                    M.append("s.q%d.sp" % sid)
                    st["ssender"], st["ssplit"] = "s.q%ds" % sid, True
            for p in st["resp"]["pieces"]:
                M.append("%s.sd:%s" % (st["ssender"], p))
            if st["resp"]["trailers"] is not None:
                M.append("%s.st:%s" % (st["ssender"], st["resp"]["trailers"]))
            M.append("%s.fi" % st["ssender"])
            if not st.get("creader_posted"):
                r, _ = self.reader(rng, "c.q%d" % sid, "rr", st["resp"], not st["csplit"], len(st["interims"]) + 1)
                if rng.random() < 0.5:
                    M = self.merge(rng, [M, r])
                else:
                    late_readers += r
            lists.append(M)
        for op in self.merge(rng, lists):
            ops.append(op)
            if sbp and re.match(r"^s\.q\d+s?\.(sd|st|fi)", op) and rng.random() < 0.7:
                ops.append("s:gw%d:%d" % (rng.choice(sids), rng.choice([1, 3, 7, 100, 100000])))
            if rng.random() < 0.4:
                ops.append(rng.choice(["<%d:%d" % (rng.choice(sids), small()), relay("<")]))
        if sbp:
            for sid in sids:
                ops.append("s:gw%d:10000000" % sid)
        ops.append(relay("<"))
        ops += late_readers
        if after_sr:
            ops = self.add_late_exchange(rng, ops, 4 * nreq, cbp, sbp, big)
        return "e2e %s %s %s" % (ccfg, scfg, " ".join(ops))

    def with_host(self, rng, hdrs):
        """the `Host` field (once, or twice with the same value) somewhere among the fields"""
        hs = [] if hdrs == "-" else hdrs.split(";")
        h = "host=" + hexs(rng.choice(HOSTS))
        for _ in range(rng.choice([1, 1, 1, 2])):
            hs.insert(rng.randrange(0, len(hs) + 1), h)
        return ";".join(hs)

    def add_late_exchange(self, rng, ops, sid, cbp, sbp, big):
        """one more exchange on the next request stream: its `send_request` (and the relay of its head) comes
        right after a `send_response` of an earlier exchange, the rest after everything else"""
        req, resp = self.message(rng, big), self.message(rng, big)
        srs = [k for k, op in enumerate(ops) if re.match(r"^s\.q\d+s?\.sr:", op)]
        at = rng.choice(srs) + 1
        head = ["c.snd.R:%s:%s:%s" % (rng.choice(METHODS), hexs(rng.choice(URIS)), req["hdrs"])]
        if cbp:
            head.append("c:gw%d:10000000" % sid)
        head.append(">%d:*" % sid)
        rest = ["c.q%d.sd:%s" % (sid, p) for p in req["pieces"]]
        if req["trailers"] is not None:
            rest.append("c.q%d.st:%s" % (sid, req["trailers"]))
        rest += ["c.q%d.fi" % sid, rng.choice([">>", ">%d:*" % sid])]
        rest += self.reader(rng, "s.q%d" % sid, "res", req, False)[0]
        rest.append("s.q%d.sr:%d:%s" % (sid, rng.choice(STATUS), resp["hdrs"]))
        if sbp:
            rest.append("s:gw%d:10000000" % sid)
        rest += ["s.q%d.sd:%s" % (sid, p) for p in resp["pieces"]]
        if resp["trailers"] is not None:
            rest.append("s.q%d.st:%s" % (sid, resp["trailers"]))
        rest += ["s.q%d.fi" % sid, rng.choice(["<<", "<%d:*" % sid])]
        rest += self.reader(rng, "c.q%d" % sid, "rr", resp, False)[0]
        return ops[:at] + head + ops[at:] + rest

    @staticmethod
    def merge(rng, lists):
        """a random interleaving that keeps the order inside each list"""
        seqs = [list(l) for l in lists if l]
        out = []
        while seqs:
            q = rng.choice(seqs)
            out.append(q.pop(0))
            if not q:
                seqs.remove(q)
        return out

    def many_fields_case(self):
        """D-01 (repaired): a request and a response with more than 24576 fields each — values under one
        name, statically indexed so that the sections stay small — must be delivered like any other."""
        req = ";".join(["accept=2a2f2a"] * 24573)          # + 4 pseudo-header fields = 24577 fields
        resp = ";".join(["vary=6f726967696e"] * 24580)
        return ("e2e g0,seed=1 g0 >> << s.conn.AL c.drv.W c.snd.R:GET:%s:%s c.q0.sd:0102 c.q0.fi >> s.q0.res s.q0.rm "
                "s.q0.sr:200:%s s.q0.sd:03 s.q0.fi << c.q0.rr c.q0.rm" % (hexs("https://a.b/"), req, resp))

    tier = "quick"

    def cases(self, tier, rng):
        big = tier == "thorough"
        self.tier = tier
        return [self.one_case(rng, big) for _ in range(12000 if big else 2500)] + [self.many_fields_case()]

    LONG_PROBES = [16384, 65535, 65536, 70000]

    def long_value_probes(self, rng):
        """[(case line, expected projection)]: one exchange per length n whose request head, request trailers,
        response head and response trailers each carry a value of n bytes (any legal bytes, high bytes included,
        SP / HTAB at both ends) among small fields; the 65 536 line also sends a 64 KiB request body in 20 pieces.
        The expectation is the property's demand written out for these lines: the same values byte for byte in the
        per-name order, body = concatenation, trailers, one clean end and nothing else."""
        def val(n):
            mid = bytes(rng.choices(VALUE_BYTES, k=n - 4))
            return (rng.choice([b" \t", b"\t ", b"  ", b"\t\t"]) + mid + rng.choice([b" \t", b"\t ", b"  ", b"\t\t"])).hex()

        def render(fields):
            return ";".join("%s=%s" % kv for kv in sorted(fields, key=lambda kv: kv[0]))   # stable: per-name order kept

        out = []
        for n in self.LONG_PROBES:
            rh = [("x-a", "61"), ("x.long", val(n)), ("accept", "2a2f2a"), ("x-a", "2062")]
            rt = [("t~1", val(n)), ("x-0", "09")]
            sh = [("etag", "2261"), ("big|value", val(n))]
            stl = [("x-b", val(n))]
            if n == 65536:
                cuts = sorted(rng.randrange(0, 65537) for _ in range(19))
                pieces = [rng.randbytes(b - a).hex() or "-" for a, b in zip([0] + cuts, cuts + [65536])]
            else:
                pieces = ["0102", "-", "03"]
            body = "".join(x for x in pieces if x != "-")
            raw = lambda fs: ";".join("%s=%s" % kv for kv in fs)
            ops = [">>", "<<", "s.conn.AL", "c.drv.W", "c.snd.R:POST:%s:%s" % (hexs("https://a.b/up"), raw(rh))]
            ops += ["c.q0.sd:%s" % x for x in pieces] + ["c.q0.st:%s" % raw(rt), "c.q0.fi"]
            # relayed in 1..7-byte pieces on the shortest line only (time), whole on the others
            ops += [">~%d" % rng.randrange(1, 99999) if n == 16384 else ">>", "s.q0.res", "s.q0.rm"]
            ops += ["s.q0.sr:200:%s" % raw(sh), "s.q0.sd:0405", "s.q0.st:%s" % raw(stl), "s.q0.fi"]
            ops += ["<~%d" % rng.randrange(1, 99999) if n == 16384 else "<<", "c.q0.rr", "c.q0.rm"]
            line = "e2e g%d,seed=%d g%d %s" % (rng.randrange(2), rng.randrange(1000), rng.randrange(2), " ".join(ops))
            want = ("s.q0.res=ok:POST:%s:-:%s s.q0.rm=body:%s:trailers:%s c.q0.rr=ok:200:%s c.q0.rm=body:0405:trailers:%s "
                    "c.pending=- c.closed=- c.rst=- c.stop=- s.pending=- s.closed=- s.rst=- s.stop=- extra=-"
                    % (hexs("https://a.b/up"), render(rh), body, render(rt), render(sh), render(stl)))
            out.append((line, want))
        return out

    def extra(self, tier, rng, ctx):
        """IMPL-ONLY probes: header values of 16 384 / 65 535 / 65 536 / 70 000 bytes.  The Lean driver's cost is
        quadratic in the length of a value (16 384 high bytes: more than a minute), so these lines do not go through
        `h3drv`; the real endpoints run them and the projection of what happened is compared with the property's
        demand computed here (`long_value_probes`)."""
        probes = self.long_value_probes(rng)
        rc, outs, err = vlib.run_lines(vlib.RUN, [l for l, _ in probes], timeout=120)
        if rc != 0 or len(outs) != len(probes):
            return [("broken", "long values: the harness answered %d of %d probe lines (rc=%s %s)"
                     % (len(outs), len(probes), rc, err[-200:]), {})]
        res = []
        for n, (line, want), raw in zip(self.LONG_PROBES, probes, outs):
            got = self.project(line, raw)
            if got != want:
                k = next((i for i, (a, b) in enumerate(zip(got, want)) if a != b), min(len(got), len(want)))
                res.append(("broken", "long values: a %d-byte value is not delivered identically / something else happened: "
                            "projection differs from the demand at character %d: got `…%s…` want `…%s…` (line: %s…)"
                            % (n, k, got[max(0, k - 60):k + 60], want[max(0, k - 60):k + 60], line[:200]), {}))
        if not res:
            res.append(("note", "long values: field values of %s bytes (any legal bytes, SP / HTAB at both ends) in request "
                        "head, request trailers, response head and response trailers, one line with a 64 KiB body in 20 "
                        "pieces: delivered identically, clean end, nothing else (impl-only: the Lean driver is quadratic in "
                        "the value length)" % " / ".join(str(n) for n in self.LONG_PROBES), {}))
        return res

    def shrink_candidates(self, line):
        """Smaller lines that are still complete scenarios (a line that merely leaves something pending — a
        relay or a credit grant taken away — fails for a reason of its own and would mislead): drop the whole
        last exchange (highest stream id: every op of its tasks, its relays and grants, its `send_request`);
        drop one partial relay `><sid>:<k>` / one small credit grant (the whole relays and the final grants
        stay)."""
        w = line.split()
        ops = w[3:]
        out = []
        n = len([op for op in ops if op.startswith("c.snd.R:")])
        if n > 1:
            sid = 4 * (n - 1)
            pat = re.compile(r"^([cs]\.q%ds?\.|[<>]x?%d:|[cs]:[gc]w%d:)" % (sid, sid, sid))
            keep, seen = [], 0
            for op in ops:
                if op.startswith("c.snd.R:"):
                    seen += 1
                    if seen == n:
                        continue
                if pat.match(op):
                    continue
                keep.append(op)
            out.append(" ".join(w[:3] + keep))
        start = ops.index("c.drv.W") + 1 if "c.drv.W" in ops else 0
        for i in range(start, len(ops)):
            m = re.match(r"^[<>]\d+:(\d+)$", ops[i]) or re.match(r"^[cs]:gw\d+:(\d+)$", ops[i])
            if m and int(m.group(1)) <= 1000:
                out.append(" ".join(w[:3] + ops[:i] + ops[i + 1:]))
        return out


PROP = C01()
