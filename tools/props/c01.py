import re

from vlib import Prop
from props.c16 import hx

METHODS = ["GET", "POST", "PUT", "DELETE", "HEAD", "OPTIONS", "PATCH"]
URIS = ["https://a.b/", "https://a.b/x?q=1", "http://example.com:8080/p/a/t/h", "https://[::1]:4433/%7Euser/index.html?a=b&c=d",
        "https://host.example/" + "seg/" * 20, "https://a.b/*", "https://xn--nxasmq6b.example/?", "https://user.example:1/a//b",
        # absolute-form targets with an empty path (with and without query): the receiver sees path "/"
        "https://www.example.com?lang=en&page=2", "https://a.b", "http://a.b:8080?x", "https://a.b?", "https://a.b/?b"]
NAMES = ["x-a", "x-b", "accept", "content-type", "cookie", "x-long-header-name-with-many-characters", "te", "user-agent", "etag", "x-0"]
STATUS = [200, 201, 204, 206, 301, 404, 418, 500, 599]


def hexs(s):
    return s.encode().hex()


class C01(Prop):
    id = "C01"
    thorough_rounds = 4   # thorough tier: this many independently seeded rounds of the random generators (duplicates dropped)
    modules = ["H3.Props.C01", "H3.Lemmas.GenAgreeSend"]
    engines = ["e2e"]
    design_ref = "DESIGN.md section 7, C01"
    level_text = ("Lean composition theorems over the component models (H3.E2E glue: Message, wire, sendAll, recvPattern, "
                  "deliver): C01_wire_of_send — for every well-formed message and EVERY family of write-acceptance scripts "
                  "(partial writes, Pending anywhere; calls awaited, R-14) the request stream is handed exactly wire(m) "
                  "(+ the grease frame if owed) and finished (from C14); C01_wire_is_valid_message — the RFC 9114 oracle reads "
                  "wire(m) as [HEADERS section, DATA piece_1..piece_n, (HEADERS trailers)?] and a clean end, the sections "
                  "RFC-9204-decode to pseudo fields ++ map iteration (C11, C12); C01_recv_of_wire — for EVERY transport "
                  "script carrying those bytes (any non-empty chunks, pend anywhere, then FIN) the documented receive pattern, "
                  "every call awaited, over the FrameStream model hands over the same head, header map (per-name order kept), "
                  "body = concatenation of the pieces, trailers, exactly one clean end, no error, under size <= "
                  "max_field_section_size (C10) — proved directly from the C02 invariant, no FrameSim hypothesis, no limit on "
                  "the number of fields (D-01 repaired); C01_delivered_parts — same method, scheme, authority, path / status; "
                  "C01_end_to_end — the composition for requests and responses; C01_field_count_refused — the only limit left "
                  "is http::HeaderMap's 24576 distinct names, which neither the sender's map can hold nor the receiver's; "
                  "C01_interleaving_irrelevant_partial — the record of a request stream after ANY run of the C14 connection "
                  "machine depends only on the steps addressing it, receive components share only the error cell which every "
                  "call leaves alone unless it answers a connection error, split halves act on disjoint components (_partial: "
                  "the connection driver is not a component of the interleaving products)")
    level_note = ("trusted: Lean kernel + 3 axioms; component models tied by their own correspondence runs; the two-endpoint "
                  "SimQuic run (two real h3 endpoints joined by a scripted relay) ties the composition: the driver's MODEL half "
                  "is H3.E2E.deliver over a chunking of H3.E2E.wire of the scenario's message, with the identity instance of "
                  "the http parameter, so the http round-trip assumptions are checked on every case; tokio/Quinn scheduling "
                  "not modelled (partial): granularity is one poll of one task or one transport event")
    rule = ("two real endpoints (client, server) over SimQuic joined by a relay that moves bytes only when the script says "
            "so; messages from alphabets of methods, absolute/authority-form targets, duplicate header names, high-byte values, "
            "bodies 0..64 KiB in arbitrary send pieces incl. empty ones, trailers or not; relay whole / in random 1..7-byte "
            "pieces / partial per stream; sender back-pressure via write credit; receiving calls posted before or after the "
            "data; executor order seeds; whole or split request streams; 1..2 concurrent requests; one exchange whose request "
            "and response each carry more than 24576 fields (values under one name); non-trivial = the request head was "
            "delivered")
    trusted = ["http crate (HeaderMap order, Uri/Method parsing and printing): parameter Http with HttpLaws (C12) and the "
               "round-trip facts PseudoBack / HttpRoundTrip (parse(as_str(v)) = v for the crate's own Scheme, Authority, "
               "PathAndQuery values; a built Uri has the parts it was built from), checked by the e2e run itself"]
    assumptions = ["well-formed messages only (names lowercase tokens, values legal bytes; octets; fields the sender's own "
                   "http::HeaderMap can hold: at most 24576 distinct names, any number of values)",
                   "API programs are sequences of completed calls (R-14)",
                   "transport chunks are non-empty; a delivery arriving after a poll is a `pend` in the script (R-T)",
                   "field sections within the receiver's max_field_section_size and the peer's advertised limit (C10)"]

    def project(self, line, impl):
        if " | " not in impl:
            return impl
        trace = impl.split(" | ")[0].split()
        reqs, resps = {}, {}
        first = {}     # bytes handed out by single recv_data calls made before the reader loop (they are body bytes)
        for t in trace:
            m = re.match(r"^([sc])\.q(\d+)\.rd=data:([0-9a-f]+)$", t)
            if m:
                first[(m.group(1), m.group(2))] = first.get((m.group(1), m.group(2)), "") + m.group(3)
                continue
            m = re.match(r"^([sc])\.q(\d+)\.rm=body:([0-9a-f-]+):(.*)$", t)
            if m and (m.group(1), m.group(2)) in first:
                body = first.pop((m.group(1), m.group(2))) + (m.group(3) if m.group(3) != "-" else "")
                t = "%s.q%s.rm=body:%s:%s" % (m.group(1), m.group(2), body or "-", m.group(4))
            m = re.match(r"^s\.q(\d+)\.(res|rm)=(.*)$", t)
            if m:
                reqs.setdefault(int(m.group(1)), []).append("s.q%s.%s=%s" % m.groups())
            m = re.match(r"^c\.q(\d+)\.(rr|rm)=(.*)$", t)
            if m:
                resps.setdefault(int(m.group(1)), []).append("c.q%s.%s=%s" % m.groups())
        out = []
        for sid in sorted(reqs):
            out += reqs[sid]
        for sid in sorted(resps):
            out += resps[sid]
        return " ".join(out)

    def klass_raw(self, line, raw):
        w = line.split()
        feats = []
        feats.append("split" if ".sp" in line else "whole")
        feats.append("bp" if "wc=" in w[1] or "wc=" in w[2] else "free")
        feats.append("pieces" if "~" in line else "wholechunks")
        feats.append("tr" if ".st:" in line else "notr")
        n = len(re.findall(r"c\.snd\.R:", line))
        ok = len(re.findall(r"\.rm=body:", raw))
        return "reqs=%d %s delivered=%d" % (n, ",".join(feats), ok)

    def trivial_raw(self, line, raw):
        return ".res=ok:" not in raw

    def headers(self, rng, maxn=5):
        hs = []
        for _ in range(rng.randrange(0, maxn)):
            n = rng.choice(NAMES)
            ln = rng.choice([0, 1, 2, 5, 20, 100])
            v = bytes(rng.choice([0x09] + list(range(0x20, 0x7f)) + list(range(0x80, 0x100))) for _ in range(ln))
            v = v.strip(b" \t")  # the http crate keeps them, but be conservative about OWS
            hs.append("%s=%s" % (n, v.hex() if v else "-"))
        return ";".join(hs) if hs else "-"

    def body_pieces(self, rng, big):
        kind = rng.random()
        if kind < 0.2:
            return []
        sizes = [rng.choice([0, 1, 2, 3, 63, 64, 100]) for _ in range(rng.randrange(1, 5))]
        if kind > 0.9:
            sizes = [rng.choice([1000, 16383, 16384, 16385]) for _ in range(rng.randrange(1, 3))]
        if big and kind > 0.97:
            sizes = [65536]
        return [bytes(rng.getrandbits(8) for _ in range(n)).hex() or "-" for n in sizes]

    def one_case(self, rng, big):
        seed = rng.randrange(0, 1000)
        bp = rng.random() < 0.3
        ccfg = "g0,seed=%d" % seed + (",wc=0" if bp else "")
        scfg = "g0" + (",wc=0" if bp and rng.random() < 0.5 else "")
        sbp = "wc=0" in scfg
        ops = []
        if bp:
            ops += ["c:gw2:100", "c:gw6:9", "c:gw10:9"]
        if sbp:
            ops += ["s:gw3:100", "s:gw7:9", "s:gw11:9"]
        ops += [">>", "<<", "s.conn.AL", "c.drv.W"]
        nreq = rng.choice([1, 1, 1, 2])
        relay = lambda d: rng.choice(["%s%s" % (d, d), "%s~%d" % (d, rng.randrange(1, 99999))])
        streams = []
        for i in range(nreq):
            sid = 4 * i
            method = rng.choice(METHODS)
            uri = rng.choice(URIS)
            ops.append("c.snd.R:%s:%s:%s" % (method, hexs(uri), self.headers(rng)))
            if bp:
                # let the request head through (in a few partial writes), then throttle the body
                for k in (rng.choice([1, 2, 7]), rng.choice([1, 50]), 100000):
                    ops.append("c:gw%d:%d" % (sid, k))
                ops.append("c:cw%d:0" % sid)
            streams.append(sid)
        # early receive calls (posted before anything arrived)
        early = (not bp) and rng.random() < 0.5
        plan = []
        for sid in streams:
            sender = "c.q%d" % sid
            if rng.random() < 0.3:
                plan.append("c.q%d.sp" % sid)
                sender = "c.q%ds" % sid
            for p in self.body_pieces(rng, big):
                plan.append("%s.sd:%s" % (sender, p))
            if rng.random() < 0.4:
                plan.append("%s.st:%s" % (sender, self.headers(rng, 3)))
            plan.append("%s.fi" % sender)
        # interleave the plans of different streams keeping per-stream order
        per = {}
        for op in plan:
            per.setdefault(re.match(r"c\.q(\d+)", op).group(1), []).append(op)
        seqs = list(per.values())
        merged = []
        while any(seqs):
            s = rng.choice([q for q in seqs if q])
            merged.append(s.pop(0))
            if rng.random() < 0.3:
                merged.append(relay(">"))
            if bp and rng.random() < 0.7:
                merged.append("c:gw%d:%d" % (rng.choice(streams), rng.choice([1, 3, 7, 100, 100000])))
        early_rm = set()
        if early:
            # the server task exists once the stream has been accepted: let one byte through first
            for sid in streams:
                ops += [">%d:1" % sid, "s.q%d.res" % sid]
                if rng.random() < 0.6:
                    # the reader loop runs while the message is still arriving: every delivery below wakes it
                    ops.append("s.q%d.rm" % sid)
                    early_rm.add(sid)
            # deliveries in small steps between the sender's calls
            trick = []
            for op in merged:
                trick.append(op)
                if rng.random() < 0.5:
                    trick.append(">%d:%d" % (rng.choice(streams), rng.choice([1, 2, 3, 5, 9, 17, 40, 200])))
            merged = trick
        ops += merged
        if bp:
            for sid in streams:
                ops.append("c:gw%d:10000000" % sid)
        server_split = set()
        if not early and not bp and rng.random() < 0.35:
            # the application reads the beginning of the body from the whole stream, splits it in the middle of
            # a DATA frame, and goes on reading from the receive half
            for sid in streams:
                ops += [">%d:%d" % (sid, rng.choice([40, 60, 100, 300, 1000])), "s.q%d.res" % sid, "s.q%d.rd" % sid, "s.q%d.sp" % sid]
                server_split.add(sid)
        ops.append(relay(">"))
        for sid in streams:
            if not early and sid not in server_split:
                ops.append("s.q%d.res" % sid)
            if sid not in early_rm:
                ops.append("s.q%d.rm" % sid)
        # responses
        for sid in streams:
            sender = "s.q%ds" % sid if sid in server_split else "s.q%d" % sid
            ops.append("%s.sr:%d:%s" % (sender, rng.choice(STATUS), self.headers(rng)))
            if sbp:
                for k in (rng.choice([1, 3]), 10000000):
                    ops.append("s:gw%d:%d" % (sid, k))
            if sid in server_split:
                sender = "s.q%ds" % sid
            elif rng.random() < 0.3:
                ops.append("s.q%d.sp" % sid)
                sender = "s.q%ds" % sid
            for p in self.body_pieces(rng, big):
                ops.append("%s.sd:%s" % (sender, p))
                if rng.random() < 0.3:
                    ops.append(relay("<"))
            if rng.random() < 0.4:
                ops.append("%s.st:%s" % (sender, self.headers(rng, 3)))
            ops.append("%s.fi" % sender)
            if rng.random() < 0.5:
                ops.append("c.q%d.rr" % sid)
                if rng.random() < 0.5:
                    ops.append("c.q%d.rm" % sid)
                    for _ in range(rng.randrange(0, 6)):
                        ops.append("<%d:%d" % (sid, rng.choice([1, 2, 3, 5, 9, 17, 40, 200])))
        ops.append(relay("<"))
        for sid in streams:
            ops += ["c.q%d.rr" % sid, "c.q%d.rm" % sid]
        # a second rr is answered no-task? no: rr twice would read the next frame; avoid duplicates
        seen_rr = set()
        out = []
        for op in ops:
            if op.endswith(".rr") or re.match(r"^c\.q\d+\.rm$", op):
                if op in seen_rr:
                    continue
                seen_rr.add(op)
            out.append(op)
        return "e2e %s %s %s" % (ccfg, scfg, " ".join(out))

    def many_fields_case(self):
        """D-01 (repaired): a request and a response with more than 24576 fields each — values under one
        name, statically indexed so that the sections stay small — must be delivered like any other."""
        req = ";".join(["accept=2a2f2a"] * 24573)          # + 4 pseudo-header fields = 24577 fields
        resp = ";".join(["vary=6f726967696e"] * 24580)
        return ("e2e g0,seed=1 g0 >> << s.conn.AL c.drv.W c.snd.R:GET:%s:%s c.q0.sd:0102 c.q0.fi >> s.q0.res s.q0.rm "
                "s.q0.sr:200:%s s.q0.sd:03 s.q0.fi << c.q0.rr c.q0.rm" % (hexs("https://a.b/"), req, resp))

    def cases(self, tier, rng):
        big = tier == "thorough"
        return [self.one_case(rng, big) for _ in range(4000 if big else 700)] + [self.many_fields_case()]

    def shrink_candidates(self, line):
        w = line.split()
        ops = w[3:]
        out = []
        for i in range(len(ops)):
            if ops[i] in ("s.conn.AL", "c.drv.W"):
                continue
            out.append(" ".join(w[:3] + ops[:i] + ops[i + 1:]))
        return out


PROP = C01()
