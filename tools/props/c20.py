import re

import vlib
from vlib import Prop


def hx(s):
    if isinstance(s, str):
        s = s.encode()
    return "".join("%02x" % b for b in s) or "-"


# small alphabet: two plain names, one longer plain name, names from the static table (name-only and
# exact matches), values that differ in length so that entry sizes differ
NAMES = ["a", "b", "xy", ":method", "accept", ":path"]
VALUES = ["", "1", "2", "33", "GET", "/", "*/*", "zzzzzzzz"]


def field(rng, names=NAMES, values=VALUES):
    return (rng.choice(names), rng.choice(values))


def fields_tok(fs):
    return ",".join("%s=%s" % (hx(n), hx(v)) for n, v in fs)


CAPS = [0, 31, 33, 34, 35, 36, 40, 68, 69, 70, 100, 102, 136, 200, 340, 1000, 2210, 4096]
BLOCKED = [0, 1, 2, 100]


class Hist:
    """One history under construction."""

    def __init__(self, rng, cap, bl):
        self.rng, self.ops = rng, []
        self.cap, self.bl = cap, bl
        self.sids = []

    def enc(self, sid, fs):
        self.ops.append("enc:%d:%s" % (sid, fields_tok(fs)))
        if sid not in self.sids:
            self.sids.append(sid)

    def line(self):
        return "dyn %d %d %s" % (self.cap, self.bl, " ".join(self.ops))


WIDE_VALUES = ["%02d" % i for i in range(100)]


def workload(rng, n, small, wide=False):
    """n field sections; `small` = tiny alphabet (forces duplicates / name refs / evictions);
    `wide` = many distinct values (forces many insertions: large Insert Count Increments)."""
    names = ["a", "b"] if small else NAMES
    values = ["1", "2", ""] if small else VALUES
    if wide:
        names, values = ["a", "b", "accept"], WIDE_VALUES
    secs = []
    sid = 0
    for _ in range(n):
        k = rng.choice([0, 1, 1, 2, 2, 3, 4, 6]) if not small else rng.choice([1, 1, 2, 3])
        if wide:
            k = rng.choice([2, 3, 4, 6, 8])
        fs = [field(rng, names, values) for _ in range(k)]
        secs.append((sid, fs))
        # mostly one section per stream, sometimes header + trailer (+ more) on the same stream
        if rng.random() < 0.7:
            sid += 4
    return secs


def schedule(rng, h, secs, style, capchg=False, cancel=False):
    for (sid, fs) in secs:
        h.enc(sid, fs)
        if capchg and rng.random() < 0.15:
            h.ops.append("cap:%d" % rng.choice([c for c in CAPS if c <= h.cap] + [h.cap]))
        if cancel and rng.random() < 0.1:
            h.ops.append("cancel:%d" % rng.choice(h.sids))
        if style == "sync":          # everything delivered at once, in the natural order
            h.ops += ["denc:99", "dblk:%d" % sid, "dack:99"]
        elif style == "blockfirst":  # header block always overtakes the encoder stream
            h.ops += ["dblk:%d" % sid, "denc:99", "dblk:%d" % sid, "dack:99"]
        elif style == "noack":       # acknowledgements never reach the encoder
            h.ops += ["denc:99", "dblk:%d" % sid]
        elif style == "late":        # nothing delivered until the end
            pass
        elif style == "cancelstorm":  # streams abandoned before anything is delivered; acks flow
            if rng.random() < 0.7:
                h.ops += ["cancel:%d" % sid, "dack:99"]
            else:
                h.ops += ["dblk:%d" % sid]
                if rng.random() < 0.5:
                    h.ops += ["denc:%d" % rng.choice([1, 2, 99]), "dblk:%d" % sid, "dack:99"]
        elif style == "trickle":     # one instruction at a time, blocks tried in between
            for _ in range(rng.randrange(0, 4)):
                h.ops.append("denc:1")
                h.ops.append("dblk:%d" % rng.choice(h.sids))
            if rng.random() < 0.5:
                h.ops.append("dack:%d" % rng.randrange(1, 3))
        else:                        # random
            for _ in range(rng.randrange(0, 5)):
                r = rng.random()
                if r < 0.35:
                    h.ops.append("denc:%d" % rng.choice([1, 1, 2, 3, 99]))
                elif r < 0.7:
                    h.ops.append("dblk:%d" % rng.choice(h.sids))
                else:
                    h.ops.append("dack:%d" % rng.choice([1, 1, 2, 99]))
    # drain: everything is delivered in the end; every stream polled often enough to finish
    if style == "late":
        h.ops.append("denc:%d" % rng.choice([99, 64, 65, 1000]))
    else:
        h.ops.append("denc:1000")
    per = {}
    for (sid, _) in secs:
        per[sid] = per.get(sid, 0) + 1
    polls = [sid for sid, k in per.items() for _ in range(k)]
    rng.shuffle(polls)
    h.ops += ["dblk:%d" % sid for sid in polls]
    h.ops.append("dack:1000")


def cut_deliveries(rng, ops, inner=True):
    """Every `denc:<k>` but the last (the drain) becomes, with probability 0.7, a delivery in chunks: `denc:<k>@<j>.<m>,…`
    (j = instruction of that delivery, m = 0 boundary in front of it, m >= 1 inside it).  A cut inside an instruction makes
    the real decoder stop in front of it (D-20f); the instructions left are handed over again by the next `denc`, at the
    latest by the whole drain.  With probability 0.3 a cut drain is put in front of the whole one.
    `inner=False`: cuts at instruction boundaries only (must change nothing)."""
    def cuts():
        n = rng.choice([1, 1, 2, 3])
        return ",".join("%d.%d" % (rng.choice([0, 0, 1, 1, 2, 3, 5, 8]), rng.choice([0, 1, 1, 2, 3, 7]) if inner else 0)
                        for _ in range(n))
    idx = [i for i, o in enumerate(ops) if o.startswith("denc:")]
    out = list(ops)
    for i in idx[:-1]:
        if rng.random() < 0.7:
            out[i] = "%s@%s" % (ops[i], cuts())
    if idx and rng.random() < (0.3 if inner else 1.0):
        out.insert(idx[-1], "%s@%s" % (ops[idx[-1]], cuts()))
    return out


STYLES = ["sync", "blockfirst", "noack", "late", "trickle", "random", "random", "random"]


class C20(Prop):
    id = "C20"
    thorough_rounds = 3   # thorough tier: this many independently seeded rounds of the random generators (duplicates dropped)
    modules = ["H3.Props.C20", "H3.Lemmas.GenAgreeQpack"]
    engines = ["dyn"]
    design_ref = "DESIGN.md section 7, C20"
    level_text = ("Lean theorems, unbounded, over an executable model of vas.rs / dynamic.rs / HeaderPrefix / Encoder::encode / "
                  "Decoder::{on_encoder_recv,decode_header} / Encoder::on_decoder_recv and of the connected system (step relation over "
                  "encode | deliverEnc | deliverBlock | deliverAck | setCapacity | cancel; induction over the event list): "
                  "capacity_invariant (size accounting, curr_size <= max_size <= 2^30-1, inserted-dropped = entries, no panic site reachable "
                  "from encode/on_encoder_recv/on_decoder_recv/set_dynamic_table_size), no_evict_referenced (track_map = sum of the tracked "
                  "blocks' maps = unreleased blocks; referenced entries live; no step evicts a referenced entry), tables_agree (both tables "
                  "refine the RFC-level abstract table replayed over the instruction log, decoder at its delivered prefix) for ALL histories; "
                  "blocked_or_exact_partial (exact original fields iff decoder has >= Required Insert Count insertions, MissingRefs otherwise; "
                  "RIC = RFC's; representations denote the originals in the oracle table) for histories without capacity change and without "
                  "stream cancellation, with decide-witnesses that it fails with either (D-20c, D-20d); prefix_roundtrip and prefix_matches_rfc "
                  "(HeaderPrefix::get . new = id in the RFC window; agreement with the RFC 9204 4.5.1.1 pseudo-code); ack_delivery_total "
                  "(in plain histories Encoder::on_decoder_recv accepts whatever the decoder wrote, in every batching: no UnknownStreamId, "
                  "no InvalidTrackingCount, no panic site) and plain_history_total (a history without capacity change and cancellation "
                  "never ends in an error: the hypothesis `run s0 evs = some s` of the other theorems excludes nothing there); "
                  "cut_delivery_partial (the encoder stream handed over in a Buf of several chunks is a whole delivery of a prefix of the "
                  "instructions, and of all of them when no cut lies inside an instruction) with the decide-witness D20f (an instruction "
                  "crossing a chunk boundary is never parsed); O20e_blocked_limit_witness (more streams at risk of blocking than the limit: "
                  "observation, RFC 9204 2.1.2, not in the property's text)")
    level_note = ("trusted: Lean kernel + 3 standard axioms; instruction-level model (byte codecs of stream.rs/block.rs are exercised by the "
                  "correspondence run through the real bytes, not modelled: C15/C11's subject); model tied to the code by differential runs "
                  "of whole histories (real Encoder/Decoder driven through the cfg(hyperium_h3_verif) hook, every emitted instruction and "
                  "representation, every decode result and the complete final table states compared); HashMap iteration order only matters "
                  "on the failing track_cancel branch, proved unreachable; usize counters are Nat (sizes bounded by 2^30-1 by theorem, "
                  "insert counters assumed < 2^64); static table soundness (find/find_name vs table) by kernel decide on the extracted tables; "
                  "two defects fixed in the repository (D-20a increment > 64, D-20b capacity below referenced entries), two open findings "
                  "(D-20c, D-20d) outside the property's stated quantifier (capacity changes, stream cancellation), one open finding on the "
                  "delivery of the encoder stream in a multi-chunk Buf (D-20f); the blocked-stream limit is a parameter of the histories, "
                  "not a demand of the oracle (reading R-20 / observation O-20e: state mark ~blk<n> compared between code and model, one NOTE per run)")
    rule = ("cases: whole histories `dyn <capacity> <blocked limit> <ops>`: 1..40 field sections over small alphabets (2 names x 3 values; "
            "6 names x 8 values incl. static-table names and exact static matches) plus wide workloads (300 distinct fields) for large "
            "increments; capacities {0,31,33..36,40,68..70,100,102,136,200,340,1000,2210,4096}; blocked limits {0,1,2,100}; stream ids "
            "reused for header+trailer; schedules sync / block-before-instructions / no acks / nothing delivered until the end / one "
            "instruction at a time / random / cancel storms, all followed by a drain; every 10th history with capacity changes, every "
            "10th with cancellations; corpus of the four defects first. non-trivial = at least one section decoded successfully (B:ok). "
            "Known findings are applied per OP: the model puts `#D-20c` / `#D-20d` on the status token of the deliverBlock whose result the "
            "defect makes wrong (section encoded under another capacity than the decoder's; encoder evicted unreceived entries and the "
            "section's Required Insert Count is beyond the reconstruction window; later deliverBlocks of a stream whose queue a tagged op "
            "left out of step with the oracle's) and a mismatch is waived only if every mismatching op carries such a tag; every 8th "
            "history delivers the encoder stream in chunks (`denc:<k>@<j>.<m>,...`: 1..3 cuts per delivery, in front of or inside an "
            "instruction; every 40th: at instruction boundaries only), the real `on_encoder_recv` gets a Buf whose chunk() ends at the "
            "next cut and is called twice; `#D-20f` on the status token of a delivery that leaves complete instructions unparsed (`X:stall`)")
    trusted = ["harness-side parser of the encoder stream / header blocks into instruction texts (uses the repository's own prefix_int/"
               "prefix_string decoders, C15)",
               "static table contents (C11's subject) shared by model and oracle; only find/find_name soundness is proved here"]
    assumptions = ["header blocks of one stream are decoded in order (QUIC stream order); a section is acknowledged (ack_header) exactly "
                   "when Decoded::dyn_ref is set, as RFC 9204 4.4.1 prescribes",
                   "tables are configured as in h3's own tests: set_max_size/set_max_blocked on both tables before wrapping them",
                   "insert counters stay below 2^64 (usize); table sizes are bounded by 2^30-1 by theorem",
                   "Encoder::encode's error paths (Huffman/string encoding failures) do not occur: strings are abstract in the model",
                   "a refused set_dynamic_table_size (error, table unchanged) does not end the history"]

    def cases(self, tier, rng):
        L = []
        big = tier == "thorough"
        # fixed small histories first
        L.append("dyn 4096 100 enc:0:61=31,62=32 dblk:0 denc:1 dblk:0 denc:5 dblk:0 dack:5 enc:0:61=31 dblk:0 dblk:4")
        L.append("dyn 0 100 enc:0:61=31,62=32 dblk:0")
        n_hist = 40000 if big else 4000
        for j in range(n_hist):
            cap = rng.choice(CAPS)
            bl = rng.choice(BLOCKED)
            n = rng.choice([1, 2, 3, 5, 8, 13, 20, 40]) if j % 3 else rng.randrange(1, 41)
            small = rng.random() < 0.5
            wide = j % 25 == 3          # many insertions outstanding: capacity 4096, nothing delivered for long
            style = rng.choice(STYLES)
            if wide:
                cap, bl, n, style = rng.choice([2210, 4096]), 100, rng.choice([20, 30, 40]), rng.choice(["late", "late", "noack", "random"])
            if j % 20 == 19:
                style, cap = "cancelstorm", rng.choice([35, 69, 70, 102, 136])
            h = Hist(rng, cap, bl)
            schedule(rng, h, workload(rng, n, small, wide), style,
                     capchg=(j % 10 == 7 and not wide), cancel=(j % 10 == 9 and not wide))
            # every 8th history: the encoder stream reaches the decoder in chunks that cut instructions (bC12);
            # every 40th: in chunks that end at instruction boundaries
            if j % 8 == 5:
                h.ops = cut_deliveries(rng, h.ops, inner=(j % 40 != 5))
            L.append(h.line())
        return L

    def extra(self, tier, rng, ctx):
        """O-20e: one NOTE per run with the number of histories in which more streams could become blocked than the
        blocked-stream limit allows (RFC 9204 2.1.2; state mark `~blk<n>`, compared between implementation and model)."""
        over, worst, first = 0, 0, None
        small = 0
        for l, im in zip(ctx["lines"], ctx["impl"]):
            ns = [int(m) for m in re.findall(r"~blk(\d+)", im)]
            if ns:
                over += 1
                worst = max(worst, max(ns) - int(l.split()[2]))
                small += l.split()[2] in ("1", "2")
                if first is None or len(l) < len(first):
                    first = l
        msg = ("O-20e (RFC 9204 2.1.2, not part of C20's text): in %d of %d histories more streams could become blocked than "
               "SETTINGS_QPACK_BLOCKED_STREAMS allows (`~blk<n>`; %d of them with limit 1 or 2; largest excess %d)"
               % (over, len(ctx["lines"]), small, worst))
        if first:
            msg += "; shortest: `%s`" % first
        return [("note", msg, None)]

    # ------------------------------------------------------------------ known findings, per op
    TAG = re.compile(r"#D-[0-9a-z]+")
    STATUS = re.compile(r"^[EXBACK]:[a-z]+")

    def project(self, line, impl):
        """The harness evaluates the two defect predicates on the REAL state and prints them as `#D-…`; which op a
        recorded defect makes wrong is the model's statement (tag on the model's status token), so here they become
        plain state marks (`~20c`, `~20d`: compared with the model's) and are taken off the status tokens."""
        out = []
        for t in impl.split():
            if t.startswith("#D-"):
                out.append(t.replace("#D-", "~"))
            else:
                out.append(self.TAG.sub("", t))
        return " ".join(out)

    def mismatching_ops(self, impl, model, spec):
        """[(index of the op's status token, model status token)] for every op at which the implementation's answer
        does not match the specification (positions aligned token by token; a trailing `**` ends the comparison)"""
        it, mt, st = impl.split(), model.split(), spec.split()
        open_end = bool(st) and st[-1] == "**"
        if open_end:
            st = st[:-1]
        bad = set()
        for i in range(max(len(st), 0 if open_end else len(it))):
            a = st[i] if i < len(st) else None
            b = it[i] if i < len(it) else None
            if a is None and open_end:
                break
            if a is None or b is None or not vlib._tok_match(a, b):
                j = min(i, len(mt) - 1)
                while j > 0 and not (self.STATUS.match(mt[j]) or mt[j] == "end"):
                    j -= 1
                bad.add(j)
        return [(j, mt[j] if 0 <= j < len(mt) else "") for j in sorted(bad)]

    def finding_applies(self, line, impl, model, spec, finding):
        """Suppression per OP: the finding `site:<tag>` explains this line only if EVERY op whose answer mismatches the
        specification carries, on the model's status token, the tag of an open finding of C20, and `<tag>` is one of
        the tags that are needed.  A mismatch at an op without such a tag is not explained: the case is a failing input."""
        key = finding.get("key", "")
        if not key.startswith("site:"):
            return True
        listed = {f["key"][5:] for f in vlib.load_findings().get("findings", [])
                  if f.get("property") == self.id and f.get("status", "open") == "open" and f.get("key", "").startswith("site:")}
        ops = self.mismatching_ops(impl, model, spec)
        if not ops:
            return False
        used = set()
        for _, tok in ops:
            tags = set(re.findall(r"#(D-[0-9a-z]+)", tok)) & listed
            if not tags:
                return False
            used |= tags
        return key[5:] in used

    def klass(self, line, impl):
        toks = impl.split()
        kinds = set()
        for t in toks:
            if t[:2] in ("E:", "X:", "B:", "A:", "C:", "K:"):
                kinds.add(t)
            elif "~blk" in t:
                kinds.add("~blk")
                if t.startswith("~2"):
                    kinds.add(t.split("~blk")[0])
            elif t.startswith("~2"):
                kinds.add(t)
            elif t.startswith("n=") and ";inc=" in t:
                inc = t.split(";inc=")[1].split(";")[0]
                if inc != "-" and int(inc) > 64:
                    kinds.add("inc>64")
        tail = "halt" if "halt" in toks else "end"
        return tail + "/" + ",".join(sorted(k for k in kinds if k not in ("E:ok", "X:ok", "A:ok", "B:skip")))

    def trivial(self, line, impl):
        return "B:ok" not in impl.split()

    def shrink_candidates(self, line):
        w = line.split()
        head, ops = w[:3], w[3:]
        out = []
        # drop one op (keeping block indices consistent is the engine's business: dblk of a
        # missing block is a skip), drop one field of an enc op
        for i in range(len(ops) - 1, -1, -1):
            out.append(" ".join(head + ops[:i] + ops[i + 1:]))
        for i, o in enumerate(ops):
            if o.startswith("denc:") and "@" in o:
                k, cs = o.split("@", 1)
                out.append(" ".join(head + ops[:i] + [k] + ops[i + 1:]))
                cl = cs.split(",")
                for c in range(len(cl)):
                    if len(cl) > 1:
                        out.append(" ".join(head + ops[:i] + ["%s@%s" % (k, ",".join(cl[:c] + cl[c + 1:]))] + ops[i + 1:]))
            if o.startswith("enc:"):
                _, sid, fs = o.split(":", 2)
                fl = [f for f in fs.split(",") if f]
                for k in range(len(fl)):
                    out.append(" ".join(head + ops[:i] + ["enc:%s:%s" % (sid, ",".join(fl[:k] + fl[k + 1:]))] + ops[i + 1:]))
        return out


PROP = C20()
