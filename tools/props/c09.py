import itertools
import re

from vlib import Prop
from props.c08 import HOK

HMAL = "01030000d1"     # valid QPACK, no :scheme/:path  -> H3_MESSAGE_ERROR (stream error)
HQPACK = "01030000ff"   # truncated QPACK index          -> QPACK_DECOMPRESSION_FAILED (connection error)
FDATA = "0001aa"        # DATA before HEADERS            -> H3_FRAME_UNEXPECTED (connection error)
GOAWAY = "s2:070100"    # peer GOAWAY(0) on its control stream


def endings(i):
    """name -> ops that make request i end (or not), after `o<i>` and the accept that hands it out"""
    q = "q%d" % i
    return {
        "finished": ["s%d:%s" % (i, HOK), q + ".res", q + ".sr:200:-", q + ".fi", q + ".dr"],
        "resolver-dropped": [q + ".dr"],
        "killed-while-resolving": [q + ".res", q + ".kill?"],
        "fin-before-headers": ["f%d" % i, q + ".res"],
        "fin-while-resolving": [q + ".res", "f%d" % i],
        "reset-before-headers": ["r%d:5" % i, q + ".res"],
        "reset-while-resolving": [q + ".res", "r%d:5" % i],
        "reset-after-headers": ["s%d:%s" % (i, HOK), q + ".res", "r%d:5" % i, q + ".rd", q + ".dr"],
        "malformed-headers": ["s%d:%s" % (i, HMAL), q + ".res"],
        "split-recv-first": ["s%d:%s" % (i, HOK), q + ".res", q + ".sp", q + ".dr", q + "s.dr"],
        "split-send-first": ["s%d:%s" % (i, HOK), q + ".res", q + ".sp", q + "s.fi", q + "s.dr", q + ".dr"],
        "split-killed": ["s%d:%s" % (i, HOK), q + ".res", q + ".sp", q + "s.kill?", q + ".kill?"],
        # not ended: accept must keep waiting
        "alive-resolver": [],
        "alive-stream": ["s%d:%s" % (i, HOK), q + ".res", q + ".sr:200:-", q + ".fi"],
        "alive-one-half": ["s%d:%s" % (i, HOK), q + ".res", q + ".sp", q + ".dr"],
        "alive-after-reset": ["s%d:%s" % (i, HOK), q + ".res", "r%d:5" % i, q + ".rd"],   # R-09: reset by the peer, handle still held
        # connection errors: accept reports the error instead
        "qpack-garbage": ["s%d:%s" % (i, HQPACK), q + ".res"],
        "data-before-headers": ["s%d:%s" % (i, FDATA), q + ".res"],
        "truncated-frame": ["s%d:0103" % i, "f%d" % i, q + ".res"],
    }


ENDED = ["finished", "resolver-dropped", "killed-while-resolving", "fin-before-headers", "fin-while-resolving",
         "reset-before-headers", "reset-while-resolving", "reset-after-headers", "malformed-headers",
         "split-recv-first", "split-send-first", "split-killed"]
ALIVE = ["alive-resolver", "alive-stream", "alive-one-half", "alive-after-reset"]
CONNERR = ["qpack-garbage", "data-before-headers", "truncated-frame"]


def interleave(seqs, rng):
    seqs = [list(s) for s in seqs if s]
    out = []
    while seqs:
        s = rng.choice(seqs)
        out.append(s.pop(0))
        if not s:
            seqs.remove(s)
    return out


class C09(Prop):
    id = "C09"
    thorough_rounds = 8   # thorough tier: this many independently seeded rounds of the random generators (duplicates dropped)
    modules = ["H3.Props.C09", "H3.Lemmas.GenAgreeGoaway", "H3.Lemmas.GenAgreeDrain"]
    engines = ["drain"]
    design_ref = "DESIGN.md section 7, C09; section 8, D-09"
    level_text = ("Lean theorems over a model of ongoing_streams, the request-end channel, the Arc<RequestEnd> owners (resolver, "
                  "stream, halves), poll_requests_completion, the Ok(None) decision of accept and the wake-up of the task awaiting "
                  "accept: for every history (any number of requests, any interleaving of arrivals, accept calls, polls, split, "
                  "handle drops, peer GOAWAY, connection errors) accept never returns None while a handle of a request it handed "
                  "out is live nor before the peer's GOAWAY, and whenever the GOAWAY is in, no handle is live and nothing waits in "
                  "the transport, an outstanding accept has been woken and its next poll returns None (invariant: every id in "
                  "ongoing_streams has a live handle or its end notification is in the channel, and a non-empty channel means the "
                  "accept task is woken)")
    level_note = ("trusted: Lean kernel + 3 standard axioms; hand model tied to the code by running a real h3::server::Connection "
                  "over SimQuic with a scripted executor that polls only woken tasks (a lost wake-up or a missing end notification "
                  "shows as `pending` at quiescence); tokio's unbounded mpsc is assumed FIFO and to wake the receiver's registered "
                  "waker on send; every way of ending a request is one or more `dropHandle` events (Drv/C09.lean maps the scenario "
                  "ops to them); no local shutdown() in this model: the Ok(None) of the reject path is C08's acceptLoop "
                  "(C08_accept_none_only_when_drained), its completion test on this model's states is C09_completion_test_never_early")
    rule = ("cases: 0..2 requests x all pairs of the 19 endings (12 that end the request, 4 that keep it alive although it is "
            "finished / reset by the peer / half dropped (R-09: ended = every handle dropped), 3 connection "
            "errors) run one after the other, peer GOAWAY at every position, accept loop conn.AL or single conn.A calls; "
            "3..4 requests (thorough: up to 6) with random endings, random interleavings of the per-request ops, GOAWAY at "
            "sampled positions, executor seeds 0..3; many requests (both tiers; the sentence is universal, the quantifier's "
            "0..4 is not a bound of the mechanism): 129, 130, 200, 300 and 2 000 requests, each handed out by its own accept() call, "
            "left as resolver / answered and finished / reset by the peer after its headers, then EVERY handle dropped while no "
            "accept() is outstanding (i.e. between two polls of accept), peer GOAWAY before or after the drops, one more "
            "accept(): it must answer None (a bounded or lossy request-end queue shows as pend=1); "
            "non-trivial = accept returned at least one request and the line contains a GOAWAY")
    trusted = ["tokio::sync::mpsc unbounded channel: FIFO, send wakes the receiver's registered waker"]
    assumptions = ["the transport never hands out the same stream ID twice", "API calls are awaited to completion (R-14)",
                   "the control stream has write credit for the final GOAWAY of accept()"]

    def project(self, line, impl):
        if " | " not in impl:
            return impl
        trace, summ = impl.split(" | ", 1)
        toks = [t for t in trace.split() if t.startswith("conn.A=")]
        pend = "0"
        for t in summ.split():
            if t.startswith("pending=["):
                pend = "1" if "conn.A" in t[len("pending=["):-1].split(",") else "0"
        if "conn.A=none" in toks:
            # the documented pattern ends at the first None (R-08); later calls are C08's (accept's final shutdown(0))
            toks = toks[:toks.index("conn.A=none") + 1]
            pend = "0"
        return "%s pend=%s" % (" ".join(toks) if toks else "-", pend)

    def line(self, ops, seed=0):
        cfg = "g0" if seed == 0 else "g0,seed=%d" % seed
        return " ".join(["drain", "server", cfg, "o2", "s2:000400"] + ops)

    def many(self, n, goaway="after", ending="resolver-dropped", seed=0):
        """n requests accepted one by one, then all their handles go while accept() is not being polled"""
        ops, drops = [], []
        for k in range(n):
            i = 4 * k
            ops += ["o%d" % i, "conn.A"]
            e = endings(i)[ending]
            ops += e[:-1]          # everything but the final drop of the (last) handle
            drops.append(e[-1])
        ops += ([GOAWAY] + drops) if goaway == "before" else (drops + [GOAWAY])
        return self.line(ops + ["conn.A"], seed=seed)

    def many_cases(self):
        # the counts 129 / 130 / 200 / 300 straddle the constant of ONE seeded change (a queue of 128); that the queue has no
        # capacity at all is not sampled but READ from the source on every run (tools/extract.py `drain_arms` ->
        # H3/Gen/DrainArms.lean, lemmas H3/Lemmas/GenAgreeDrain.lean: `mpsc::unbounded_channel()`, the body of `Drop for
        # RequestEnd`, the `Arc` shared by `split()`).  The 2 000-request lines are an order of magnitude away from any small
        # constant (stream ids up to 7 996; ~0.8 s per line through h3drv, ~0.05 s through h3run).
        return [self.many(130), self.many(300),
                self.many(129, goaway="before"), self.many(130, goaway="before", seed=2),
                self.many(130, ending="finished", seed=1), self.many(200, ending="reset-after-headers", seed=3),
                self.many(2000), self.many(2000, goaway="before", seed=1)]

    def cases(self, tier, rng):
        big = tier == "thorough"
        L, seen = [], set()

        def add(l):
            if l not in seen:
                seen.add(l)
                L.append(l)

        # D-09 witnesses first
        add(self.line(["o0", "conn.A", "q0.dr", GOAWAY, "conn.A"]))
        add(self.line(["o0", "conn.A", "f0", "q0.res", GOAWAY, "conn.A"]))
        add(self.line(["o0", "conn.A", "r0:5", "q0.res", GOAWAY, "conn.A"]))
        add(self.line(["o0", "conn.A", "q0.res", "conn.A", GOAWAY, "q0.kill?"]))
        add(self.line(["conn.AL", GOAWAY]))
        add(self.line([GOAWAY, "conn.A", "conn.A"]))

        # many requests (the sentence is universal, the model unbounded): n requests all handed out by single accept()
        # calls, every handle dropped while no accept() is outstanding (= between two polls of accept), peer GOAWAY,
        # one more accept(): it must answer None.  A bounded or lossy request-end queue shows as pend=1.
        for l in self.many_cases():
            add(l)

        all_names = ENDED + ALIVE + CONNERR

        def seq_ops(names, drv):
            """requests one after the other"""
            ops = ["conn.AL"] if drv == "AL" else []
            for k, name in enumerate(names):
                i = 4 * k
                ops.append("o%d" % i)
                if drv == "A":
                    ops.append("conn.A")
                ops += endings(i)[name]
            if drv == "A":
                ops.append("conn.A")
            return ops

        # 0..2 requests, every pair of endings, GOAWAY at every position
        for n in range(0, 3):
            for names in itertools.product(all_names, repeat=n):
                for drv in ("AL", "A"):
                    base = seq_ops(names, drv)
                    positions = list(range(len(base) + 1))
                    for pos in positions:
                        add(self.line(base[:pos] + [GOAWAY] + base[pos:], seed=rng.choice([0, 0, 1, 2, 3])))
                    if rng.random() < 0.1:
                        add(self.line(base))  # no GOAWAY at all: accept keeps waiting

        # 3..4 (6) requests, random endings, random interleavings
        for _ in range(20000 if big else 4000):
            n = rng.randrange(3, 7 if big else 5)
            r = rng.random()
            pool = ENDED if r < 0.6 else ENDED + ALIVE if r < 0.9 else all_names
            names = [rng.choice(pool) for _ in range(n)]
            drv = "AL" if rng.random() < 0.7 else "A"
            per = []
            for k, name in enumerate(names):
                i = 4 * k
                per.append(["o%d" % i] + (["conn.A"] if drv == "A" else []) + endings(i)[name])
            body = interleave(per, rng)
            ops = (["conn.AL"] if drv == "AL" else []) + body
            if drv == "A":
                ops.insert(rng.randrange(len(ops) // 2, len(ops) + 1), "conn.A")
            for _g in range(2):
                pos = rng.randrange(0, len(ops) + 1)
                ops2 = ops[:pos] + [GOAWAY] + ops[pos:]
                if rng.random() < 0.15:
                    p2 = rng.randrange(pos + 1, len(ops2) + 1)
                    ops2 = ops2[:p2] + [GOAWAY] + ops2[p2:]   # a second, equal GOAWAY is legal
                add(self.line(ops2, seed=rng.choice([0, 1, 2, 3])))
            add(self.line(ops + [GOAWAY], seed=rng.choice([0, 1, 2, 3])))
        return L

    def klass(self, line, impl):
        t = impl.split()
        if not t or not t[-1].startswith("pend="):
            return t[0] if t else "empty"
        nreq = sum(1 for x in t if x.startswith("conn.A=req"))
        return "req=%d/none=%d/err=%d/%s/goaway=%d" % (min(nreq, 4), int("conn.A=none" in t), int(any(x.startswith("conn.A=err") for x in t)),
                                                       t[-1], int(GOAWAY in line.split()))

    def trivial(self, line, impl):
        t = impl.split()
        if not t or not t[-1].startswith("pend="):
            return True
        return not (any(x.startswith("conn.A=req") for x in t) and GOAWAY in line.split())

    def shrink_candidates(self, line):
        w = line.split()
        out = []
        # whole requests at once (a request = its open, its accept() when it follows directly, everything on its stream
        # and of its tasks).  Long "many requests" lines come down to the boundary count by halving; there only a few
        # removals are tried (every process start costs ~0.1 s), so the result is small but not token-minimal.
        ids = [int(t[1:]) for t in w[5:] if re.fullmatch(r"o\d+", t)]

        def without(gone):
            gone = set(gone)
            keep, skip_accept = [], False
            for t in w[5:]:
                if skip_accept and t == "conn.A":
                    skip_accept = False
                    continue
                skip_accept = False
                m = re.fullmatch(r"(?:[of](\d+)|[sr](\d+):.*|q(\d+)s?\..*)", t)
                i = int(next(g for g in m.groups() if g is not None)) if m else None
                if i is not None and i in gone:
                    skip_accept = t.startswith("o")
                    continue
                keep.append(t)
            return " ".join(w[:5] + keep)

        n = len(ids)
        if n > 16:
            for parts in (2, 4, 8, 16):
                size = n // parts
                for k in range(parts):
                    out.append(without(ids[k * size:(k + 1) * size]))
            for size in (4, 2, 1):
                out.append(without(ids[:size]))
                out.append(without(ids[-size:]))
        elif n > 1:
            for i in ids:
                out.append(without([i]))
        if len(w) <= 120:
            for i in range(5, len(w)):
                out.append(" ".join(w[:i] + w[i + 1:]))
        if len(w) > 2 and w[2] != "g0":
            out.append(" ".join(w[:2] + ["g0"] + w[3:]))
        return out


PROP = C09()
