from vlib import Prop
from props.c16 import hx


class C18(Prop):
    id = "C18"
    thorough_rounds = 2   # thorough tier: this many independently seeded rounds of the random generators (duplicates dropped)
    modules = ["H3.Props.C18"]
    engines = ["dgram", "wt"]
    design_ref = "DESIGN.md section 7, C18"
    level_text = ("Lean theorems over a model of Datagram::{new,encode,decode} and EncodedDatagram's Buf impl: wire bytes = "
                  "varint(S/4) ++ P for every S < 2^62 divisible by 4 and every payload; the Buf view (remaining/chunk/advance) "
                  "yields exactly those bytes under every consumption pattern (induction over the call list); decode∘encode = id; "
                  "decode is total: H3_DATAGRAM_ERROR iff varint truncated or 4q > 2^62-1, no u64 wrap; the same model and oracle "
                  "also answer for DatagramSender::send_datagram / DatagramReader::read_datagram of a WebTransport session over the "
                  "simulated transport (engine wt)")
    level_note = ("trusted: Lean kernel + 3 standard axioms; model tied to the code by differential run (k in 0..2^16 exhaustively, "
                  "form boundaries, payloads 0..1500, consumption patterns, all byte strings of length 0..2 for decode); payload "
                  "Buf modelled as one contiguous Bytes; h3-quinn's send path (copy_to_bytes of the Buf) covered by the Buf-view theorem; "
                  "engine wt: real h3-webtransport session over SimQuic — datagram_sender().send_datagram for CONNECT ids in every "
                  "varint form of the quarter id, datagram_reader().read_datagram on well-formed and malformed datagrams, and the "
                  "connection close with H3_DATAGRAM_ERROR that the next accept of the session reports")
    rule = ("cases: enc for S=4k, k in 0..2^16 exhaustive + form boundaries + random k, payload lengths 0..1500, consumption "
            "patterns all/bytewise/random; dec for all strings of length 0..2, every first byte x truncation, random 0..9 bytes; "
            "non-trivial = implementation result starts with ok or err (not bad-op/refused/panic); wt lines: 1..6 datagram "
            "operations per session (send 0..1500 bytes; receive for the session, for other ids, truncated quarter id incl. the "
            "empty datagram, quarter id >= 2^60), non-trivial = the session was accepted")
    trusted = ["bytes::Bytes Buf impl for the payload"]
    assumptions = ["payload Buf is contiguous (Bytes); a multi-chunk payload Buf is forwarded unchanged by chunk/advance"]

    def cases(self, tier, rng):
        L = []
        big = tier == "thorough"
        pats = ["all", "1", "1,1,1,1,1,1,1,1,1,1,1,1", "0,1,0,2", "3,100"]
        ks = list(range(0, 2**16 + 1))
        for b in (63, 64, 16383, 16384, 2**30 - 1, 2**30, 2**60 - 1, 2**60 - 2):
            ks.append(b)
        for _ in range(20000 if big else 2000):
            ks.append(rng.getrandbits(rng.choice([6, 14, 30, 60, 60])))
        for i, k in enumerate(ks):
            n = rng.choice([0, 1, 2, 3, 8, 20]) if i % 50 else rng.choice([0, 100, 1200, 1500])
            p = [rng.randrange(256) for _ in range(n)]
            r = rng.random()
            if r < 0.45:
                pat = rng.choice(pats)
            elif r < 0.6:
                pat = ",".join(str(rng.randrange(0, 6)) for _ in range(rng.randrange(1, 12)))
            else:
                # reads that cross chunk boundaries and direct advances, incl. a partial advance inside the
                # header followed by one that crosses into the payload
                pat = ",".join(rng.choice(["r", "a", "a", ""]) + str(rng.choice([0, 1, 1, 2, 3, 4, 7, 9, 40]))
                               for _ in range(rng.randrange(1, 6)))
            L.append("dgram enc %d %s %s" % (4 * k, hx(p), pat))
        for s in (1, 2, 3, 5, 2**62, 2**62 + 4, 2**64 - 4, 2**62 - 4):
            L.append("dgram enc %d 00 all" % s)
        L.append("dgram dec -")
        for a in range(256):
            L.append("dgram dec %02x" % a)
            for b in range(256):
                L.append("dgram dec %02x%02x" % (a, b))
        for a in range(256):
            for n in range(0, 10):
                bs = [a] + [rng.randrange(256) for _ in range(n)]
                L.append("dgram dec " + hx(bs))
                L.append("dgram dec " + hx([a] + [0xff] * n))
        for _ in range(100000 if big else 10000):
            n = rng.randrange(0, 10)
            L.append("dgram dec " + hx([rng.randrange(256) for _ in range(n)]))
        # the observation point "DatagramSender / DatagramReader over the simulated transport" (engine wt, shared with C19)
        from props.c19 import PROP as C19P
        for _ in range(30000 if big else 3000):
            L.append(C19P.one_case_dg(rng))
        return L

    def project(self, line, impl):
        if line.startswith("wt "):
            from props.c19 import PROP as C19P
            return C19P.project(line, impl)
        return impl

    def klass(self, line, impl):
        w = line.split()
        if w[0] == "wt":
            k = []
            if "conn.dgs=ok" in impl:
                k.append("send")
            if "conn.dgr=dg:" in impl:
                k.append("recv")
            if "conn.dgr=err:conn:local:H3_DATAGRAM_ERROR" in impl:
                k.append("recv-error")
            if "closed=[51]" in impl:
                k.append("closed")
            return "wt/" + ("+".join(k) if k else impl.split(" ")[0])
        r = impl.split(" ")[0]
        if w[1] == "dec":
            tag = "empty" if w[2] == "-" else "form%d" % (int(w[2][:2], 16) >> 6)
            return "dec/%s/%s" % (tag, r)
        return "enc/" + r

    def trivial(self, line, impl):
        if line.startswith("wt "):
            return "conn.WT=ok" not in impl
        return not (impl.startswith("ok") or impl.startswith("err"))

    def shrink_candidates(self, line):
        w = line.split()
        out = []
        if w[0] == "wt":
            from props.c19 import PROP as C19P
            return C19P.shrink_candidates(line)
        if w[1] == "enc":
            if w[3] != "-" and len(w[3]) > 2:
                out.append(" ".join(w[:3] + [w[3][:2], w[4]]))
            if w[3] != "-":
                out.append(" ".join(w[:3] + ["-", w[4]]))
            if w[4] != "all":
                out.append(" ".join(w[:4] + ["all"]))
        elif w[2] != "-" and len(w[2]) > 2:
            out.append("dgram dec " + w[2][:-2])
        return out


PROP = C18()
