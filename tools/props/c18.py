import re
from vlib import Prop
from props.c16 import hx


def enc_varint(v):
    if v < 64:
        return [v]
    if v < 2**14:
        return [0x40 | v >> 8, v & 255]
    if v < 2**30:
        return [0x80 | v >> 24, v >> 16 & 255, v >> 8 & 255, v & 255]
    return [0xc0 | v >> 56] + [(v >> s) & 255 for s in (48, 40, 32, 24, 16, 8, 0)]


QUARTERS = [0, 1, 15, 16, 63, 64, 4095, 4096, 16383, 16384, 2**28, 2**30 - 1, 2**30, 2**60 - 1]


def splits2(p):
    """every way to cut p into two non-empty pieces"""
    return [[p[:i], p[i:]] for i in range(1, len(p))]


def scen_case(rng):
    """`dgram scen`: DatagramSender / DatagramReader of a plain client / server connection over SimQuic; every answer
    the transport may give to send_datagram; the driver being polled or not while it happens."""
    role = rng.choice(["client", "client", "server"])
    t = "drv" if role == "client" else "conn"
    drv = "W" if role == "client" else "AL"

    def sid():
        r = rng.random()
        if r < 0.01:
            return rng.choice([1, 2, 3, 6, 2**62, 2**62 + 4])
        return 4 * (rng.choice(QUARTERS) if r < 0.7 else rng.getrandbits(rng.choice([6, 14, 30, 60])))

    def pay():
        return [rng.getrandbits(8) for _ in range(rng.choice([0, 0, 1, 2, 3, 20, 100]))]

    def send(maxed=False):
        s = sid()
        ps = [pay() for _ in range(rng.choice([1, 1, 1, 2, 3]))]
        pre = []
        if maxed and s % 4 == 0 and s < 2**62:
            w = len(enc_varint(s // 4)) + len(ps[0])
            pre = ["dq:max=%d" % max(0, w + rng.choice([-2, -1, 0, 0, 1, 2]))]
        return pre + ["%s.dgs:%d:%s" % (t, s, ",".join(hx(p) for p in ps))]

    def incoming():
        r = rng.random()
        if r < 0.6:
            return "d:" + hx(enc_varint(rng.choice(QUARTERS) if rng.random() < 0.7 else rng.getrandbits(rng.choice([6, 14, 30, 59]))) + pay())
        if r < 0.7:
            return "d:" + hx(enc_varint(rng.randrange(2**60, 2**62)) + pay())      # stream id beyond 2^62-1
        if r < 0.8:
            full = enc_varint(rng.choice([64, 16384, 2**30, 2**61]))
            return "d:" + hx(full[:rng.randrange(0, len(full))])                 # truncated integer (incl. the empty datagram)
        return "d:" + hx([rng.getrandbits(8) for _ in range(rng.randrange(1, 10))])

    ops = []
    if rng.random() < 0.5:
        ops.append("%s.%s" % (t, drv))
    for _ in range(rng.randrange(1, 7)):
        r = rng.random()
        if r < 0.3:
            ops += send(maxed=rng.random() < 0.4)
        elif r < 0.42:
            ops.append("dq:" + rng.choice(["ok", "na", "tl", "na", "tl", "C%d" % rng.choice([0, 7, 256, 2**62 - 1]), "T", "I", "U"]))
            ops += send()
        elif r < 0.62:
            ops.append(incoming())
        elif r < 0.8:
            ops.append("%s.dgr" % t + rng.choice(["", "", ":2", ":3"]))
        elif r < 0.88:
            ops.append("%s.%s" % (t, rng.choice([drv, drv, "A"] if role == "server" else [drv])))
        elif r < 0.94:
            ops.append(rng.choice(["T", "C%d" % rng.choice([0, 9, 0x33, 2**40])]))
        else:
            ops += [incoming(), incoming()]
    if rng.random() < 0.5:
        ops.append("%s.%s" % (t, rng.choice(["A", "AL"]) if role == "server" else "W"))
    return "dgram scen %s dg=%d %s" % (role, rng.choice([0, 1, 1]), " ".join(ops))


def project_scen(impl):
    """what the model of `dgram scen` predicts: the trace, the codes h3 closed the connection with, the datagrams
    handed to the transport, the calls left waiting"""
    if " | " not in impl:
        return impl
    trace, summ = impl.split(" | ", 1)
    out = trace.split()
    for key in ("closed", "dgrams", "pending"):
        m = re.search(key + r"=\[[^\]]*\]", summ)
        out.append(m.group(0) if m else key + "=[]")
    return " ".join(out)


class C18(Prop):
    id = "C18"
    thorough_rounds = 2   # thorough tier: this many independently seeded rounds of the random generators (duplicates dropped)
    modules = ["H3.Props.C18", "H3.Lemmas.GenAgreeDgSend"]
    engines = ["dgram", "wt"]
    design_ref = "DESIGN.md section 7, C18"
    level_text = ("Lean theorems over a model of Datagram::{new,encode,decode} and EncodedDatagram's Buf impl: wire bytes = "
                  "varint(S/4) ++ P for every S < 2^62 divisible by 4 and every payload; the Buf view (remaining/chunk/advance) "
                  "yields exactly those bytes under every consumption pattern (induction over the call list); decode∘encode = id; "
                  "decode is total: H3_DATAGRAM_ERROR iff varint truncated or 4q > 2^62-1, no u64 wrap; the same model and oracle "
                  "also answer for DatagramSender::send_datagram / DatagramReader::read_datagram of a WebTransport session over the "
                  "simulated transport (engine wt); the payload Buf may be ANY list of non-empty chunks (C18_payload_chunking_independent: "
                  "remaining = header + all chunks, every chunk/advance pattern and the chunk-by-chunk read to the end yield "
                  "varint(S/4) ++ the flattened payload); the error arms of send_datagram (C18_send_error_classes: NotAvailable / TooLarge "
                  "go to the caller and are not connection errors, a transport connection error is stored as the connection's error; "
                  "C18_send_error_is_outcome: whatever the error cell holds, the sender answers convert_to_connection_error of the cell's "
                  "winner, i.e. what the driver and every other handle report - D-18b / D-05g repaired; the arm is read from the tree, "
                  "Gen/DgSendArms + Lemmas/GenAgreeDgSend); `dgram scen`: the datagram handles of a plain CLIENT and a plain server connection "
                  "(h3-datagram client.rs / server.rs) over SimQuic under every answer the transport may give")
    level_note = ("trusted: Lean kernel + 3 standard axioms; model tied to the code by differential run (k in 0..2^16 exhaustively, "
                  "form boundaries, payloads 0..1500, consumption patterns, all byte strings of length 0..2 for decode); payload "
                  "Buf modelled as one contiguous Bytes; h3-quinn's send path (copy_to_bytes of the Buf) covered by the Buf-view theorem; "
                  "engine wt: real h3-webtransport session over SimQuic — datagram_sender().send_datagram for CONNECT ids in every "
                  "varint form of the quarter id, datagram_reader().read_datagram on well-formed and malformed datagrams, and the "
                  "connection close with H3_DATAGRAM_ERROR that the next accept of the session reports; `dgram encm`: the payload is a "
                  "multi-chunk Buf (every 2-way split of payloads of 2, 3, 5, 9 bytes per varint form of the quarter id, sampled 3..8-way "
                  "splits of payloads up to 1300 bytes, under chunk-wise / crossing-read / direct-advance patterns); `dgram scen`: real "
                  "client::Connection / server::Connection over SimQuic, get_datagram_sender(stream id) for ids in every varint form, 1-3 "
                  "datagrams through one sender, the transport answering Ok / NotAvailable / TooLarge (always, or by a maximum set to the "
                  "encoded size -2..+2) / ConnectionError(ApplicationClose, Timeout, InternalError, Undefined) to the sender alone or "
                  "failing as a whole, get_datagram_reader with 1-3 reads through one reader (waiting or not when the datagram / the "
                  "failure comes), the driver (wait_idle / accept) polled before, during or after: what it reports and the code h3 closes with")
    rule = ("cases: enc for S=4k, k in 0..2^16 exhaustive + form boundaries + random k, payload lengths 0..1500, consumption "
            "patterns all/bytewise/random; dec for all strings of length 0..2, every first byte x truncation, random 0..9 bytes; "
            "non-trivial = implementation result starts with ok or err (not bad-op/refused/panic); wt lines: 1..6 datagram "
            "operations per session (send 0..1500 bytes; receive for the session, for other ids, truncated quarter id incl. the "
            "empty datagram, quarter id >= 2^60), non-trivial = the session was accepted; encm lines: non-trivial as enc; scen lines: "
            "1-8 ops, non-trivial = at least one send_datagram / read_datagram answered")
    trusted = ["bytes::Bytes Buf impl for the payload"]
    assumptions = ["the payload Buf is lawful: remaining() = bytes left, chunk() non-empty while bytes are left, advance(k) drops k bytes "
                   "(modelled as a list of non-empty chunks)",
                   "`dgram scen`: the interpreter's task discipline (a waiting call blocks its task, later commands queue, a polled "
                   "driver speaks between two commands) is shared by the model and the specification run; what the two runs differ in "
                   "is the wire format, the decoder and the naming of the sender's connection error",
                   "a transport that reports two DIFFERENT connection errors is outside the transport contract: the specification has "
                   "an opinion on the sender's answer only when its error is the connection's first"]

    def cases(self, tier, rng):
        L = []
        big = tier == "thorough"
        pats = ["all", "1", "1,1,1,1,1,1,1,1,1,1,1,1", "0,1,0,2", "3,100"]
        ks = list(range(0, 2**16 + 1))
        for b in (63, 64, 16383, 16384, 2**30 - 1, 2**30, 2**60 - 1, 2**60 - 2):
            ks.append(b)
        for _ in range(20000 if big else 2000):
            ks.append(rng.getrandbits(rng.choice([6, 14, 30, 60, 60])))
        for i, k in enumerate(ks):
            n = rng.choice([0, 1, 2, 3, 8, 20]) if i % 50 else rng.choice([0, 100, 1200, 1500])
            p = [rng.randrange(256) for _ in range(n)]
            r = rng.random()
            if r < 0.45:
                pat = rng.choice(pats)
            elif r < 0.6:
                pat = ",".join(str(rng.randrange(0, 6)) for _ in range(rng.randrange(1, 12)))
            else:
                # reads that cross chunk boundaries and direct advances, incl. a partial advance inside the
                # header followed by one that crosses into the payload
                pat = ",".join(rng.choice(["r", "a", "a", ""]) + str(rng.choice([0, 1, 1, 2, 3, 4, 7, 9, 40]))
                               for _ in range(rng.randrange(1, 6)))
            L.append("dgram enc %d %s %s" % (4 * k, hx(p), pat))
        for s in (1, 2, 3, 5, 2**62, 2**62 + 4, 2**64 - 4, 2**62 - 4):
            L.append("dgram enc %d 00 all" % s)
        L.append("dgram dec -")
        for a in range(256):
            L.append("dgram dec %02x" % a)
            for b in range(256):
                L.append("dgram dec %02x%02x" % (a, b))
        for a in range(256):
            for n in range(0, 10):
                bs = [a] + [rng.randrange(256) for _ in range(n)]
                L.append("dgram dec " + hx(bs))
                L.append("dgram dec " + hx([a] + [0xff] * n))
        for _ in range(100000 if big else 10000):
            n = rng.randrange(0, 10)
            L.append("dgram dec " + hx([rng.randrange(256) for _ in range(n)]))
        # a NON-CONTIGUOUS payload Buf: every 2-way split of a payload, sampled 3-way / n-way splits, under every kind of
        # consumption pattern (the oracle never sees the chunking)
        mpats = pats + ["r1,r1,r1,r1", "a1,1,a1,1", "r2,a1,r3", "a3,r2", "r100"]
        for q in QUARTERS + [rng.getrandbits(rng.choice([6, 14, 30, 60])) for _ in range(60 if big else 6)]:
            for n in (2, 3, 5, 9):
                p = [rng.randrange(256) for _ in range(n)]
                for cs in splits2(p):
                    L.append("dgram encm %d %s %s" % (4 * q, "|".join(hx(c) for c in cs), rng.choice(mpats)))
        for _ in range(20000 if big else 2500):
            q = rng.choice(QUARTERS) if rng.random() < 0.5 else rng.getrandbits(rng.choice([6, 14, 30, 60]))
            n = rng.choice([2, 3, 4, 6, 10, 40, 300, 1300])
            p = [rng.randrange(256) for _ in range(n)]
            k = rng.choice([2, 3, 3, 3, 4, min(n, 8)])
            cuts = sorted(rng.sample(range(1, n), min(k - 1, n - 1)))
            cs = [p[a:b] for a, b in zip([0] + cuts, cuts + [n])]
            r = rng.random()
            if r < 0.4:
                pat = rng.choice(mpats)
            else:
                pat = ",".join(rng.choice(["r", "a", "a", ""]) + str(rng.choice([0, 1, 1, 2, 3, 4, 7, 9, 40]))
                               for _ in range(rng.randrange(1, 7)))
            L.append("dgram encm %d %s %s" % (4 * q, "|".join(hx(c) for c in cs), pat))
        for s in (1, 2, 2**62):
            L.append("dgram encm %d 00|01 all" % s)
        # the client's and the server's datagram handles over the simulated transport, every send error
        for _ in range(40000 if big else 6000):
            L.append(scen_case(rng))
        # the observation point "DatagramSender / DatagramReader over the simulated transport" (engine wt, shared with C19)
        from props.c19 import PROP as C19P
        for _ in range(30000 if big else 3000):
            L.append(C19P.one_case_dg(rng))
        return L

    def project(self, line, impl):
        if line.startswith("dgram scen "):
            return project_scen(impl)
        if line.startswith("wt "):
            from props.c19 import PROP as C19P
            return C19P.project(line, impl)
        return impl

    def klass(self, line, impl):
        w = line.split()
        if w[0] == "dgram" and w[1] == "scen":
            if " " not in impl:
                return "scen/" + impl
            k = set()
            for t in impl.split():
                a, b = t.split("=", 1)
                a = a.split(".")[-1]
                if a in ("dgs", "dgr"):
                    for x in b.split(","):
                        k.add(a + "=" + ("dg" if x.startswith("dg:") else ":".join(x.split(":")[:4 if "app" not in x else 3])))
                elif a in ("W", "A"):
                    k.add("drv=" + ":".join(b.split(":")[:3 if "app" not in b else 2]))
                elif a == "closed" and b != "[]":
                    k.add(t)
                elif a == "pending" and b != "[]":
                    k.add("pending=" + b.strip("[]").split(".")[-1])
            return "scen/" + w[2] + "/" + "+".join(sorted(k))
        if w[0] == "wt":
            k = []
            if "conn.dgs=ok" in impl:
                k.append("send")
            if "conn.dgr=dg:" in impl:
                k.append("recv")
            if "conn.dgr=err:conn:local:H3_DATAGRAM_ERROR" in impl:
                k.append("recv-error")
            if "closed=[51]" in impl:
                k.append("closed")
            return "wt/" + ("+".join(k) if k else impl.split(" ")[0])
        r = impl.split(" ")[0]
        if w[1] == "encm":
            return "encm/%d-chunks/%s" % (min(w[3].count("|") + 1, 4), r)
        if w[1] == "dec":
            tag = "empty" if w[2] == "-" else "form%d" % (int(w[2][:2], 16) >> 6)
            return "dec/%s/%s" % (tag, r)
        return "enc/" + r

    def trivial(self, line, impl):
        if line.startswith("wt "):
            return "conn.WT=ok" not in impl
        if line.startswith("dgram scen "):
            return ".dgs=" not in impl and ".dgr=" not in impl
        return not (impl.startswith("ok") or impl.startswith("err"))

    def shrink_candidates(self, line):
        w = line.split()
        out = []
        if w[0] == "wt":
            from props.c19 import PROP as C19P
            return C19P.shrink_candidates(line)
        if w[1] == "scen":
            ops = w[4:]
            for i in range(len(ops) - 1, -1, -1):
                out.append(" ".join(w[:4] + ops[:i] + ops[i + 1:]))
            for i, o in enumerate(ops):
                if ".dgs:" in o:
                    head, hexes = o.rsplit(":", 1)
                    hs = hexes.split(",")
                    if len(hs) > 1:
                        for j in range(len(hs)):
                            out.append(" ".join(w[:4] + ops[:i] + [head + ":" + ",".join(hs[:j] + hs[j + 1:])] + ops[i + 1:]))
                    elif len(hs[0]) > 2:
                        out.append(" ".join(w[:4] + ops[:i] + [head + ":" + hs[0][:2]] + ops[i + 1:]))
            return out
        if w[1] == "encm":
            cs = w[3].split("|")
            if len(cs) > 2:
                out.append(" ".join(w[:3] + ["|".join([cs[0] + cs[1]] + cs[2:]), w[4]]))
                out.append(" ".join(w[:3] + ["|".join(cs[:-2] + [cs[-2] + cs[-1]]), w[4]]))
            for i, c in enumerate(cs):
                if len(c) > 2:
                    out.append(" ".join(w[:3] + ["|".join(cs[:i] + [c[:2]] + cs[i + 1:]), w[4]]))
            if w[4] != "all":
                out.append(" ".join(w[:4] + ["all"]))
            return out
        if w[1] == "enc":
            if w[3] != "-" and len(w[3]) > 2:
                out.append(" ".join(w[:3] + [w[3][:2], w[4]]))
            if w[3] != "-":
                out.append(" ".join(w[:3] + ["-", w[4]]))
            if w[4] != "all":
                out.append(" ".join(w[:4] + ["all"]))
        elif w[2] != "-" and len(w[2]) > 2:
            out.append("dgram dec " + w[2][:-2])
        return out


PROP = C18()
