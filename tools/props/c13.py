import itertools

import vlib
from vlib import Prop
from props.c16 import hx

U64 = 2**64 - 1
VALUES = [0, 1, 63, 64, 16383, 16384, 2**30 - 1, 2**30, 2**62 - 1, 2**62, U64]
SUPPORTED = [6, 1, 7, 8, 0x33, 0x2B603742, 0x2B603743]
FLAGS = [8, 0x33, 0x2B603742]
RESERVED = [0, 2, 3, 4, 5]
UNKNOWN = [9, 0x10, 0x3F, 0x40, 0x21, 0x21 + 31, 0x21 + 31 * 1337, 0xFFD277, 0x2B603741, 0x2B603744,
           2**62 - 1, 31 * 148764065110560898 + 33, 16383, 16384, 2**30]


def vi(x, form=None):
    """QUIC varint of x; `form` in 0..3 forces the 1/2/4/8-byte form (must be large enough)."""
    need = 0 if x < 2**6 else 1 if x < 2**14 else 2 if x < 2**30 else 3
    if form is None or form < need:
        form = need
    n = 1 << form
    v = x | (form << (8 * n - 2))
    return [(v >> (8 * (n - 1 - i))) & 0xFF for i in range(n)]


def forms(x):
    need = 0 if x < 2**6 else 1 if x < 2**14 else 2 if x < 2**30 else 3
    return list(range(need, 4))


def payload(pairs, rng=None):
    out = []
    for i, v in pairs:
        if rng is None:
            out += vi(i) + vi(v)
        else:
            out += vi(i, rng.choice(forms(i))) + vi(v, rng.choice(forms(v)))
    return out


class C13(Prop):
    id = "C13"
    thorough_rounds = 3   # thorough tier: this many independently seeded rounds of the random generators (duplicates dropped)
    modules = ["H3.Props.C13", "H3.Lemmas.GenAgreeSend", "H3.Lemmas.GenAgreeCtl"]
    engines = ["set"]
    design_ref = "DESIGN.md section 7, C13"
    level_text = ("Lean theorems over models of frame::Settings::{insert,get,len,encode,decode}, SettingId::{is_supported,"
                  "is_forbidden,grease}, TryFrom<Config> for Settings, From<&Settings> for config::Settings, "
                  "WriteBuf::from(UniStreamHeader::Control), the conversion-error path of send_control_stream_headers and the "
                  "write-once settings cell: for every configuration with both numbers < 2^62 and every grease draw N setup "
                  "does not panic and the control stream is 00 04 len payload (len = |payload|, total <= 42 <= "
                  "WRITE_BUF_ENCODE_SIZE) whose RFC parse is exactly the configured pairs (+ grease iff on), no id twice, none "
                  "reserved, grease never collides; a number >= 2^62 makes build return an error with nothing written (after "
                  "the D-13 repair); for every received payload the decoder agrees with the RFC 9114 7.2.4 oracle (truncated "
                  "-> connection error, reserved / repeated supported id -> H3_SETTINGS_ERROR, H3_DATAGRAM / ENABLE_CONNECT_PROTOCOL "
                  "with a value other than 0 / 1 -> H3_SETTINGS_ERROR (reading R-13b, repair D-13b; the list of such ids is read "
                  "from the source and proved equal to the RFC list), else applied exactly (those two flags: on iff 1 is carried), "
                  "unknown ids ignored, never Exceeded), also at connection level against Spec.Settings.demand "
                  "(C13_received_settings_agree_with_oracle); the local configuration plays no part in what is received "
                  "(C13_received_settings_independent_of_local_config; the SETTINGS arm of poll_control is read by the translator "
                  "as exactly set_settings((&settings).into())); defaults until the first set, first value for ever; "
                  "decode(encode s) = s; "
                  "for every acceptance script of the transport the peer sees a prefix of that header and exactly the header "
                  "once write returns (WriteBuf model of C14, drain_spec); streams with an incomplete header accepted before "
                  "the control stream are passed over by the scan of poll_accept_recv (any number of them), and so are resolved "
                  "QPACK / WebTransport / unknown-type streams (a second QPACK stream in front ends the pass with its error)")
    level_note = ("trusted: Lean kernel + 3 standard axioms; hand-written models tied to the code by the differential run (full "
                  "builder product in both roles over the real connection setup on an in-memory transport, also with the "
                  "transport taking the header in pieces; received payloads "
                  "through the real Frame::decode and through a real connection's control stream) and by the translator "
                  "(SETTINGS_LEN, WRITE_BUF_ENCODE_SIZE, supported/reserved id lists, grease formula, config defaults "
                  "regenerated from source; Settings::decode's body in two known shapes, SettingId::is_boolean; the arms of "
                  "poll_control / poll_accept_recv through Gen/CtlArms, Gen/UniArms); reading R-13: repeated unknown ids may be "
                  "ignored or rejected; reading R-13b: ENABLE_WEBTRANSPORT (a draft, no error defined) above 1 is without a demand")
    rule = ("cases: set cfg = {wt,ec,dg} x mfs,wts in {0,1,63,64,16383,16384,2^30-1,2^30,2^62-1,2^62,u64::MAX} x grease on/off "
            "(server) and {ec,dg} x mfs x grease (client) + omitted-key (default) variants, grease identifier = the real "
            "SettingId::grease() under a per-case fastrand seed; set dec = every supported id x boundary values x all varint "
            "forms, permutations, duplicates of supported and unknown ids, reserved ids in every position/form, grease and "
            "unknown ids, every truncation, all 1- and 2-byte payloads, random bytes and random "
            "structured payloads; set enc = insert sequences incl. repeats, >8 entries, >= 2^62, WriteBuf overflow; set cell / "
            "set apply (every cut position) / set apply2 through SharedState and a real connection in both roles; "
            "second round: set applyq = 1..3 (random: up to 7) other unidirectional streams with an incomplete header (no byte, "
            "partial type, WebTransport / push type without its second integer) accepted BEFORE the control stream, both roles, "
            "whole / cut SETTINGS; long payloads = 0..7 understood + up to 400 distinct unknown / grease identifiers, all varint "
            "forms, exact sizes 40..43, 62..65, 126..130, 143..145, 255..257, 1000, 1023..1025, 4000, 16383, 16384, with a "
            "repeated / reserved identifier or a cut behind them, at function level and through a real connection (cuts at "
            "128..132); set cfgw = the builder product under back-pressure: the transport takes the control stream header k "
            "bytes per poll (k in 1,2,3,5,7,8,11,41,64, mixed and random patterns, polls without credit in between); "
            "third round (audit 2): set apply / apply2 / applyq under LOCAL configurations = 11 (server) / 8 (client) classes "
            "(defaults, mfs 0 / 1 / 63 / 64 / 16383 / 16384 / 2^30 / 2^62-1, every flag, wts, grease on) x 27 classes of received "
            "payload placed relative to the local values (mfs below / at / above the local one, wts likewise, each flag, unknown, "
            "repeated, reserved, truncated, 0/1 setting = 2 / 3), whole and cut, + random payloads under random configurations; "
            "set applyq with COMPLETE foreign headers in front (grease / unknown types in 1-, 2-, 8-byte form, QPACK 02 / 03, "
            "WebTransport 4054 + session id with wt on and off, mixed with incomplete ones, every pair, second QPACK streams); "
            "set enc judged on every line by the harness's own reader of the written bytes; "
            "non-trivial = implementation result is not bad-op/bad-case/setup-failed/pending; distinct = distinct case lines")
    trusted = ["sim.rs in-memory QUIC transport (delivers and records bytes verbatim)",
               "fastrand 2.x thread-local generator: same seed, same first draw (the grease identifier of a case line)",
               "derived Debug output of config::Settings / frame::Settings (parsed by the harness; the numeric fields have no getter)"]
    assumptions = ["SettingId::grease() is the first fastrand draw of connection setup (checked: a wrong gid breaks the byte-exact correspondence)",
                   "std::sync::OnceLock set/get semantics for the settings cell (exercised by set cell / set apply2)"]

    # ------------------------------------------------------------------ generators

    def _gids(self, seeds):
        """grease identifier for each fastrand seed, from the real SettingId::grease()."""
        lines = ["set gid %d" % s for s in seeds]
        rc, out, err = vlib.run_lines(vlib.RUN, lines)
        if rc != 0 or len(out) != len(lines) or not all(o.isdigit() for o in out):
            raise RuntimeError("set gid pre-pass failed: rc=%s %s" % (rc, out[:3]))
        return dict(zip(seeds, (int(o) for o in out)))

    def _cfg_raw(self, tier, rng, nrandom):
        raw = []  # (role, tokens, grease_on)
        for g in (0, 1):
            for mfs in VALUES:
                for wts in VALUES:
                    for wt, ec, dg in itertools.product((0, 1), repeat=3):
                        raw.append(("server", ["mfs=%d" % mfs, "wt=%d" % wt, "ec=%d" % ec, "dg=%d" % dg,
                                               "wts=%d" % wts, "grease=%d" % g], g))
                for ec, dg in itertools.product((0, 1), repeat=2):
                    raw.append(("client", ["mfs=%d" % mfs, "ec=%d" % ec, "dg=%d" % dg, "grease=%d" % g], g))
        # omitted keys = builder defaults (grease is on by default)
        for role in ("server", "client"):
            raw.append((role, [], 1))
            raw.append((role, ["grease=0"], 0))
            raw.append((role, ["mfs=1"], 1))
            raw.append((role, ["ec=1", "grease=0"], 0))
            raw.append((role, ["dg=1"], 1))
        raw.append(("server", ["wt=1", "grease=0"], 0))
        raw.append(("server", ["wts=7"], 1))
        raw.append(("server", ["wts=%d" % 2**62], 1))
        # neighbours of the boundaries and random values
        for _ in range(nrandom):
            role = rng.choice(("server", "client"))
            g = rng.randrange(2)
            val = lambda: rng.choice([rng.getrandbits(rng.choice([6, 14, 30, 62, 64])),
                                      max(0, min(U64, rng.choice(VALUES) + rng.choice([-2, -1, 1, 2])))])
            t = ["mfs=%d" % val(), "ec=%d" % rng.randrange(2), "dg=%d" % rng.randrange(2), "grease=%d" % g]
            if role == "server":
                t += ["wt=%d" % rng.randrange(2), "wts=%d" % val()]
            rng.shuffle(t)
            raw.append((role, t, g))
        return raw

    def _cfg_render(self, raw, rng, head):
        """case lines for the raw configurations; `head(i, role)` = the tokens in front of the keys"""
        seeds = {}
        for i, (_, _, g) in enumerate(raw):
            if g:
                seeds[i] = rng.getrandbits(64)
        gid = self._gids(sorted(set(seeds.values()))) if seeds else {}
        L = []
        for i, (role, t, g) in enumerate(raw):
            if g:
                t = t + ["seed=%d" % seeds[i], "gid=%d" % gid[seeds[i]]]
            L.append(" ".join(head(i, role) + t))
        return L

    def _cfg_lines(self, tier, rng):
        raw = self._cfg_raw(tier, rng, 20000 if tier == "thorough" else 2000)
        L = self._cfg_render(raw, rng, lambda i, role: ["set", "cfg", role])
        # malformed lines answer bad-op on both sides
        L.append("set cfg client mfs=0 wt=1 grease=0")
        L.append("set cfg server mfs=5")
        return L

    def _payloads(self, tier, rng):
        big = tier == "thorough"
        P = [[]]
        small = [0, 1, 2, 63, 64, 16383, 16384, 2**30 - 1, 2**30, 2**62 - 1]
        # every supported id x boundary values x every varint form of id and value
        for i in SUPPORTED:
            for v in small:
                for fi in forms(i):
                    for fv in forms(v):
                        P.append(vi(i, fi) + vi(v, fv))
        # permutations of the supported ids
        perms = list(itertools.permutations(SUPPORTED))
        rng.shuffle(perms)
        for p in perms[: (5040 if big else 720)]:
            P.append(payload([(i, rng.choice(small)) for i in p]))
        for k in (2, 3):
            for p in itertools.permutations(SUPPORTED, k):
                P.append(payload([(i, rng.choice([0, 1, 5, 70000])) for i in p]))
        # duplicates: supported (adjacent, distant, same/different value), unknown, grease
        base = [(i, 1) for i in SUPPORTED]
        for i in SUPPORTED:
            P.append(payload([(i, 1), (i, 1)]))
            P.append(payload([(i, 0), (i, 2)]))
            P.append(payload(base + [(i, 9)]))
            P.append(payload([(0x21, 0), (i, 3), (9, 9), (i, 3)]))
            P.append(vi(i, 0) + vi(1) + vi(i, 3) + vi(1))       # same id in two length forms
        for u in UNKNOWN:
            P.append(payload([(u, 0)]))
            P.append(payload([(u, 1), (u, 1)]))
            P.append(payload([(u, 1), (6, 7), (u, 2)]))
            P.append(payload([(6, 7), (u, 2**62 - 1)]))
            P.append(payload([(u, 5)] * 9))                      # more unknown entries than slots
        P.append(payload([(9 + k, k) for k in range(40)]))
        P.append(payload([(6, 4)] + [(0x21 + 31 * k, k) for k in range(20)] + [(8, 1)]))
        # reserved ids, each position, each form; value forms; truncated value after a reserved id
        for r in RESERVED:
            for f in range(4):
                P.append(vi(r, f) + vi(0))
                P.append(vi(r, f) + vi(2**40))
                P.append(payload([(6, 1)]) + vi(r, f) + vi(1))
                P.append(vi(r, f) + vi(1) + payload([(6, 1), (6, 1)]))
                P.append(vi(r, f))
                P.append(vi(r, f) + [0x80, 0x00])
            P.append(payload(base) + vi(r) + vi(0))
            P.append(payload([(0x21, 1), (r, 1), (0x21, 1)]))
        # flags with values other than 0/1
        for i in FLAGS:
            for v in (2, 3, 255, 2**62 - 1):
                P.append(payload([(i, v)]))
        # every truncation of some valid payloads (and one byte more)
        for _ in range(200 if big else 30):
            k = rng.randrange(1, 6)
            ids = rng.sample(SUPPORTED + UNKNOWN[:8], k)
            full = payload([(i, rng.choice(small + [rng.getrandbits(62)])) for i in ids], rng)
            for n in range(len(full) + 1):
                P.append(full[:n])
            P.append(full + [rng.randrange(256)])
        full = payload([(6, 2**62 - 1), (0x2B603743, 2**62 - 1), (0x2B603742, 1), (8, 1), (0x33, 1), (1, 0), (7, 0)])
        for n in range(len(full) + 1):
            P.append(full[:n])
        # all 1- and 2-byte payloads
        for a in range(256):
            P.append([a])
        for a in range(256):
            for b in range(256):
                P.append([a, b])
        # random structured payloads: a mix of supported / unknown / reserved / repeated, random forms
        for _ in range(200000 if big else 20000):
            n = rng.randrange(0, 9)
            pairs = []
            for _ in range(n):
                c = rng.random()
                if c < 0.55:
                    i = rng.choice(SUPPORTED)
                elif c < 0.8:
                    i = rng.choice(UNKNOWN + [rng.getrandbits(rng.choice([6, 14, 30, 62]))])
                elif c < 0.87:
                    i = rng.choice(RESERVED)
                elif pairs:
                    i = rng.choice(pairs)[0]
                else:
                    i = 6
                v = rng.choice([0, 1, 1, rng.choice(small), rng.getrandbits(rng.choice([6, 14, 30, 62]))])
                pairs.append((i, v))
            p = payload(pairs, rng)
            if rng.random() < 0.15 and p:
                p = p[: rng.randrange(len(p))]
            P.append(p)
        # random bytes
        for _ in range(200000 if big else 20000):
            P.append([rng.randrange(256) for _ in range(rng.randrange(0, 25))])
        return P


    # ------------------------------------------------------------------ second-round generators (seeds2/C13)

    # stream headers on which `poll_type` answers Pending: nothing yet; first byte of a 2- / 4- / 8-byte type (`40`, `54`,
    # `80`, `c0`); the WebTransport type (0x54 = `4054`, it has no one-byte form) or the push type without the second
    # integer; WebTransport type + a partial id (`405480`).  `5440` is a COMPLETE two-byte type (0x1440, unknown).
    PRE_BASIC = ["-", "40", "4054", "54", "01"]
    PRE_MORE = ["80", "c0", "800000", "c0000000000000", "5440", "405480", "0140", "4001", "bf00", "bf"]
    PATTERNS = ["1", "2", "3", "5", "7", "11", "10,7", "1,0,2", "8", "13,1", "0,1", "4,4,1", "20,20", "41", "64"]

    def _cfgw_lines(self, tier, rng):
        """connection setup under back-pressure: the transport takes the control stream header in pieces"""
        big = tier == "thorough"
        raw = self._cfg_raw(tier, rng, 6000 if big else 1200)
        pats = {}
        det = [i for i, (_, t, _) in enumerate(raw)]
        for i in det:
            # every configuration of the product with one fixed pattern (round robin), every 13th with all of them,
            # the random ones with random patterns
            pats[i] = self.PATTERNS[i % len(self.PATTERNS)]
        extra = []
        for i, (role, t, g) in enumerate(raw):
            if i % 13 == 0:
                for ptn in self.PATTERNS:
                    if ptn != pats[i]:
                        extra.append((role, t, g, ptn))
            if rng.random() < (0.6 if big else 0.3):
                n = rng.randrange(1, 7)
                extra.append((role, t, g, ",".join(str(rng.choice([0, 1, 1, 2, 3, 4, 5, 6, 7, 9, 12, 17, 30])) for _ in range(n))))
        base = len(raw)
        raw2 = raw + [(role, t, g) for role, t, g, _ in extra]
        for j, (_, _, _, ptn) in enumerate(extra):
            pats[base + j] = ptn
        L = self._cfg_render(raw2, rng, lambda i, role: ["set", "cfgw", role, pats[i]])
        L.append("set cfgw server 0 grease=0")            # never a byte of credit: setup keeps waiting
        L.append("set cfgw server 65 grease=0")           # malformed lines answer bad-op on both sides
        L.append("set cfgw client 1 wt=1 grease=0")
        L.append("set cfgw server - grease=0")
        return L

    def _long_payloads(self, tier, rng):
        """received SETTINGS far beyond what h3 itself sends: many unknown / grease identifiers, long varint forms"""
        big = tier == "thorough"
        one_byte_unknown = [i for i in range(9, 64) if i != 0x33]
        P = []

        def unknown(used):
            """an identifier h3 does not know, not in `used` (a repeated unknown identifier has two readings, R-13)"""
            while True:
                c = rng.random()
                if c < 0.4:
                    i = 0x21 + 31 * rng.getrandbits(rng.choice([5, 9, 20, 40, 56]))
                elif c < 0.5:
                    i = rng.choice(UNKNOWN)
                else:
                    i = rng.getrandbits(rng.choice([6, 14, 30, 62]))
                if i not in SUPPORTED and i not in RESERVED and i not in used:
                    used.add(i)
                    return i

        def next2(used, ctr):
            """an unused identifier with a two-byte encoding"""
            while ctr[0] in used:
                ctr[0] += 1
            used.add(ctr[0])
            return ctr[0]

        def mixed(nknown, nunknown, longforms):
            used = set()
            known = [(i, rng.choice([0, 1, 1, 63, 64, 70000, 2**62 - 1])) for i in rng.sample(SUPPORTED, nknown)]
            unk = [(unknown(used), rng.choice([0, 1, 7, 2**30, rng.getrandbits(62)])) for _ in range(nunknown)]
            pairs = known + unk
            rng.shuffle(pairs)
            return payload(pairs, rng if longforms else None)

        def sized(target, nknown):
            """a valid payload of exactly `target` bytes: `nknown` understood identifiers, distinct unknown ones around them"""
            known = [(i, rng.choice([0, 1, 5, 63])) for i in rng.sample([6, 1, 7, 8, 0x33], nknown)]
            out = [vi(i) + vi(v) for i, v in known]
            left = target - sum(len(e) for e in out)
            short = list(one_byte_unknown)
            rng.shuffle(short)
            used = set(short)
            ctr = [64]
            while left >= 2:
                if left in (2, 5) or (len(short) > 3 and left < 16 and left != 3):
                    e = vi(short.pop()) + vi(rng.randrange(64))                 # 2 bytes
                elif left == 3:
                    e = vi(short.pop()) + vi(rng.randrange(64), 1)              # 3 bytes
                elif (left == 16 or left >= 18) and rng.random() < 0.5:
                    e = vi(unknown(used), 3) + vi(rng.getrandbits(62), 3)       # 16 bytes
                elif left == 4 or left >= 7 and rng.random() < 0.5:
                    e = vi(next2(used, ctr), 1) + vi(rng.randrange(64), 1)           # 4 bytes
                else:
                    e = vi(next2(used, ctr), 1) + vi(rng.randrange(64))              # 3 bytes
                out.append(e)
                left -= len(e)
            rng.shuffle(out)
            flat = [b for e in out for b in e]
            assert len(flat) == target or target < 2 + sum(len(vi(i) + vi(v)) for i, v in known), (target, len(flat))
            return flat

        # the demonstrations of the seeded change: 3 understood + 14 unknown; 9 entries in the 8-byte form (144 bytes)
        P.append(payload([(6, 4096), (8, 1), (0x33, 1)] + [(0x21 + 31 * (1000003 * k + 7), k) for k in range(14)]))
        nine = [(i, 1) for i in SUPPORTED] + [(0x21 + 31 * 5, 0), (0xFFD277, 1)]
        P.append([b for i, v in nine for b in vi(i, 3) + vi(v, 3)])
        for f in range(4):
            P.append([b for i, v in nine for b in vi(i, max(f, forms(i)[0])) + vi(v, f)])
        # sizes around the bounds an implementation might confuse with a limit (8 slots x 2 x 8 = 128; 42; 64; 255/256)
        for t in [40, 41, 42, 43, 62, 63, 64, 65, 126, 127, 128, 129, 130, 143, 144, 145, 255, 256, 257, 1000, 1023, 1024, 1025,
                  4000, 16383, 16384]:
            for nk in ((0, 1, 3, 5) if t < 2000 else (3,)):
                P.append(sized(t, nk))
        # many entries: up to a few hundred unknown identifiers around 0..7 understood ones
        for nunk in [14, 20, 50, 100, 200, 300, 400]:
            for nk in (0, 3, 7):
                for lf in (False, True):
                    P.append(mixed(nk, nunk, lf))
        for _ in range(400 if big else 60):
            P.append(mixed(rng.randrange(0, 8), rng.randrange(9, 120), rng.random() < 0.5))
        for _ in range(200 if big else 40):
            P.append(sized(rng.randrange(100, 600), rng.randrange(0, 6)))
        good = list(P)
        # the same with what MUST be refused far behind the front: a repeated understood identifier, a reserved one,
        # a cut inside the last entry
        for q in rng.sample(good, 40 if big else 16):
            P.append(q + vi(6, rng.randrange(4)) + vi(1) + vi(6, rng.randrange(4)) + vi(2))
            P.append(q + vi(rng.choice(RESERVED), rng.randrange(4)) + vi(0))
            P.append(q + vi(2**40))
            P.append(q[:-1])
        return P

    # ------------------------------------------------------------------ third round (audit 2): local configuration x received payload
    M62 = 2**62 - 1
    # stream headers that are COMPLETE and resolve to something other than a control / push stream: grease and other unknown
    # types (1-, 2-, 8-byte form), QPACK encoder / decoder stream, WebTransport stream + session id
    PRE_FULL = ["21", "02", "03", "405400", "40544040", "4040", "405408", "c000000000000021", "3f", "5440"]

    def _local_cfgs(self, role):
        """classes of the LOCAL configuration: (tokens, mfs, wts)"""
        M = self.M62
        if role == "server":
            return [([], M, 0), (["mfs=0"], 0, 0), (["mfs=1"], 1, 0), (["mfs=63", "wt=1", "ec=1", "dg=1", "wts=1"], 63, 1),
                    (["mfs=16384", "wt=1"], 16384, 0), (["mfs=%d" % M, "wts=%d" % M, "grease=1"], M, M), (["ec=1"], M, 0),
                    (["dg=1", "grease=1"], M, 0), (["wt=1", "wts=0", "dg=1"], M, 0),
                    (["mfs=1073741824", "dg=1", "wts=64", "grease=1"], 2**30, 64), (["mfs=64", "ec=1", "wt=0", "wts=7"], 64, 7)]
        return [([], M, 0), (["mfs=0"], 0, 0), (["mfs=1"], 1, 0), (["mfs=64", "ec=1", "dg=1"], 64, 0),
                (["mfs=16383", "grease=1"], 16383, 0), (["ec=1"], M, 0), (["dg=1", "grease=1"], M, 0),
                (["mfs=%d" % M, "ec=1", "dg=1", "grease=1"], M, 0)]

    def _recv_classes(self, m, w):
        """classes of the RECEIVED payload relative to the local values m (max field section size) and w (sessions)"""
        M = self.M62
        WT, WTS = 0x2B603742, 0x2B603743
        near = sorted({0, 1, max(m - 1, 0), m, min(m + 1, M), M})
        C = [[]]
        C += [payload([(6, x)]) for x in near]
        for y in sorted({0, w, min(w + 1, M)}):
            C.append(payload([(6, min(m + 1, M)), (8, 1), (0x33, 1), (WT, 1), (WTS, y)]))
        C += [payload([(8, 1)]), payload([(8, 0), (0x33, 0), (WT, 0)]), payload([(0x33, 1)]), payload([(WT, 1)]),
              payload([(WTS, 5)]), payload([(0x21, 7)]), payload([(9, 9), (6, max(m - 1, 0)), (9, 9)]),
              payload([(0, 1)]), payload([(6, 1), (6, 2)]), [6], payload([(6, m)]) + [0x40],
              payload([(0x33, 2)]), payload([(8, 2)]), payload([(6, m), (0x33, 3)]), payload([(WT, 2)]),
              payload([(8, 1), (8, 1)])]
        return C

    def _cfg_tail(self, role, rng):
        """a random local configuration for a `set apply*` line (mostly one `build` accepts)"""
        if rng.random() < 0.35:
            return ""
        val = lambda: rng.choice([0, 1, 63, 64, 16383, 16384, 2**30, self.M62, rng.getrandbits(rng.choice([6, 14, 30, 62]))])
        t = []
        if rng.random() < 0.7:
            t.append("mfs=%d" % (val() if rng.random() < 0.97 else 2**62))
        for k in ("ec", "dg"):
            if rng.random() < 0.5:
                t.append("%s=%d" % (k, rng.randrange(2)))
        if role == "server":
            if rng.random() < 0.5:
                t.append("wt=%d" % rng.randrange(2))
            if rng.random() < 0.4:
                t.append("wts=%d" % val())
        if rng.random() < 0.4:
            t.append("grease=%d" % rng.randrange(2))
        rng.shuffle(t)
        return (" " + " ".join(t)) if t else ""

    def _third_round(self, tier, rng, P):
        big = tier == "thorough"
        L = []
        for role in ("server", "client"):
            # ---- the product: every class of local configuration x every class of received payload (whole / cut)
            for toks, m, w in self._local_cfgs(role):
                tail = (" " + " ".join(toks)) if toks else ""
                C = self._recv_classes(m, w)
                for p in C:
                    total = 1 + 1 + len(vi(len(p))) + len(p)
                    for cut in (0, total // 2):
                        L.append("set apply %s %s %d%s" % (role, hx(p), cut, tail))
                for a in C[1:12:2]:
                    for b in (C[1], C[-6], []):
                        L.append("set apply2 %s %s %s%s" % (role, hx(a), hx(b), tail))
                L.append("set apply2 %s %s %s%s" % (role, hx(C[-5]), hx(C[1]), tail))       # 0/1 setting = 2, then a second frame
                L.append("set apply2 %s %s %s%s" % (role, hx(C[-4]), hx(C[1]), tail))
                # ---- resolved foreign streams (and waiting ones) in front of the control stream, under this configuration
                for q in ([f] for f in self.PRE_FULL):
                    for p in (C[3], C[-5]):
                        L.append("set applyq %s %s 0 %s%s" % (role, hx(p), ",".join(q), tail))
                for q in (["21", "-", "02"], ["405400", "03", "40"], ["02", "03", "405408", "21"], ["54", "21", "4054", "3f"]):
                    for p in C[1:8:3]:
                        total = 1 + 1 + len(vi(len(p))) + len(p)
                        for cut in (0, total // 2):
                            L.append("set applyq %s %s %d %s%s" % (role, hx(p), cut, ",".join(q), tail))
            # ---- every pair / triple of complete and incomplete headers, default configuration and WebTransport on
            pool = self.PRE_FULL[:6] + ["-", "40", "54"]
            for q in itertools.product(pool, repeat=2):
                for tail in (("", " wt=1 wts=3") if role == "server" else ("",)):
                    L.append("set applyq %s 0605 %d %s%s" % (role, rng.choice([0, 2, 3]), ",".join(q), tail))
            for _ in range(8000 if big else 900):
                p = rng.choice(P) if rng.random() < 0.6 else rng.choice(self._recv_classes(rng.choice([0, 1, 64, self.M62]), 0))
                total = 1 + 1 + len(vi(len(p))) + len(p)
                q = [rng.choice(self.PRE_FULL + self.PRE_BASIC + self.PRE_MORE[:4]) for _ in range(rng.randrange(1, 6))]
                L.append("set applyq %s %s %d %s%s" % (role, hx(p), rng.randrange(0, total + 1), ",".join(q),
                                                         self._cfg_tail(role, rng)))
            # ---- random payloads under random local configurations
            for _ in range(20000 if big else 2500):
                p = rng.choice(P)
                total = 1 + 1 + len(vi(len(p))) + len(p)
                L.append("set apply %s %s %d%s" % (role, hx(p), rng.randrange(0, total + 1), self._cfg_tail(role, rng)))
            for _ in range(3000 if big else 300):
                L.append("set apply2 %s %s %s%s" % (role, hx(rng.choice(P)), hx(rng.choice(P)), self._cfg_tail(role, rng)))
            # outside the family / refused by build
            L.append("set applyq %s 0601 0 00" % role)            # a second control stream is C04's
            L.append("set applyq %s 0601 0 0100" % role)          # a push stream is C04's
            L.append("set applyq %s 0601 0 2100" % role)          # bytes behind a complete header
            L.append("set applyq %s 0601 0 -,5400" % role)
            L.append("set applyq %s 0601 0 21" % role)
            L.append("set applyq %s 0601 0 02,02" % role)         # a second QPACK encoder stream ends the pass
            L.append("set applyq %s 0601 0 03,21,03" % role)
            L.append("set apply %s 0601 0 mfs=%d" % (role, 2**62))   # build refuses: setup-failed
            L.append("set apply %s 0601 0 seed=1" % role)            # bad-op
        L.append("set apply client 0601 0 wt=1")                     # the client builder has no WebTransport options
        return L

    def _second_round(self, tier, rng, P):
        big = tier == "thorough"
        L = []
        # ---- (1) other unidirectional streams, header incomplete, accepted BEFORE the control stream
        applyp = [payload([(6, 1)]), payload([(6, 2), (8, 1)]), payload([(0x33, 1), (0x2B603742, 1), (0x2B603743, 9)]),
                  [], payload([(0x21, 5)]), payload([(6, 1), (6, 2)]), payload([(0, 1)]), [6]]
        seqs = [list(q) for k in (1, 2, 3) for q in itertools.product(self.PRE_BASIC, repeat=k)]
        for role in ("server", "client"):
            for qi, q in enumerate(seqs):
                for pi, p in enumerate(applyp[:3] if len(q) == 3 else applyp):
                    total = 1 + 1 + len(vi(len(p))) + len(p)
                    for cut in sorted({0, 1, total // 2, total - 1} if (qi + pi) % 4 == 0 else {0, total // 2}):
                        L.append("set applyq %s %s %d %s" % (role, hx(p), cut, ",".join(q)))
            for _ in range(6000 if big else 800):
                p = rng.choice(applyp) if rng.random() < 0.5 else rng.choice(P)
                total = 1 + 1 + len(vi(len(p))) + len(p)
                q = [rng.choice(self.PRE_BASIC + self.PRE_MORE) for _ in range(rng.randrange(1, 8))]
                L.append("set applyq %s %s %d %s" % (role, hx(p), rng.randrange(0, total + 1), ",".join(q)))
        # ---- (2) long payloads: function level, through a real connection (whole / cut / behind waiting streams)
        LP = self._long_payloads(tier, rng)
        for p in LP:
            L.append("set dec " + hx(p))
        for role in ("server", "client"):
            for p in LP:
                total = 1 + 1 + len(vi(len(p))) + len(p)
                cuts = {0, rng.randrange(1, total)}
                if total > 131:
                    cuts.add(rng.choice([3 + 127, 3 + 128, 3 + 129, 131]))
                for cut in sorted(cuts):
                    L.append("set apply %s %s %d" % (role, hx(p), cut))
                if rng.random() < 0.25:
                    L.append("set applyq %s %s %d %s" % (role, hx(p), rng.randrange(0, total + 1),
                                                         ",".join(rng.choice(self.PRE_BASIC) for _ in range(rng.randrange(1, 4)))))
            for a in LP[:6]:
                L.append("set apply2 %s %s %s" % (role, hx(a), hx(payload([(6, 1)]))))
                L.append("set cell %s %s" % (hx(a), hx(payload([(6, 1)]))))
        # ---- (3) setup under back-pressure
        L += self._cfgw_lines(tier, rng)
        return L

    def cases(self, tier, rng):
        big = tier == "thorough"
        L = self._cfg_lines(tier, rng)
        P = self._payloads(tier, rng)
        for p in P:
            L.append("set dec " + hx(p))
        # insert sequences / header encoding / round trip
        L.append("set enc -")
        L.append("set enc 6:1,6:2,0:7,%d:1,5:%d" % (2**62, 2**62))
        L.append("set enc " + ",".join("%d:%d" % (i, 2**62 - 1) for i in (1, 2, 3, 4, 5)))
        L.append("set enc " + ",".join("%d:%d" % (k, k) for k in range(1, 10)))
        L.append("set enc " + ",".join("%d:%d" % (i, 2**62 - 1) for i in SUPPORTED))            # 7 x up to 12 bytes
        L.append("set enc " + ",".join("%d:%d" % (2**62 - 1 - k, 2**62 - 1) for k in range(8)))    # 128 bytes: WriteBuf overflow
        L.append("set enc " + ",".join("%d:%d" % (2**62 - 1 - k, 2**62 - 1) for k in range(3)) + ",6:1,7:64")
        for n in range(0, 9):   # payload sizes around the array bound (64 - 3 header bytes)
            L.append("set enc " + ",".join(["%d:%d" % (2**62 - 1 - k, 2**62 - 1) for k in range(3)] +
                                             ["%d:1" % (9 + k) for k in range(min(n, 5))]))
        for _ in range(30000 if big else 3000):
            n = rng.randrange(0, 11)
            ps = []
            for _ in range(n):
                c = rng.random()
                i = (rng.choice(SUPPORTED) if c < 0.6 else rng.choice(UNKNOWN) if c < 0.8 else
                     rng.choice(RESERVED) if c < 0.85 else rng.choice([2**62, U64, 2**62 - 1]) if c < 0.9 else
                     rng.getrandbits(rng.choice([6, 14, 30, 62])))
                v = rng.choice([0, 1, 63, 64, 16384, 2**30, 2**62 - 1, 2**62, U64, rng.getrandbits(62)])
                ps.append("%d:%d" % (i, v))
            L.append("set enc " + (",".join(ps) if ps else "-"))
        for _ in range(3000 if big else 300):    # supported ids only: the round trip demanded by the spec half
            k = rng.randrange(1, 8)
            ids = rng.sample(SUPPORTED, k)
            L.append("set enc " + ",".join("%d:%d" % (i, rng.choice([0, 1, 64, 2**30, 2**62 - 1, rng.getrandbits(62)])) for i in ids))
        # the write-once cell
        good = [payload([(6, 1)]), payload([(6, 2), (8, 1)]), [], payload([(0x33, 1), (0x2B603742, 1), (0x2B603743, 9)]),
                payload([(0x21, 5)]), payload([(6, 2**62 - 1), (8, 0)]), payload([(8, 2)])]
        for a in good:
            for b in good:
                L.append("set cell %s %s" % (hx(a), hx(b)))
        L.append("set cell 0601 06")
        # a peer control stream into a real connection, both roles, every cut position
        applyp = good + [payload([(6, 1), (6, 2)]), payload([(0, 1)]), [6], payload([(6, 1)]) + [0x40],
                         payload([(9, 1), (9, 1)]), payload([(4, 0), (6, 3)]), payload([(6, 3), (5, 0)]),
                         payload([(1, 4096), (7, 100), (6, 65536), (8, 1), (0x33, 1), (0x2B603742, 1), (0x2B603743, 1)])]
        for _ in range(200 if big else 40):
            applyp.append(rng.choice(P))
        for role in ("server", "client"):
            for p in applyp:
                total = 1 + 1 + len(vi(len(p))) + len(p)
                for cut in range(0, total + 1):
                    L.append("set apply %s %s %d" % (role, hx(p), cut))
            for _ in range(20000 if big else 3000):
                p = rng.choice(P)
                total = 1 + 1 + len(vi(len(p))) + len(p)
                L.append("set apply %s %s %d" % (role, hx(p), rng.randrange(0, total + 1)))
            for a in applyp[:12]:
                for b in applyp[:12]:
                    L.append("set apply2 %s %s %s" % (role, hx(a), hx(b)))
        L += self._second_round(tier, rng, P)
        L += self._third_round(tier, rng, P)
        return L

    # ------------------------------------------------------------------ reporting

    def klass(self, line, impl):
        w = line.split()
        op = w[1] if len(w) > 1 else "?"
        it = impl.split()
        r = it[0] if it else "empty"
        if op == "cfg":
            g = "g1" if "gid=" in line else "g0"
            return "cfg/%s/%s/%s" % (w[2] if len(w) > 2 else "?", g, r)
        if op == "cfgw":
            g = "g1" if "gid=" in line else "g0"
            n = it[-1].split("=")[1] if it and it[-1].startswith("pieces=") else "?"
            n = n if n in ("0", "1", "2") else "3+"
            return "cfgw/%s/%s/%s/pieces=%s" % (w[2] if len(w) > 2 else "?", g, r, n)
        if op == "applyq":
            pre = w[5].split(",") if len(w) > 5 else []
            full = sum(1 for q in pre if q in self.PRE_FULL)
            return "applyq/%s/ahead=%d/resolved=%d/%s/%s" % (w[2], len(pre), min(full, 3), "cfg" if len(w) > 6 else "dflt",
                                                           " ".join(it[-2:]) if "closed" in it[-2:] else "open")
        if op == "dec":
            size = len(w[2]) // 2 if len(w) > 2 and w[2] != "-" else 0
            sz = "" if size <= 64 else "/65-128" if size <= 128 else "/129+"
            if r == "err" and len(it) >= 3:
                return "dec/err/" + it[2].split(":")[0] + sz
            return "dec/" + r + sz
        if op == "enc":
            hdr = it[it.index("hdr") + 1] if "hdr" in it[:-1] else "?"
            rt = it[it.index("rt") + 1] if "rt" in it[:-1] else "-"
            return "enc/%s/%s" % ("panic" if hdr == "panic" else "hdr", rt.split(":")[0])
        if op in ("apply", "apply2"):
            return "%s/%s/%s/%s" % (op, w[2] if len(w) > 2 else "?", "cfg" if len(w) > 5 else "dflt",
                                    " ".join(it[-2:]) if "closed" in it[-2:] else "open")
        return op + "/" + r

    def trivial(self, line, impl):
        return impl.split(" ")[0] in ("bad-op", "bad-case", "setup-failed", "pending", "abort", "")

    def shrink_candidates(self, line):
        w = line.split()
        out = []
        if len(w) < 3:
            return out
        if w[1] == "dec" and w[2] != "-":
            h = w[2]
            out.append("set dec " + (h[:-2] or "-"))
            out.append("set dec " + (h[2:] or "-"))
            for k in (4, 8, 16, 64, 256):
                if len(h) > k:
                    out.append("set dec " + h[k:])
                    out.append("set dec " + h[:-k])
        elif w[1] == "cfg":
            toks = w[3:]
            for i, t in enumerate(toks):
                k, _, v = t.partition("=")
                if k in ("seed", "gid"):
                    continue
                if k != "grease":      # an omitted key is the builder default
                    out.append(" ".join(w[:3] + toks[:i] + toks[i + 1:]))
                if k == "grease" and v == "1":
                    out.append(" ".join(w[:3] + [x for x in toks if not x.startswith(("seed=", "gid=", "grease="))] + ["grease=0"]))
                elif k in ("mfs", "wts") and v.isdigit() and int(v) > 0:
                    for nv in (0, 2**62, int(v) // 2):
                        if nv < int(v):
                            out.append(" ".join(w[:3] + toks[:i] + ["%s=%d" % (k, nv)] + toks[i + 1:]))
                elif v == "1":
                    out.append(" ".join(w[:3] + toks[:i] + [k + "=0"] + toks[i + 1:]))
        elif w[1] == "cfgw" and len(w) >= 4:
            pat = w[3].split(",")
            for i in range(len(pat)):
                if len(pat) > 1:
                    out.append(" ".join(w[:3] + [",".join(pat[:i] + pat[i + 1:])] + w[4:]))
            toks = w[4:]
            for i, t in enumerate(toks):
                k, _, v = t.partition("=")
                if k in ("seed", "gid"):
                    continue
                if k != "grease":
                    out.append(" ".join(w[:4] + toks[:i] + toks[i + 1:]))
                if k == "grease" and v == "1":
                    out.append(" ".join(w[:4] + [x for x in toks if not x.startswith(("seed=", "gid=", "grease="))] + ["grease=0"]))
                elif k in ("mfs", "wts") and v.isdigit() and int(v) > 0:
                    out.append(" ".join(w[:4] + toks[:i] + ["%s=0" % k] + toks[i + 1:]))
                elif v == "1":
                    out.append(" ".join(w[:4] + toks[:i] + [k + "=0"] + toks[i + 1:]))
        elif w[1] == "applyq" and len(w) >= 6:
            pre = w[5].split(",")
            tail = w[6:]
            for i in range(len(tail)):      # the local configuration, key by key (absent = builder default)
                out.append(" ".join(w[:6] + tail[:i] + tail[i + 1:]))
            for i in range(len(pre)):
                if len(pre) > 1:
                    out.append(" ".join(w[:5] + [",".join(pre[:i] + pre[i + 1:])] + tail))
            for i, q in enumerate(pre):
                if q != "-":
                    out.append(" ".join(w[:5] + [",".join(pre[:i] + ["-"] + pre[i + 1:])] + tail))
            if w[4] != "0":
                out.append(" ".join(w[:4] + ["0", w[5]] + tail))
            if w[3] != "-":
                h = w[3]
                for k in (64, 16, 4, 2):
                    if len(h) > k:
                        out.append(" ".join(w[:3] + [h[k:], w[4], w[5]] + tail))
                        out.append(" ".join(w[:3] + [h[:-k], w[4], w[5]] + tail))
        elif w[1] == "enc" and w[2] != "-":
            ps = w[2].split(",")
            for i in range(len(ps)):
                rest = ps[:i] + ps[i + 1:]
                out.append("set enc " + (",".join(rest) if rest else "-"))
        elif w[1] == "apply" and len(w) >= 5:
            tail = w[5:]
            for i in range(len(tail)):
                out.append(" ".join(w[:5] + tail[:i] + tail[i + 1:]))
            if w[4] != "0":
                out.append(" ".join(w[:4] + ["0"] + tail))
            if w[3] != "-":
                out.append(" ".join(w[:3] + [w[3][:-2] or "-", w[4]] + tail))
                out.append(" ".join(w[:3] + [w[3][2:] or "-", w[4]] + tail))
                for k in (16, 64, 256):
                    if len(w[3]) > k:
                        out.append(" ".join(w[:3] + [w[3][k:], w[4]] + tail))
                        out.append(" ".join(w[:3] + [w[3][:-k], w[4]] + tail))
        elif w[1] in ("apply2", "cell") and len(w) >= 4:
            core = 5 if w[1] == "apply2" else 4
            tail = w[core:]
            for i in range(len(tail)):
                out.append(" ".join(w[:core] + tail[:i] + tail[i + 1:]))
            for j in (core - 2, core - 1):
                if w[j] != "-":
                    out.append(" ".join(w[:j] + [w[j][:-2] or "-"] + w[j + 1:]))
        return out


PROP = C13()
