import itertools

import vlib
from vlib import Prop
from props.c16 import hx

U64 = 2**64 - 1
VALUES = [0, 1, 63, 64, 16383, 16384, 2**30 - 1, 2**30, 2**62 - 1, 2**62, U64]
SUPPORTED = [6, 1, 7, 8, 0x33, 0x2B603742, 0x2B603743]
FLAGS = [8, 0x33, 0x2B603742]
RESERVED = [0, 2, 3, 4, 5]
UNKNOWN = [9, 0x10, 0x3F, 0x40, 0x21, 0x21 + 31, 0x21 + 31 * 1337, 0xFFD277, 0x2B603741, 0x2B603744,
           2**62 - 1, 31 * 148764065110560898 + 33, 16383, 16384, 2**30]


def vi(x, form=None):
    """QUIC varint of x; `form` in 0..3 forces the 1/2/4/8-byte form (must be large enough)."""
    need = 0 if x < 2**6 else 1 if x < 2**14 else 2 if x < 2**30 else 3
    if form is None or form < need:
        form = need
    n = 1 << form
    v = x | (form << (8 * n - 2))
    return [(v >> (8 * (n - 1 - i))) & 0xFF for i in range(n)]


def forms(x):
    need = 0 if x < 2**6 else 1 if x < 2**14 else 2 if x < 2**30 else 3
    return list(range(need, 4))


def payload(pairs, rng=None):
    out = []
    for i, v in pairs:
        if rng is None:
            out += vi(i) + vi(v)
        else:
            out += vi(i, rng.choice(forms(i))) + vi(v, rng.choice(forms(v)))
    return out


class C13(Prop):
    id = "C13"
    thorough_rounds = 3   # thorough tier: this many independently seeded rounds of the random generators (duplicates dropped)
    modules = ["H3.Props.C13", "H3.Lemmas.GenAgreeSend"]
    engines = ["set"]
    design_ref = "DESIGN.md section 7, C13"
    level_text = ("Lean theorems over models of frame::Settings::{insert,get,len,encode,decode}, SettingId::{is_supported,"
                  "is_forbidden,grease}, TryFrom<Config> for Settings, From<&Settings> for config::Settings, "
                  "WriteBuf::from(UniStreamHeader::Control), the conversion-error path of send_control_stream_headers and the "
                  "write-once settings cell: for every configuration with both numbers < 2^62 and every grease draw N setup "
                  "does not panic and the control stream is 00 04 len payload (len = |payload|, total <= 42 <= "
                  "WRITE_BUF_ENCODE_SIZE) whose RFC parse is exactly the configured pairs (+ grease iff on), no id twice, none "
                  "reserved, grease never collides; a number >= 2^62 makes build return an error with nothing written (after "
                  "the D-13 repair); for every received payload the decoder agrees with the RFC 9114 7.2.4 oracle (truncated "
                  "-> connection error, reserved / repeated supported id -> H3_SETTINGS_ERROR, else applied exactly, unknown "
                  "ids ignored, never Exceeded); defaults until the first set, first value for ever; decode(encode s) = s")
    level_note = ("trusted: Lean kernel + 3 standard axioms; hand-written models tied to the code by the differential run (full "
                  "builder product in both roles over the real connection setup on an in-memory transport; received payloads "
                  "through the real Frame::decode and through a real connection's control stream) and by the translator "
                  "(SETTINGS_LEN, WRITE_BUF_ENCODE_SIZE, supported/reserved id lists, grease formula, config defaults "
                  "regenerated from source); reading R-13: repeated unknown ids may be ignored or rejected; boolean-valued "
                  "settings carrying a value other than 0/1 are outside the property's wording (no demand)")
    rule = ("cases: set cfg = {wt,ec,dg} x mfs,wts in {0,1,63,64,16383,16384,2^30-1,2^30,2^62-1,2^62,u64::MAX} x grease on/off "
            "(server) and {ec,dg} x mfs x grease (client) + omitted-key (default) variants, grease identifier = the real "
            "SettingId::grease() under a per-case fastrand seed; set dec = every supported id x boundary values x all varint "
            "forms, permutations, duplicates of supported and unknown ids, reserved ids in every position/form, grease and "
            "unknown ids, every truncation, all 1- and 2-byte payloads, random bytes and random "
            "structured payloads; set enc = insert sequences incl. repeats, >8 entries, >= 2^62, WriteBuf overflow; set cell / "
            "set apply (every cut position) / set apply2 through SharedState and a real connection in both roles; "
            "non-trivial = implementation result is not bad-op/bad-case/setup-failed/pending; distinct = distinct case lines")
    trusted = ["sim.rs in-memory QUIC transport (delivers and records bytes verbatim)",
               "fastrand 2.x thread-local generator: same seed, same first draw (the grease identifier of a case line)",
               "derived Debug output of config::Settings / frame::Settings (parsed by the harness; the numeric fields have no getter)"]
    assumptions = ["SettingId::grease() is the first fastrand draw of connection setup (checked: a wrong gid breaks the byte-exact correspondence)",
                   "std::sync::OnceLock set/get semantics for the settings cell (exercised by set cell / set apply2)"]

    # ------------------------------------------------------------------ generators

    def _gids(self, seeds):
        """grease identifier for each fastrand seed, from the real SettingId::grease()."""
        lines = ["set gid %d" % s for s in seeds]
        rc, out, err = vlib.run_lines(vlib.RUN, lines)
        if rc != 0 or len(out) != len(lines) or not all(o.isdigit() for o in out):
            raise RuntimeError("set gid pre-pass failed: rc=%s %s" % (rc, out[:3]))
        return dict(zip(seeds, (int(o) for o in out)))

    def _cfg_lines(self, tier, rng):
        raw = []  # (role, tokens, grease_on)
        for g in (0, 1):
            for mfs in VALUES:
                for wts in VALUES:
                    for wt, ec, dg in itertools.product((0, 1), repeat=3):
                        raw.append(("server", ["mfs=%d" % mfs, "wt=%d" % wt, "ec=%d" % ec, "dg=%d" % dg,
                                               "wts=%d" % wts, "grease=%d" % g], g))
                for ec, dg in itertools.product((0, 1), repeat=2):
                    raw.append(("client", ["mfs=%d" % mfs, "ec=%d" % ec, "dg=%d" % dg, "grease=%d" % g], g))
        # omitted keys = builder defaults (grease is on by default)
        for role in ("server", "client"):
            raw.append((role, [], 1))
            raw.append((role, ["grease=0"], 0))
            raw.append((role, ["mfs=1"], 1))
            raw.append((role, ["ec=1", "grease=0"], 0))
            raw.append((role, ["dg=1"], 1))
        raw.append(("server", ["wt=1", "grease=0"], 0))
        raw.append(("server", ["wts=7"], 1))
        raw.append(("server", ["wts=%d" % 2**62], 1))
        # neighbours of the boundaries and random values
        for _ in range(20000 if tier == "thorough" else 2000):
            role = rng.choice(("server", "client"))
            g = rng.randrange(2)
            val = lambda: rng.choice([rng.getrandbits(rng.choice([6, 14, 30, 62, 64])),
                                      max(0, min(U64, rng.choice(VALUES) + rng.choice([-2, -1, 1, 2])))])
            t = ["mfs=%d" % val(), "ec=%d" % rng.randrange(2), "dg=%d" % rng.randrange(2), "grease=%d" % g]
            if role == "server":
                t += ["wt=%d" % rng.randrange(2), "wts=%d" % val()]
            rng.shuffle(t)
            raw.append((role, t, g))
        seeds = {}
        for i, (_, _, g) in enumerate(raw):
            if g:
                seeds[i] = rng.getrandbits(64)
        gid = self._gids(sorted(set(seeds.values()))) if seeds else {}
        L = []
        for i, (role, t, g) in enumerate(raw):
            if g:
                t = t + ["seed=%d" % seeds[i], "gid=%d" % gid[seeds[i]]]
            L.append(" ".join(["set", "cfg", role] + t))
        # malformed lines answer bad-op on both sides
        L.append("set cfg client mfs=0 wt=1 grease=0")
        L.append("set cfg server mfs=5")
        return L

    def _payloads(self, tier, rng):
        big = tier == "thorough"
        P = [[]]
        small = [0, 1, 2, 63, 64, 16383, 16384, 2**30 - 1, 2**30, 2**62 - 1]
        # every supported id x boundary values x every varint form of id and value
        for i in SUPPORTED:
            for v in small:
                for fi in forms(i):
                    for fv in forms(v):
                        P.append(vi(i, fi) + vi(v, fv))
        # permutations of the supported ids
        perms = list(itertools.permutations(SUPPORTED))
        rng.shuffle(perms)
        for p in perms[: (5040 if big else 720)]:
            P.append(payload([(i, rng.choice(small)) for i in p]))
        for k in (2, 3):
            for p in itertools.permutations(SUPPORTED, k):
                P.append(payload([(i, rng.choice([0, 1, 5, 70000])) for i in p]))
        # duplicates: supported (adjacent, distant, same/different value), unknown, grease
        base = [(i, 1) for i in SUPPORTED]
        for i in SUPPORTED:
            P.append(payload([(i, 1), (i, 1)]))
            P.append(payload([(i, 0), (i, 2)]))
            P.append(payload(base + [(i, 9)]))
            P.append(payload([(0x21, 0), (i, 3), (9, 9), (i, 3)]))
            P.append(vi(i, 0) + vi(1) + vi(i, 3) + vi(1))       # same id in two length forms
        for u in UNKNOWN:
            P.append(payload([(u, 0)]))
            P.append(payload([(u, 1), (u, 1)]))
            P.append(payload([(u, 1), (6, 7), (u, 2)]))
            P.append(payload([(6, 7), (u, 2**62 - 1)]))
            P.append(payload([(u, 5)] * 9))                      # more unknown entries than slots
        P.append(payload([(9 + k, k) for k in range(40)]))
        P.append(payload([(6, 4)] + [(0x21 + 31 * k, k) for k in range(20)] + [(8, 1)]))
        # reserved ids, each position, each form; value forms; truncated value after a reserved id
        for r in RESERVED:
            for f in range(4):
                P.append(vi(r, f) + vi(0))
                P.append(vi(r, f) + vi(2**40))
                P.append(payload([(6, 1)]) + vi(r, f) + vi(1))
                P.append(vi(r, f) + vi(1) + payload([(6, 1), (6, 1)]))
                P.append(vi(r, f))
                P.append(vi(r, f) + [0x80, 0x00])
            P.append(payload(base) + vi(r) + vi(0))
            P.append(payload([(0x21, 1), (r, 1), (0x21, 1)]))
        # flags with values other than 0/1
        for i in FLAGS:
            for v in (2, 3, 255, 2**62 - 1):
                P.append(payload([(i, v)]))
        # every truncation of some valid payloads (and one byte more)
        for _ in range(200 if big else 30):
            k = rng.randrange(1, 6)
            ids = rng.sample(SUPPORTED + UNKNOWN[:8], k)
            full = payload([(i, rng.choice(small + [rng.getrandbits(62)])) for i in ids], rng)
            for n in range(len(full) + 1):
                P.append(full[:n])
            P.append(full + [rng.randrange(256)])
        full = payload([(6, 2**62 - 1), (0x2B603743, 2**62 - 1), (0x2B603742, 1), (8, 1), (0x33, 1), (1, 0), (7, 0)])
        for n in range(len(full) + 1):
            P.append(full[:n])
        # all 1- and 2-byte payloads
        for a in range(256):
            P.append([a])
        for a in range(256):
            for b in range(256):
                P.append([a, b])
        # random structured payloads: a mix of supported / unknown / reserved / repeated, random forms
        for _ in range(200000 if big else 20000):
            n = rng.randrange(0, 9)
            pairs = []
            for _ in range(n):
                c = rng.random()
                if c < 0.55:
                    i = rng.choice(SUPPORTED)
                elif c < 0.8:
                    i = rng.choice(UNKNOWN + [rng.getrandbits(rng.choice([6, 14, 30, 62]))])
                elif c < 0.87:
                    i = rng.choice(RESERVED)
                elif pairs:
                    i = rng.choice(pairs)[0]
                else:
                    i = 6
                v = rng.choice([0, 1, 1, rng.choice(small), rng.getrandbits(rng.choice([6, 14, 30, 62]))])
                pairs.append((i, v))
            p = payload(pairs, rng)
            if rng.random() < 0.15 and p:
                p = p[: rng.randrange(len(p))]
            P.append(p)
        # random bytes
        for _ in range(200000 if big else 20000):
            P.append([rng.randrange(256) for _ in range(rng.randrange(0, 25))])
        return P

    def cases(self, tier, rng):
        big = tier == "thorough"
        L = self._cfg_lines(tier, rng)
        P = self._payloads(tier, rng)
        for p in P:
            L.append("set dec " + hx(p))
        # insert sequences / header encoding / round trip
        L.append("set enc -")
        L.append("set enc 6:1,6:2,0:7,%d:1,5:%d" % (2**62, 2**62))
        L.append("set enc " + ",".join("%d:%d" % (i, 2**62 - 1) for i in (1, 2, 3, 4, 5)))
        L.append("set enc " + ",".join("%d:%d" % (k, k) for k in range(1, 10)))
        L.append("set enc " + ",".join("%d:%d" % (i, 2**62 - 1) for i in SUPPORTED))            # 7 x up to 12 bytes
        L.append("set enc " + ",".join("%d:%d" % (2**62 - 1 - k, 2**62 - 1) for k in range(8)))    # 128 bytes: WriteBuf overflow
        L.append("set enc " + ",".join("%d:%d" % (2**62 - 1 - k, 2**62 - 1) for k in range(3)) + ",6:1,7:64")
        for n in range(0, 9):   # payload sizes around the array bound (64 - 3 header bytes)
            L.append("set enc " + ",".join(["%d:%d" % (2**62 - 1 - k, 2**62 - 1) for k in range(3)] +
                                             ["%d:1" % (9 + k) for k in range(min(n, 5))]))
        for _ in range(30000 if big else 3000):
            n = rng.randrange(0, 11)
            ps = []
            for _ in range(n):
                c = rng.random()
                i = (rng.choice(SUPPORTED) if c < 0.6 else rng.choice(UNKNOWN) if c < 0.8 else
                     rng.choice(RESERVED) if c < 0.85 else rng.choice([2**62, U64, 2**62 - 1]) if c < 0.9 else
                     rng.getrandbits(rng.choice([6, 14, 30, 62])))
                v = rng.choice([0, 1, 63, 64, 16384, 2**30, 2**62 - 1, 2**62, U64, rng.getrandbits(62)])
                ps.append("%d:%d" % (i, v))
            L.append("set enc " + (",".join(ps) if ps else "-"))
        for _ in range(3000 if big else 300):    # supported ids only: the round trip demanded by the spec half
            k = rng.randrange(1, 8)
            ids = rng.sample(SUPPORTED, k)
            L.append("set enc " + ",".join("%d:%d" % (i, rng.choice([0, 1, 64, 2**30, 2**62 - 1, rng.getrandbits(62)])) for i in ids))
        # the write-once cell
        good = [payload([(6, 1)]), payload([(6, 2), (8, 1)]), [], payload([(0x33, 1), (0x2B603742, 1), (0x2B603743, 9)]),
                payload([(0x21, 5)]), payload([(6, 2**62 - 1), (8, 0)]), payload([(8, 2)])]
        for a in good:
            for b in good:
                L.append("set cell %s %s" % (hx(a), hx(b)))
        L.append("set cell 0601 06")
        # a peer control stream into a real connection, both roles, every cut position
        applyp = good + [payload([(6, 1), (6, 2)]), payload([(0, 1)]), [6], payload([(6, 1)]) + [0x40],
                         payload([(9, 1), (9, 1)]), payload([(4, 0), (6, 3)]), payload([(6, 3), (5, 0)]),
                         payload([(1, 4096), (7, 100), (6, 65536), (8, 1), (0x33, 1), (0x2B603742, 1), (0x2B603743, 1)])]
        for _ in range(200 if big else 40):
            applyp.append(rng.choice(P))
        for role in ("server", "client"):
            for p in applyp:
                total = 1 + 1 + len(vi(len(p))) + len(p)
                for cut in range(0, total + 1):
                    L.append("set apply %s %s %d" % (role, hx(p), cut))
            for _ in range(20000 if big else 3000):
                p = rng.choice(P)
                total = 1 + 1 + len(vi(len(p))) + len(p)
                L.append("set apply %s %s %d" % (role, hx(p), rng.randrange(0, total + 1)))
            for a in applyp[:12]:
                for b in applyp[:12]:
                    L.append("set apply2 %s %s %s" % (role, hx(a), hx(b)))
        return L

    # ------------------------------------------------------------------ reporting

    def klass(self, line, impl):
        w = line.split()
        op = w[1] if len(w) > 1 else "?"
        it = impl.split()
        r = it[0] if it else "empty"
        if op == "cfg":
            g = "g1" if "gid=" in line else "g0"
            return "cfg/%s/%s/%s" % (w[2] if len(w) > 2 else "?", g, r)
        if op == "dec":
            if r == "err" and len(it) >= 3:
                return "dec/err/" + it[2].split(":")[0]
            return "dec/" + r
        if op == "enc":
            hdr = it[it.index("hdr") + 1] if "hdr" in it[:-1] else "?"
            rt = it[it.index("rt") + 1] if "rt" in it[:-1] else "-"
            return "enc/%s/%s" % ("panic" if hdr == "panic" else "hdr", rt.split(":")[0])
        if op in ("apply", "apply2"):
            return "%s/%s/%s" % (op, w[2] if len(w) > 2 else "?", " ".join(it[-2:]) if "closed" in it[-2:] else "open")
        return op + "/" + r

    def trivial(self, line, impl):
        return impl.split(" ")[0] in ("bad-op", "bad-case", "setup-failed", "pending", "abort", "")

    def shrink_candidates(self, line):
        w = line.split()
        out = []
        if len(w) < 3:
            return out
        if w[1] == "dec" and w[2] != "-":
            h = w[2]
            out.append("set dec " + (h[:-2] or "-"))
            out.append("set dec " + (h[2:] or "-"))
            for k in (4, 8, 16):
                if len(h) > k:
                    out.append("set dec " + h[k:])
                    out.append("set dec " + h[:-k])
        elif w[1] == "cfg":
            toks = w[3:]
            for i, t in enumerate(toks):
                k, _, v = t.partition("=")
                if k in ("seed", "gid"):
                    continue
                if k != "grease":      # an omitted key is the builder default
                    out.append(" ".join(w[:3] + toks[:i] + toks[i + 1:]))
                if k == "grease" and v == "1":
                    out.append(" ".join(w[:3] + [x for x in toks if not x.startswith(("seed=", "gid=", "grease="))] + ["grease=0"]))
                elif k in ("mfs", "wts") and v.isdigit() and int(v) > 0:
                    for nv in (0, 2**62, int(v) // 2):
                        if nv < int(v):
                            out.append(" ".join(w[:3] + toks[:i] + ["%s=%d" % (k, nv)] + toks[i + 1:]))
                elif v == "1":
                    out.append(" ".join(w[:3] + toks[:i] + [k + "=0"] + toks[i + 1:]))
        elif w[1] == "enc" and w[2] != "-":
            ps = w[2].split(",")
            for i in range(len(ps)):
                rest = ps[:i] + ps[i + 1:]
                out.append("set enc " + (",".join(rest) if rest else "-"))
        elif w[1] == "apply" and len(w) == 5:
            if w[4] != "0":
                out.append(" ".join(w[:4] + ["0"]))
            if w[3] != "-":
                out.append(" ".join(w[:3] + [w[3][:-2] or "-", w[4]]))
                out.append(" ".join(w[:3] + [w[3][2:] or "-", w[4]]))
        elif w[1] in ("apply2", "cell") and len(w) >= 4:
            for j in (len(w) - 2, len(w) - 1):
                if w[j] != "-":
                    out.append(" ".join(w[:j] + [w[j][:-2] or "-"] + w[j + 1:]))
        return out


PROP = C13()
