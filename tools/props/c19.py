import re

from vlib import Prop
from props.c16 import hx
from props.c02 import varint

CONNECT = "01200000cfd750831af1ff518263cf2f00b95d8749c87a3f89f058d360ea4567b13f"   # CONNECT https://a.b/x :protocol=webtransport
GET = "010d0000d1d750831af1ff518263cf"
PEER_SETTINGS = "00040e0801ab603742013301ab60374301"   # ec=1, wt=1, datagram=1, max sessions=1


class C19(Prop):
    id = "C19"
    thorough_rounds = 12   # thorough tier: this many independently seeded rounds of the random generators (duplicates dropped)
    modules = ["H3.Props.C19"]
    engines = ["wt"]
    design_ref = "DESIGN.md section 7, C19"
    level_text = ("Lean theorems: the session id is the CONNECT stream's id (conversions are the identity, the header written "
                  "at the start of every stream opened for the session parses back to the WebTransport stream type and exactly "
                  "that id, for every id incl. multi-byte varints); an incoming bidi stream's header is decoded by the frame layer "
                  "to exactly the session id the peer wrote, consuming exactly the header; for every chunking the bytes obtainable "
                  "after the header are exactly the bytes that follow it (corollary of the C02 invariant / C04 type resolution); "
                  "uni streams are surfaced iff the extension is enabled")
    level_note = ("trusted: Lean kernel + 3 axioms; models tied by real h3-webtransport WebTransportSession over SimQuic "
                  "(accept, session_id, open_bi/open_uni, accept_bi/accept_uni, stream reads/writes, datagrams)")
    rule = ("CONNECT on stream ids 0,4,8,…,256,16384,65536,2^30 (all varint forms), session accepted first or after "
            "other requests, payloads cut at every offset around the header/payload boundary (header and payload in one chunk, "
            "cuts inside either varint), extension enabled or not, uni and bidi, both directions, non-minimal varints in peer "
            "headers; non-trivial = a session was accepted")
    trusted = []
    assumptions = ["one WebTransport uni stream pending at a time (accept_uni pops the most recent)"]

    def project(self, line, impl):
        if " | " not in impl:
            return impl
        trace, summ = impl.split(" | ", 1)
        out = []
        for t in trace.split():
            if re.match(r"^(conn\.(WT|sid|ob|ou|ab|au)|w\d+\.(wr|ra))=", t):
                out.append(t)
        # a pending accept_uni is an observable when the extension is off
        m = re.search(r"pending=\[([^\]]*)\]", summ)
        if m and "conn.au" in m.group(1).split(","):
            out.append("conn.au=pending")
        # bytes on streams the server opened (ids ≡ 1 mod 4 bidi, ≡ 3 mod 4 uni beyond the three setup streams)
        for m in re.finditer(r"(\d+):tx=([0-9a-f-]+)", summ):
            sid = int(m.group(1))
            if sid % 4 == 1 or (sid % 4 == 3 and sid > 11):
                out.append("%d:tx=%s" % (sid, m.group(2)))
        return " ".join(out)

    def klass_raw(self, line, raw):
        ops = line.split()[3:]
        c = [int(o[1:]) for o in ops if re.match(r"^o\d+$", o) and int(o[1:]) % 4 == 0]
        return "connect=%s wt=%s %s%s%s%s" % (
            "multi" if c and c[0] >= 64 else "small", "1" if "wt=1" in line.split()[2] else "0",
            "ab " if "conn.ab" in line else "", "au " if "conn.au" in line else "",
            "ob " if "conn.ob" in line else "", "ou" if "conn.ou" in line else "")

    def trivial_raw(self, line, raw):
        return "conn.WT=ok" not in raw

    def cuts(self, sid, data, boundary, rng):
        """deliver `data` on stream sid; choose cut points around the header/payload boundary"""
        n = len(data)
        kind = rng.random()
        if kind < 0.25:
            pts = []
        elif kind < 0.5:
            pts = [rng.choice([max(1, boundary - 1), boundary, min(n - 1, boundary + 1)])] if n > 1 else []
        elif kind < 0.75:
            pts = list(range(1, n))
        else:
            pts = sorted({rng.randrange(1, n) for _ in range(rng.randrange(1, 4))}) if n > 1 else []
        out, prev = [], 0
        for p in [p for p in pts if 0 < p < n] + [n]:
            if p > prev:
                out.append("s%d:%s" % (sid, hx(data[prev:p])))
                prev = p
        return out

    def one_case(self, rng):
        wt = rng.random() < 0.85
        cfg = "g0,wt=%d,ec=1,dg=1,seed=%d" % (1 if wt else 0, rng.randrange(0, 1000))
        connect = rng.choice([0, 4, 8, 12, 60, 64, 256, 16380, 16384, 65536, 2**30, 2**30 + 4])
        ops = ["o2", "s2:" + PEER_SETTINGS]
        if rng.random() < 0.4 and connect >= 8:
            # an ordinary request first
            ops += ["o0", "s0:" + GET, "f0", "conn.A", "q0.res", "q0.sr:200", "q0.fi"]
        ops += ["o%d" % connect, "s%d:%s" % (connect, CONNECT), "conn.WT", "conn.sid"]
        used_b = connect + 4
        used_u = 6
        for _ in range(rng.randrange(1, 5)):
            k = rng.random()
            if k < 0.25:
                ops.append("conn.ob" if rng.random() < 0.7 else "conn.ob:%d" % rng.choice([0, 4, 64, 2**14]))
            elif k < 0.5:
                ops.append("conn.ou")
            elif k < 0.75:
                sess = connect if rng.random() < 0.8 else rng.choice([0, 4, 100, 2**20])
                form = rng.choice([None, None, 1, 2, 3])
                need = 0 if sess < 64 else 1 if sess < 2**14 else 2 if sess < 2**30 else 3
                hdr = varint(0x41, rng.choice([1, 1, 2])) + varint(sess, max(form or 0, need))
                payload = [rng.getrandbits(8) for _ in range(rng.choice([0, 1, 2, 5, 30]))]
                b = used_b
                used_b += 4
                ops.append("o%d" % b)
                ops += self.cuts(b, hdr + payload, len(hdr), rng)
                if rng.random() < 0.5:
                    ops += ["conn.ab", "f%d" % b, "w%d.ra" % b]
                else:
                    ops += ["f%d" % b, "conn.ab", "w%d.ra" % b]
            else:
                sess = connect if rng.random() < 0.8 else rng.choice([0, 4, 100, 2**20])
                need = 0 if sess < 64 else 1 if sess < 2**14 else 2 if sess < 2**30 else 3
                hdr = varint(0x54, rng.choice([1, 1, 2, 3])) + varint(sess, max(rng.choice([0, 0, 1, 2, 3]), need))
                payload = [rng.getrandbits(8) for _ in range(rng.choice([0, 1, 2, 5, 30]))]
                u = used_u
                used_u += 4
                ops.append("o%d" % u)
                ops += self.cuts(u, hdr + payload, len(hdr), rng)
                if wt:
                    if rng.random() < 0.5:
                        ops += ["conn.au", "f%d" % u, "w%d.ra" % u]
                    else:
                        ops += ["f%d" % u, "conn.au", "w%d.ra" % u]
                else:
                    ops += ["f%d" % u, "conn.au"]
                    break   # the session task now waits in accept_uni for ever
        # write something on streams the server opened
        nb, nu = 1, 15
        final = []
        for op in ops:
            if op.startswith("conn.ob"):
                final.append("w%d.wr:%s" % (nb, hx([rng.getrandbits(8) for _ in range(rng.choice([1, 3, 10]))])))
                nb += 4
            if op == "conn.ou":
                final.append("w%d.wr:%s" % (nu, hx([rng.getrandbits(8) for _ in range(rng.choice([1, 3, 10]))])))
                nu += 4
        if wt or "conn.au" not in ops:
            ops += final
        return "wt server %s %s" % (cfg, " ".join(ops))

    def cases(self, tier, rng):
        return [self.one_case(rng) for _ in range(6000 if tier == "thorough" else 1200)]

    def shrink_candidates(self, line):
        w = line.split()
        ops = w[3:]
        out = []
        for i in range(len(ops)):
            if ops[i] in ("o2", "conn.WT") or ops[i].startswith("s2:"):
                continue
            out.append(" ".join(w[:3] + ops[:i] + ops[i + 1:]))
        return out


PROP = C19()
