import atexit
import re
import subprocess

import vlib
from vlib import Prop
from props.c16 import hx
from props.c02 import varint

CONNECT = "01200000cfd750831af1ff518263cf2f00b95d8749c87a3f89f058d360ea4567b13f"   # CONNECT https://a.b/x :protocol=webtransport
GET = "010d0000d1d750831af1ff518263cf"
PEER_SETTINGS = "00040e0801ab603742013301ab60374301"   # ec=1, wt=1, datagram=1, max sessions=1
U = 2**64 - 1    # `cw<sid>:U` = unlimited write credit
BIG_IDS = [2**32, 2**40 + 4, 2**62 - 4]      # session / stream ids that do not fit 32 bits (8-byte varints)
OPEN_IDS = [0, 4, 64, 2**14, 2**30] + BIG_IDS    # session ids handed to open_bi / open_uni explicitly


def first_bidi(connect):
    """the first client bidi stream id used after the CONNECT stream (opening ORDER is what the transport goes by)"""
    return connect + 4 if connect + 4 * 256 < 2**62 else 4


def flags(rng):
    """the server's own extended-CONNECT / datagram settings: WebTransportSession::accept only warns about them"""
    return "ec=%d,dg=%d" % ((1, 1) if rng.random() < 0.7 else (rng.randrange(2), rng.randrange(2)))


def vneed(v):
    return 0 if v < 64 else 1 if v < 2**14 else 2 if v < 2**30 else 3


class Judge:
    """One long-lived `h3drv` for single lines (`project`, used by C18 and by the shrinker); whole
    runs go through `project_all` in batches."""

    def __init__(self):
        self.p = None

    def ask(self, line):
        for attempt in (0, 1):
            if self.p is None or self.p.poll() is not None:
                self.p = subprocess.Popen([vlib.DRV], stdin=subprocess.PIPE, stdout=subprocess.PIPE, text=True)
            try:
                self.p.stdin.write(line + "\n")
                self.p.stdin.flush()
                r = self.p.stdout.readline()
                if r:
                    return r.rstrip("\n")
            except (BrokenPipeError, OSError):
                pass
            self.p = None
        return "judge-failed"

    def close(self):
        if self.p is not None and self.p.poll() is None:
            try:
                self.p.stdin.close()
                self.p.wait(timeout=5)
            except Exception:
                self.p.kill()
        self.p = None


JUDGE = Judge()
atexit.register(JUDGE.close)


class C19(Prop):
    id = "C19"
    thorough_rounds = 12   # thorough tier: this many independently seeded rounds of the random generators (duplicates dropped)
    modules = ["H3.Props.C19"]
    engines = ["wt"]
    design_ref = "DESIGN.md section 7, C19"
    level_text = ("Lean theorems: the session id is the CONNECT stream's id (conversions are the identity, the header written "
                  "at the start of every stream opened for the session parses back to the WebTransport stream type and exactly "
                  "that id, for every id incl. multi-byte varints); an incoming bidi stream's header is decoded by the frame layer "
                  "to exactly the session id the peer wrote, consuming exactly the header; for every chunking the bytes obtainable "
                  "after the header are exactly the bytes that follow it (corollary of the C02 invariant / C04 type resolution); "
                  "the gate proved over the running model: with the extension disabled no accept_uni ever surfaces a stream and "
                  "nothing is ever pushed on wt_uni_streams, whatever arrives in whatever interleaving (runAccepts false), and a "
                  "surfaced stream has resolved to the WebTransport uni type; LIVENESS of the bidi header: for every cutting of "
                  "header ++ payload (any encoding of the two varints, Pending anywhere, nothing behind FIN / RESET) re-polling "
                  "poll_next ends with the WebTransport frame of that session - never Pending with the script used up, never an "
                  "error - and then buffer ++ future = payload (C19_bidi_header_is_answered / _then_payload); the uni theorems "
                  "hold for every header the RFC parser reads as type 0x54 + session id (non-minimal varints); the 0x41 signal is "
                  "answered only for the very first bytes unless frames of unknown type precede it (D-19b: partial theorem + "
                  "decide witness of the negation); reading through AsyncRead::poll_read (futures and tokio) "
                  "with EVERY sequence of positive caller buffer sizes hands out exactly those bytes, each once and in order, every "
                  "call at least one byte and at most its buffer, Ok(0) only behind the last byte (induction over the size list, "
                  "over the BufList::take_chunk(limit) model); for every session id, acceptance pattern of the transport and sequence "
                  "of write calls (poll_send, futures/tokio poll_write, send_data+poll_ready, poll_finish/close/shutdown, reset) the "
                  "wire of an opened uni/bidi stream is header(sid) ++ the bytes handed over, in order (a prefix while a call waits), "
                  "it decodes to that sid with exactly those bytes behind it, and read back by the peer model it yields them again; "
                  "for ANY interleaving of arriving uni streams (any stream ids, session ids, payloads, cuttings) and accept_uni calls "
                  "the entries surfaced plus those still buffered in wt_uni_streams are a PERMUTATION of the arrived (stream, session "
                  "id in its header, its payload) triples - none twice, none lost, none with another stream's id or bytes - and "
                  "accept_uni waits only when nothing is buffered (model: pending_recv_streams pass + Vec push/pop)")
    level_note = ("trusted: Lean kernel + 3 axioms; models tied by real h3-webtransport WebTransportSession over SimQuic "
                  "(accept, session_id, open_bi/open_uni, accept_bi/accept_uni, BidiStream::split, stream reads through poll_data and "
                  "through both AsyncRead impls with caller-chosen buffer sizes, writes through poll_send, both AsyncWrite impls and "
                  "send_data/poll_ready under write credit granted a few bytes at a time, poll_finish/poll_close/poll_shutdown, "
                  "reset/stop_sending, DatagramSender/DatagramReader); the per-call byte counts are compared with the model, the spec "
                  "half of the driver has no opinion on them")
    rule = ("CONNECT on stream ids 0,4,8,…,256,16384,65536,2^30,2^32,2^40+4,2^62-4 (all varint forms), session accepted first "
            "or after other requests (GET on 0 + CONNECT on 4 included), explicit session ids 0…2^62-4 (incl. 2^32, 2^40+4, 2^62-4) "
            "on streams the server opens, the server's own ec / dg settings on or off, open_bi / open_uni waiting for stream "
            "credit (uc= / bc= + gu / gb), the RETURN direction of server-opened bidi streams (bytes that look like headers "
            "or frames included), frames of unknown type in front of the 0x41 signal (complete / cut off), bidi streams opened "
            "before conn.WT, a request arriving through accept_bi, 0x41 / 0x54 in every varint form up to 8 bytes, up to 12 uni "
            "streams buffered together, payloads cut at every offset around the header/payload boundary (header and payload in one chunk, "
            "cuts inside either varint), extension enabled or not, uni and bidi, both directions, non-minimal varints in peer "
            "headers; reads: poll_data, futures poll_read, tokio poll_read, mixed on one stream, before/after split, buffer sizes 1 "
            "… larger than any chunk (cycling lists), data/FIN/RESET arriving before the accept, before the read or while it waits; "
            "writes on opened and accepted streams: slices and DATA frames of 0…70 bytes, credit unlimited / 0,1,2,5 then grants of "
            "1…50 bytes, left short, or STOP_SENDING while waiting; the stream header itself under initial credit 0…5; datagrams "
            "for the session, for other ids, truncated / too large quarter ids; 2-4 uni streams (and 0-2 bidi streams) "
            "outstanding together before the first accept (distinct marked payloads, own / foreign session ids in every varint "
            "form, headers complete or not at the accept, FIN / RESET / left open, some opened before the session exists, "
            "accepts and reads interleaved with late data, one accept too few / too many); a stream abandoned inside its header "
            "at every offset (0 = nothing at all) x uni/bidi x FIN/RESET x before the accept / while it waits, followed by a "
            "complete stream and further accepts of both kinds; non-trivial = a session was accepted")
    trusted = []
    assumptions = ["the ORDER in which buffered uni streams are surfaced is the implementation's choice (the code pops the one pushed "
                   "last; the model does the same, the specification accepts any order): the judge (engine wtj) lets each accept_uni "
                   "surface the stream the implementation names if that is a buffered WebTransport stream with a complete header, "
                   "not surfaced before, and demands ITS session id and, in the reads, ITS payload",
                   "bidirectional streams are handed to accept_bi by the transport in the order opened (SimQuic; h3 does not buffer them)",
                   "a stream that ends inside its WebTransport header: uni = never surfaced; bidi = accept_bi answers an error or None, "
                   "never a stream; after an accept answered a connection error every later accept answers an error; whether and with "
                   "which code the connection is then closed is C04's / C06's subject (the closed=[..] token may be absent)",
                   "a request that comes in through accept_bi (AcceptedBi::Request) must be answered as a request on that stream or "
                   "with an error, never as a WebTransport stream; what the request API does with it is C03's subject",
                   "an accept may be left waiting at the end of a line only if the RFC 9000 / RFC 9114 parsers (no model code) find no "
                   "complete 0x41 / 0x54 header on a stream it could surface: the judge refuses conn.ab=pending / conn.au=pending "
                   "otherwise, also when model and implementation agree on the stall",
                   "R-19a / D-19b: the 0x41 signal behind frames of unknown type must be refused (draft-ietf-webtrans-http3 4.2: only "
                   "the very first bytes; H3_FRAME_ERROR); h3 surfaces the stream: known finding, verdict KNOWN:D-19b only when the "
                   "session id and the payload are those behind that 0x41 and nothing else on the line departs",
                   "transport chunks are non-empty and FIN / RESET are sticky (SimQuic; R-T)",
                   "a datagram error surfaces as a connection close at the next accept_bi / accept_uni of the session"]

    # The specification is a predicate over the observed answers (the property has no opinion on the ORDER in which
    # buffered streams are surfaced): the observables are sent through the Lean judge (engine `wtj`), its verdict is
    # prefixed; the driver prints `<verdict on the model's answers> <model tokens> ## ok **`.
    def judge_line(self, line, obs):
        return "wtj " + line.split(" ", 1)[1] + " @@ " + obs

    def project(self, line, impl):
        if " | " not in impl or not line.startswith("wt "):
            return impl
        obs = self.observables(line, impl)
        return (JUDGE.ask(self.judge_line(line, obs)) + " " + obs).strip()

    def project_all(self, lines, impls):
        obs = [self.observables(l, o) if (" | " in o and l.startswith("wt ")) else None for l, o in zip(lines, impls)]
        idx = [i for i, o in enumerate(obs) if o is not None]
        ask = [self.judge_line(lines[i], obs[i]) for i in idx]
        verdicts = []
        if ask:
            w = vlib.workers_for(self)
            if w <= 1 or len(ask) < 4000:
                verdicts = self._judge_batch(ask)
            else:
                from concurrent.futures import ThreadPoolExecutor
                n = (len(ask) + w - 1) // w
                with ThreadPoolExecutor(max_workers=w) as ex:
                    for part in ex.map(self._judge_batch, [ask[k:k + n] for k in range(0, len(ask), n)]):
                        verdicts += part
        res = list(impls)
        for k, i in enumerate(idx):
            res[i] = (verdicts[k] + " " + obs[i]).strip()
        return res

    def _judge_batch(self, ask):
        rc, out, err = vlib.run_lines(vlib.DRV, ask)
        if rc != 0 or len(out) != len(ask):
            raise RuntimeError("h3drv (judge) failed rc=%s out=%d/%d %s" % (rc, len(out), len(ask), err[-400:]))
        return [o.strip() for o in out]

    def finding_applies(self, line, impl, model, spec, finding):
        """a listed finding waives a line only if the judge found NOTHING else wrong with it: its verdict is
        `KNOWN:<tags>` (every departure is the listed symptom of a recorded finding, the rest of the line - session
        ids, payloads, wire bytes - is as demanded) and names this finding"""
        v = impl.split(" ", 1)[0]
        return v.startswith("KNOWN:") and finding.get("key", "")[5:] in v[6:].split(",")

    def observables(self, line, impl):
        trace, summ = impl.split(" | ", 1)
        out = []
        shown = set()
        for t in trace.split():
            if re.match(r"^(conn\.(WT|sid|ob|ou|ab|au|dgs|dgr)|w\d+s?\.(wr|ra|rf|rt|rff|rtf|sp|sd|wf|wt|fi|cl|sh|rst|ss))=", t):
                # a request that came in through accept_bi (`AcceptedBi::Request`): that it is a request, and on which
                # stream; what the request API makes of it is C03's subject
                mr = re.match(r"^(conn\.ab=req:\d+):", t)
                out.append(mr.group(1) if mr else t)
            m = re.match(r"^conn\.(ab=bidi|au=uni):session=\d+:stream=(\d+)$", t)
            if m:
                shown.add(int(m.group(2)))
        # calls still waiting (for data, for write credit, for a datagram; accept_uni when the extension
        # is off) are observables: in the order of the summary (sorted by task name)
        m = re.search(r"pending=\[([^\]]*)\]", summ)
        if m:
            for e in m.group(1).split(","):
                if re.match(r"^(conn\.(WT|au|ab|ob|ou|dgr)|w\d+s?\.\w+)$", e):
                    out.append(e + "=pending")
        # streams the server opened (ids ≡ 1 mod 4 bidi, ≡ 3 mod 4 uni beyond the three setup streams) and
        # streams accepted for the session: bytes written, FIN / RESET / STOP_SENDING issued by h3
        for m in re.finditer(r"(\d+):tx=(\S+)", summ):
            sid = int(m.group(1))
            if sid % 4 == 1 or (sid % 4 == 3 and sid > 11) or sid in shown:
                out.append("%d:tx=%s" % (sid, m.group(2)))
        m = re.search(r"closed=\[([^\]]+)\]", summ)
        if m:
            out.append("closed=[%s]" % m.group(1))
        m = re.search(r"dgrams=\[[^\]]*\]", summ)
        if m:
            out.append(m.group(0))
        return " ".join(out)

    def klass_raw(self, line, raw):
        ops = line.split()[3:]
        c = [int(o[1:]) for o in ops if re.match(r"^o\d+$", o) and int(o[1:]) % 4 == 0]
        api = [o.split(".", 1)[1].split(":")[0] for o in ops if re.match(r"^w\d+s?\.", o)]
        io = [k for k in api if k not in ("wr", "ra")]
        dg = "conn.dgs" in line or "conn.dgr" in line
        trace0 = raw.split(" | ")[0]
        surfaced = [int(x) for x in re.findall(r"conn\.au=uni:session=\d+:stream=(\d+)", trace0)]
        buf = ""
        if len(surfaced) >= 2:
            n = len(surfaced)
            buf = " uni-surfaced=%s order=%s" % (n if n <= 4 else "5-7" if n < 8 else "8+", "opening" if surfaced == sorted(surfaced) else
                                                  "reverse" if surfaced == sorted(surfaced, reverse=True) else "mixed")
        if re.search(r"conn\.ab=req:", trace0):
            buf += " request-through-accept_bi"
        for m in re.finditer(r"conn\.ab=bidi:session=\d+:stream=(\d+)", trace0):
            data = "".join(o.split(":", 1)[1] for o in ops if o.startswith("s%s:" % m.group(1)))
            if data:
                b0 = int(data[:2], 16)
                n = 1 << (b0 >> 6)
                ty = int(data[:2 * n], 16) & ((1 << (8 * n - 2)) - 1) if len(data) >= 2 * n else 0x41
                if ty != 0x41:
                    buf += " signal-behind-unknown-frames(D-19b)"
                    break
        if re.search(r"\bconn\.ob\b", line) and re.search(r" s\d*[159]:", line):
            buf += " return-direction"
        if "H3_FRAME_ERROR" in trace0:
            buf += " header-truncated"
        elif re.search(r"conn\.ab=(none|err:rterm)", trace0):
            buf += " header-abandoned"
        if not io and not dg and ",wc=" not in line.split()[2]:
            # the cases about ids, headers and cuts (reads through poll_data, writes through poll_send)
            return "connect=%s wt=%s %s%s%s%s%s" % (
                "multi" if c and c[0] >= 64 else "small", "1" if "wt=1" in line.split()[2] else "0",
                "ab " if "conn.ab" in line else "", "au " if "conn.au" in line else "",
                "ob " if "conn.ob" in line else "", "ou" if "conn.ou" in line else "", buf)
        # the cases about the I/O faces: which read face(s), which write face(s), and the most telling thing that happened
        names = {"ra": "poll_data", "rf": "futures", "rt": "tokio", "rff": "futures-fill", "rtf": "tokio-fill",
                 "wr": "poll_send", "wf": "futures", "wt": "tokio", "sd": "send_data"}
        rd = sorted({names[k] for k in api if k in ("ra", "rf", "rt", "rff", "rtf")})
        wr = sorted({names[k] for k in api if k in ("wr", "wf", "wt", "sd")})
        trace = raw.split(" | ")[0]
        if "H3_DATAGRAM_ERROR" in raw:
            what = "datagram-error"
        elif re.search(r"w\d+s?\.(w[rft]|sd)=err:rterm", trace):
            what = "write-stopped"
        elif re.search(r"w\d+s?\.r[aft][ft]?=[^ ]*err:rterm", trace):
            what = "read-reset"
        elif re.search(r"pending=\[[^\]]*(w\d|conn\.o)", raw):
            what = "left-waiting"
        elif re.search(r"w\d+s?\.w[ft]=ok:n=\d+,", trace) or ",wc=" in line.split()[2]:
            what = "credit-piecewise"
        elif re.search(r"w\d+s?\.r[ft][ft]?=[^ ]*:more", trace):
            what = "read-partial"
        elif "sp" in api:
            what = "split"
        elif dg:
            what = "datagram"
        else:
            what = "plain"
        return "io rd=%s wr=%s %s%s" % ("mixed" if len(rd) > 1 else rd[0] if rd else "-",
                                        "mixed" if len(wr) > 1 else wr[0] if wr else "-", what, buf)

    def trivial_raw(self, line, raw):
        return "conn.WT=ok" not in raw

    def cuts(self, sid, data, boundary, rng):
        """deliver `data` on stream sid; choose cut points around the header/payload boundary"""
        n = len(data)
        kind = rng.random()
        if kind < 0.25:
            pts = []
        elif kind < 0.5:
            pts = [rng.choice([max(1, boundary - 1), boundary, min(n - 1, boundary + 1)])] if n > 1 else []
        elif kind < 0.75:
            pts = list(range(1, n))
        else:
            pts = sorted({rng.randrange(1, n) for _ in range(rng.randrange(1, 4))}) if n > 1 else []
        out, prev = [], 0
        for p in [p for p in pts if 0 < p < n] + [n]:
            if p > prev:
                out.append("s%d:%s" % (sid, hx(data[prev:p])))
                prev = p
        return out

    def one_case_basic(self, rng):
        wt = rng.random() < 0.85
        cfg = "g0,wt=%d,%s,seed=%d" % (1 if wt else 0, flags(rng), rng.randrange(0, 1000))
        connect = rng.choice([0, 4, 8, 12, 60, 64, 256, 16380, 16384, 65536, 2**30, 2**30 + 4] + BIG_IDS)
        ops = ["o2", "s2:" + PEER_SETTINGS]
        if rng.random() < 0.4 and connect >= 4:
            # an ordinary request first (GET on stream 0, CONNECT on stream 4 included)
            ops += ["o0", "s0:" + GET, "f0", "conn.A", "q0.res", "q0.sr:200", "q0.fi"]
        ops += ["o%d" % connect, "s%d:%s" % (connect, CONNECT), "conn.WT", "conn.sid"]
        used_b = first_bidi(connect)
        used_u = 6
        if wt and rng.random() < 0.3:
            # several incoming streams outstanding before the first accept
            pre, accepts, late, reads, used_u, used_b = self.burst(rng, connect, used_u, used_b, wt, allow_trunc=False)
            ops += pre + accepts + late
            for r in reads:
                ops += r
        for _ in range(rng.randrange(1, 5)):
            k = rng.random()
            if k < 0.25:
                ops.append("conn.ob" if rng.random() < 0.6 else "conn.ob:%d" % rng.choice(OPEN_IDS))
            elif k < 0.5:
                ops.append("conn.ou" if rng.random() < 0.6 else "conn.ou:%d" % rng.choice(OPEN_IDS))
            elif k < 0.75:
                sess = connect if rng.random() < 0.8 else rng.choice([0, 4, 100, 2**20] + BIG_IDS)
                form = rng.choice([None, None, 1, 2, 3])
                need = vneed(sess)
                hdr = varint(0x41, rng.choice([1, 1, 2, 3])) + varint(sess, max(form or 0, need))
                payload = [rng.getrandbits(8) for _ in range(rng.choice([0, 1, 2, 5, 30]))]
                b = used_b
                used_b += 4
                ops.append("o%d" % b)
                ops += self.cuts(b, hdr + payload, len(hdr), rng)
                if rng.random() < 0.5:
                    ops += ["conn.ab", "f%d" % b, "w%d.ra" % b]
                else:
                    ops += ["f%d" % b, "conn.ab", "w%d.ra" % b]
            else:
                sess = connect if rng.random() < 0.8 else rng.choice([0, 4, 100, 2**20] + BIG_IDS)
                need = vneed(sess)
                hdr = varint(0x54, rng.choice([1, 1, 2, 3])) + varint(sess, max(rng.choice([0, 0, 1, 2, 3]), need))
                payload = [rng.getrandbits(8) for _ in range(rng.choice([0, 1, 2, 5, 30]))]
                u = used_u
                used_u += 4
                ops.append("o%d" % u)
                ops += self.cuts(u, hdr + payload, len(hdr), rng)
                if wt:
                    if rng.random() < 0.5:
                        ops += ["conn.au", "f%d" % u, "w%d.ra" % u]
                    else:
                        ops += ["f%d" % u, "conn.au", "w%d.ra" % u]
                else:
                    ops += ["f%d" % u, "conn.au"]
                    break   # the session task now waits in accept_uni for ever
        # write something on streams the server opened
        nb, nu = 1, 15
        final = []
        for op in ops:
            if op.startswith("conn.ob"):
                final.append("w%d.wr:%s" % (nb, hx([rng.getrandbits(8) for _ in range(rng.choice([1, 3, 10]))])))
                nb += 4
            if op.startswith("conn.ou"):
                final.append("w%d.wr:%s" % (nu, hx([rng.getrandbits(8) for _ in range(rng.choice([1, 3, 10]))])))
                nu += 4
        if wt or "conn.au" not in ops:
            ops += final
        return "wt server %s %s" % (cfg, " ".join(ops))


    # ------------------------------------------------------------------ several streams outstanding before an accept

    def wt_header(self, rng, bidi, sess):
        need = vneed(sess)
        if bidi:
            return varint(0x41, rng.choice([1, 1, 2, 3])) + varint(sess, max(rng.choice([0, 0, 1, 2, 3]), need))
        return varint(0x54, rng.choice([1, 1, 2, 3])) + varint(sess, max(rng.choice([0, 0, 1, 2, 3]), need))

    def burst(self, rng, connect, used_u, used_b, wt, allow_trunc=True, many=False):
        """2-4 WebTransport uni streams (and 0-2 bidi streams) opened by the peer and outstanding at the same time:
        different payloads, session ids that are / are not the session's, different chunkings, headers complete or
        not when the first accept runs, some finished, some reset, some left open, one now and then abandoned inside
        its header.  Returns (events up to the accepts, accept calls, reads / late events, used_u, used_b)."""
        streams = []     # (sid, bidi, events before, events later)
        # `many`: up to 12 uni streams buffered together (well beyond any small fixed bound on `wt_uni_streams`)
        nuni = rng.choice([2, 2, 3, 3, 4]) if not many else rng.choice([5, 7, 8, 9, 10, 12])
        nbidi = rng.choice([0, 0, 1, 1, 2])
        kinds = [False] * nuni + [True] * nbidi
        rng.shuffle(kinds)
        sessions = [connect, connect, 0, 4, 8, 100, 2**14, 2**20, 2**30 + 4, 2**40] + BIG_IDS
        marks = list(range(0xa0, 0xb0))
        rng.shuffle(marks)
        for n, bidi in enumerate(kinds):
            if bidi:
                sid = used_b
                used_b += 4
            else:
                sid = used_u
                used_u += 4
            sess = rng.choice(sessions)
            hdr = self.wt_header(rng, bidi, sess)
            plen = rng.choice([0, 1, 1, 2, 5, 9, 30]) if not many else rng.choice([1, 1, 2, 3])
            # payloads that tell the streams apart: the first byte is a mark of the stream
            payload = ([marks[n]] + [rng.getrandbits(8) for _ in range(plen - 1)]) if plen else []
            if allow_trunc and rng.random() < 0.12:
                # abandoned inside the header
                k = rng.randrange(0, len(hdr))
                data = hdr[:k]
                chunks = self.cuts(sid, data, max(1, k), rng) if data else []
                ev = ["o%d" % sid] + chunks + [rng.choice(["f%d" % sid, "f%d" % sid, "r%d:%d" % (sid, rng.choice([0, 3, 2**20]))])]
                cut = len(ev) if rng.random() < 0.7 else rng.randrange(1, len(ev) + 1)
                streams.append((sid, bidi, ev[:cut], ev[cut:], False))
                continue
            chunks = self.cuts(sid, hdr + payload, len(hdr), rng)
            end = rng.random()
            endop = ["f%d" % sid] if end < 0.5 else ["r%d:%d" % (sid, rng.choice([0, 9, 2**20]))] if end < 0.62 else []
            ev = ["o%d" % sid] + chunks + endop
            r = rng.random() if not many else rng.random() * 0.5
            if r < 0.45:
                cut = len(ev)                                   # everything is there before the first accept
            elif r < 0.8:
                # the header is complete, the rest comes later
                covered, j = 0, 0
                while covered < len(hdr):
                    covered += (len(chunks[j]) - len("s%d:" % sid)) // 2
                    j += 1
                cut = 1 + rng.randrange(j, len(chunks) + 1)
            else:
                cut = rng.randrange(1, len(ev) + 1)             # possibly not even the header
            streams.append((sid, bidi, ev[:cut], ev[cut:], True))
        pre = []
        for st in streams:
            pre = self.merge(rng, pre, st[2])
        unis = [st for st in streams if not st[1]]
        bidis = [st for st in streams if st[1]]
        accepts = []
        if wt:
            n_au = len([u for u in unis if u[4]]) + rng.choice([-1, 0, 0, 0])
            accepts += ["conn.au"] * max(1, n_au)
        accepts_b = ["conn.ab"] * len(bidis)
        accepts = self.merge(rng, accepts, accepts_b)
        late = []
        for st in streams:
            late = self.merge(rng, late, st[3])
        reads = []
        for st in streams:
            task = "w%d" % st[0]
            k = rng.random()
            if k < 0.5:
                reads.append([task + ".ra"])
            elif k < 0.85:
                reads.append([task + "." + self.read_op(rng, 8)])
            else:
                reads.append([task + "." + self.read_op(rng, 8, rng.randrange(1, 4)), task + ".ra"])
        return pre, accepts, late, reads, used_u, used_b

    def one_case_buffered(self, rng):
        """the session, then a burst of incoming streams that are outstanding together; the accepts; the reads"""
        wt = rng.random() < 0.93
        cfg = "g0,wt=%d,%s,seed=%d" % (1 if wt else 0, flags(rng), rng.randrange(0, 1000))
        connect = rng.choice([0, 4, 8, 12, 60, 64, 256, 16384, 2**30] + BIG_IDS)
        ops = ["o2", "s2:" + PEER_SETTINGS]
        if rng.random() < 0.25 and connect >= 4:
            ops += ["o0", "s0:" + GET, "f0", "conn.A", "q0.res", "q0.sr:200", "q0.fi"]
        pre, accepts, late, reads, used_u, used_b = self.burst(rng, connect, 6, first_bidi(connect), wt,
                                                               many=rng.random() < 0.15)
        head = ["o%d" % connect, "s%d:%s" % (connect, CONNECT), "conn.WT", "conn.sid"]
        early = rng.random() < 0.3
        if early:
            # uni streams that arrive before the session exists wait in `wt_uni_streams` too; bidi streams opened
            # before `conn.WT` (behind the CONNECT stream) wait in the transport - half of the time they go first too
            both = rng.random() < 0.5
            ops += head[:2]
            head = head[2:]
            uni_pre = [o for o in pre if both or int(re.match(r"^[osfr](\d+)", o).group(1)) % 4 == 2]
            rest = [o for o in pre if o not in uni_pre]
            k = rng.randrange(1, len(uni_pre) + 1)
            ops += uni_pre[:k] + head + self.merge(rng, uni_pre[k:], rest)
        else:
            ops += head + pre
        if not wt:
            # accept_uni never answers: only the bidi side and then one accept_uni
            ops += [a for a in accepts if a == "conn.ab"] + late + ["conn.au"]
            return "wt server %s %s" % (cfg, " ".join(ops))
        style = rng.random()
        flat_reads = []
        for r in reads:
            flat_reads = self.merge(rng, flat_reads, r)
        if style < 0.4:
            # all accepts, then the rest of the data, then the reads
            ops += accepts + late + flat_reads
        elif style < 0.7:
            # data keeps arriving between the accepts; reads at the end
            ops += self.merge(rng, accepts, late) + flat_reads
        else:
            # everything interleaved: a read of a stream not surfaced yet answers `no-task`
            ops += self.merge(rng, self.merge(rng, accepts, late), flat_reads)
        if rng.random() < 0.2:
            ops.append(rng.choice(["conn.au", "conn.ab"]))     # one accept too many: it waits
        return "wt server %s %s" % (cfg, " ".join(ops))

    def trunc_cases(self, rng, reps):
        """a WebTransport stream abandoned inside its header: every header offset (0 = nothing at all), uni and bidi,
        one- to eight-byte session ids, FIN or RESET, before the accept or while it waits; then a complete stream and
        further accepts (after a truncated bidi header every accept answers the connection error)"""
        L = []
        for _ in range(reps):
            for bidi in (False, True):
                for sess in (4, 0, 63, 64, 16383, 16384, 2**30 - 1, 2**30, 2**62 - 4):
                    hdr = self.wt_header(rng, bidi, sess)
                    for k in range(0, len(hdr)):
                        for endk in ("f", "r"):
                            cfg = "g0,wt=1,%s,seed=%d" % (flags(rng), rng.randrange(0, 1000))
                            connect = rng.choice([0, 4, 64, 16384, 2**32, 2**40 + 4])
                            sid = connect + 4 if bidi else 6
                            ops = ["o2", "s2:" + PEER_SETTINGS, "o%d" % connect, "s%d:%s" % (connect, CONNECT), "conn.WT", "conn.sid"]
                            # a stream accepted before, still readable afterwards
                            if rng.random() < 0.5:
                                first_bidi = rng.random() < 0.5
                                fsid = (sid + 4 if bidi else connect + 4) if first_bidi else (10 if not bidi else 6)
                                fh = self.wt_header(rng, first_bidi, connect)
                                ops += ["o%d" % fsid, "s%d:%s" % (fsid, hx(fh + [0xee])), "conn.ab" if first_bidi else "conn.au"]
                                tail = ["s%d:ef" % fsid, "f%d" % fsid, "w%d.ra" % fsid]
                            else:
                                fsid, tail = None, []
                            acc = "conn.ab" if bidi else "conn.au"
                            endop = "f%d" % sid if endk == "f" else "r%d:%d" % (sid, rng.choice([0, 5, 2**20]))
                            part = ["o%d" % sid] + (self.cuts(sid, hdr[:k], max(1, k), rng) if k else [])
                            order = rng.random()
                            if order < 0.4:
                                ops += part + [endop, acc]
                            elif order < 0.8:
                                ops += part + [acc, endop]
                            else:
                                ops += [part[0], acc] + part[1:] + [endop]
                            # what comes next: a complete stream of the same kind and accepts of both kinds
                            nsid = max(sid, fsid or 0) + (4 if (max(sid, fsid or 0) % 4 == (0 if bidi else 2)) else 0)
                            while nsid % 4 != (0 if bidi else 2) or nsid in (sid, fsid):
                                nsid += 2 if nsid % 2 == 0 else 1
                            nh = self.wt_header(rng, bidi, rng.choice([connect, 8, 2**20]))
                            nxt = ["o%d" % nsid, "s%d:%s" % (nsid, hx(nh + [0xcc, 0xdd])), "f%d" % nsid]
                            if not bidi and order >= 0.4 and rng.random() < 0.5:
                                # the accept_uni that was waiting takes this stream
                                ops += nxt + ["w%d.ra" % nsid]
                            else:
                                ops += nxt + [acc, "w%d.ra" % nsid]
                            for _ in range(rng.randrange(0, 3)):
                                ops.append(rng.choice(["conn.ab", "conn.au", "conn.dgs:0a", "conn.ob", "conn.ou"]))
                                if ops[-1] in ("conn.ab", "conn.au") and not (bidi and endk == "f" and k > 0):
                                    break    # without a connection error this accept waits for ever
                            ops += tail
                            L.append("wt server %s %s" % (cfg, " ".join(ops)))
        return L

    # ------------------------------------------------------------------ I/O faces of the streams

    def buf_sizes(self, rng, maxchunk):
        """caller buffer sizes for `poll_read` (used cyclically): from 1 byte to larger than any chunk"""
        k = rng.random()
        if k < 0.2:
            return [1]
        if k < 0.3:
            return [2]
        if k < 0.4:
            return [rng.choice([3, 5, 7])]
        if k < 0.55:
            return [rng.randrange(1, 6) for _ in range(rng.randrange(2, 5))]
        if k < 0.65:
            return [max(1, maxchunk - 1)]
        if k < 0.75:
            return [max(1, maxchunk)]
        if k < 0.85:
            return [maxchunk + 1]
        if k < 0.95:
            return [64]
        return [4096]

    def read_op(self, rng, maxchunk, calls=None):
        # `rff` / `rtf` = FILL mode: each caller buffer is filled to its end by as many calls as it takes (tokio: one
        # ReadBuf across the calls, so poll_read sees partly filled buffers; futures: the unfilled sub-slice)
        m = rng.choice(["rf", "rf", "rt", "rt", "ra", "rff", "rtf", "rtf"]) if calls is None else \
            rng.choice(["rf", "rt", "rff", "rtf"])
        if m == "ra":
            return "ra"
        if m in ("rff", "rtf") and rng.random() < 0.6:
            # buffers that a chunk will cross: larger than the smallest, smaller than two of the chunks
            sizes = [rng.choice([2, 3, 5, 8, maxchunk + 1, maxchunk + 2, 2 * maxchunk - 1, 2 * maxchunk + 1])
                     for _ in range(rng.randrange(1, 4))]
            return "%s:%s%s" % (m, ",".join(str(max(1, x)) for x in sizes), "" if calls is None else ":%d" % calls)
        return "%s:%s%s" % (m, ",".join(map(str, self.buf_sizes(rng, maxchunk))), "" if calls is None else ":%d" % calls)

    def merge(self, rng, a, b):
        """random interleaving of two op lists, each keeping its order"""
        a, b, out = list(a), list(b), []
        while a or b:
            if a and (not b or rng.random() < len(a) / (len(a) + len(b))):
                out.append(a.pop(0))
            else:
                out.append(b.pop(0))
        return out

    def write_program(self, rng, task, sid, limited_cfg):
        """write calls on a send side: slices through poll_send / futures / tokio poll_write, DATA frames through
        send_data + poll_ready, under write credit granted a few bytes at a time; then a finishing call"""
        ops = []
        lim = rng.random() < 0.6
        if lim:
            ops.append("cw%d:%d" % (sid, rng.choice([0, 0, 1, 2, 5])))
        elif limited_cfg:
            ops.append("cw%d:%d" % (sid, U))
        credit = None
        if lim:
            credit = int(ops[0].split(":")[1])
        alive = True
        for _ in range(rng.randrange(1, 4)):
            kind = rng.choice(["wr", "wf", "wf", "wt", "wt", "sd", "sd"])
            n = rng.choice([0, 1, 2, 3, 8, 20, 70])
            data = [rng.getrandbits(8) for _ in range(n)]
            ops.append("%s.%s:%s" % (task, kind, hx(data)))
            need = n if kind != "sd" else n + 1 + (1 if n < 64 else 2)
            if not lim:
                continue
            fate = rng.random()
            if fate < 0.07:
                # the peer asks to stop while the call waits (or right after it)
                ops.append("x%d:%d" % (sid, rng.choice([0, 7, 300])))
                if rng.random() < 0.5:
                    ops.append("%s.%s:%s" % (task, rng.choice(["wr", "wf", "wt", "sd"]), hx([1, 2])))
                alive = False
                break
            short = fate < 0.15
            while credit < need:
                g = rng.choice([1, 1, 2, 3, 6, 50])
                if short and credit + g >= need:
                    break
                ops.append("gw%d:%d" % (sid, g))
                credit += g
            if credit < need:
                alive = False      # the call stays pending: nothing more on this task
                break
            credit -= need
        if alive:
            k = rng.random()
            if k < 0.2:
                ops.append("%s.fi" % task)
            elif k < 0.4:
                ops.append("%s.cl" % task)
            elif k < 0.6:
                ops.append("%s.sh" % task)
            elif k < 0.75:
                ops.append("%s.rst:%d" % (task, rng.choice([0, 5, 2**32])))
        return ops, alive

    def incoming(self, rng, sid, bidi, connect, limited_cfg):
        """a WebTransport stream opened by the peer: (ops up to and including the accept, thread of later ops)"""
        sess = connect if rng.random() < 0.8 else rng.choice([0, 4, 100, 2**20] + BIG_IDS)
        need = vneed(sess)
        if bidi:
            hdr = varint(0x41, rng.choice([1, 1, 2, 3])) + varint(sess, max(rng.choice([0, 0, 1, 2, 3]), need))
        else:
            hdr = varint(0x54, rng.choice([1, 1, 2, 3])) + varint(sess, max(rng.choice([0, 0, 1, 2, 3]), need))
        payload = [rng.getrandbits(8) for _ in range(rng.choice([0, 1, 2, 5, 9, 30]))]
        chunks = self.cuts(sid, hdr + payload, len(hdr), rng)
        # the chunks before the accept cover the header
        covered, j = 0, 0
        while covered < len(hdr):
            covered += (len(chunks[j]) - len("s%d:" % sid)) // 2
            j += 1
        j = rng.randrange(j, len(chunks) + 1)
        maxchunk = max((len(c) - len("s%d:" % sid)) // 2 for c in chunks)
        end = rng.random()
        endop = ["f%d" % sid] if end < 0.8 else ["r%d:%d" % (sid, rng.choice([0, 9, 2**20]))] if end < 0.95 else []
        pre = ["o%d" % sid] + chunks[:j]
        later = chunks[j:] + endop
        if rng.random() < 0.3:
            # everything is there before the accept
            pre += later
            later = []
        pre.append("conn.ab" if bidi else "conn.au")
        task = "w%d" % sid
        plan = rng.random()
        reads = []
        if plan >= 0.35:
            reads.append(self.read_op(rng, maxchunk, rng.randrange(1, 5)))
        if plan >= 0.8:
            reads.append(self.read_op(rng, maxchunk, rng.randrange(1, 4)))
        reads.append(self.read_op(rng, maxchunk))
        cmds = [task + "." + r for r in reads]
        if rng.random() < 0.15:
            cmds.insert(rng.randrange(0, len(cmds) + 1), "%s.ss:%d" % (task, rng.choice([0, 3, 2**33])))
        wthread = []
        if bidi:
            writes = rng.random() < 0.5
            split = rng.random() < 0.5
            if split and writes:
                # split first (the send half becomes task w<sid>s), then both halves work side by side
                pre.append(task + ".sp")
                wthread, _ = self.write_program(rng, task + "s", sid, limited_cfg)
            else:
                if split:
                    cmds.insert(rng.randrange(0, len(cmds)), task + ".sp")
                if writes:
                    w, _ = self.write_program(rng, task, sid, limited_cfg)
                    cmds = self.merge(rng, cmds, w)
        thread = self.merge(rng, self.merge(rng, later, cmds), wthread)
        return pre, thread

    def returning(self, rng, sid, task=None):
        """what the peer sends back on a bidi stream the server opened (ids 1, 5, 9, ...), and the reads of it:
        bytes that LOOK like a WebTransport header or an HTTP/3 frame must come through as they are"""
        task = task or "w%d" % sid
        kind = rng.random()
        if kind < 0.25:
            data = varint(0x41, rng.choice([1, 2])) + varint(rng.choice([0, 4, 2**32])) + [rng.getrandbits(8) for _ in range(3)]
        elif kind < 0.4:
            data = [0x00, 0x02, 0xaa, 0xbb, 0x21, 0x00]
        else:
            data = [rng.getrandbits(8) for _ in range(rng.choice([0, 1, 2, 5, 9, 30]))]
        chunks = self.cuts(sid, data, rng.choice([1, 2, 3]), rng) if data else []
        maxchunk = max([(len(c) - len("s%d:" % sid)) // 2 for c in chunks] + [1])
        end = rng.random()
        endop = ["f%d" % sid] if end < 0.75 else ["r%d:%d" % (sid, rng.choice([0, 9, 2**20]))] if end < 0.92 else []
        reads = []
        plan = rng.random()
        if plan >= 0.5:
            reads.append(self.read_op(rng, maxchunk, rng.randrange(1, 4)))
        reads.append(self.read_op(rng, maxchunk))
        return self.merge(rng, chunks + endop, ["%s.%s" % (task, r) for r in reads])

    def unknown_frames(self, rng):
        """one or two complete frames of types a receiver has to ignore (RFC 9114 7.2.8 / 9)"""
        out = []
        for _ in range(rng.choice([1, 1, 2])):
            ty = rng.choice([0x21, 0x21, 0x40, 0x1f * 7 + 0x21, 0x1f * 1000 + 0x21, 0x42, 0x2a2a, 2**32 + 7])
            n = rng.choice([0, 0, 1, 3, 70])
            out += varint(ty, max(vneed(ty), rng.choice([0, 0, 1]))) + varint(n, max(vneed(n), rng.choice([0, 0, 1]))) + \
                [rng.getrandbits(8) for _ in range(n)]
        return out

    def class_cases(self, rng, reps):
        """input classes the random generators reach rarely or not at all, each in every arrangement that matters:
        (a) frames of unknown type in front of the 0x41 signal (D-19b / R-19a), complete or cut off;
        (b) a WebTransport bidi stream opened BEFORE `conn.WT` (behind the CONNECT stream; a GET in front or not);
        (c) the return direction of bidi streams the server opened; session ids beyond 2^32 on opened streams;
        (d) a request arriving through accept_bi; GET on 0 + CONNECT on 4; 0x41 as an 8-byte varint;
            8..12 uni streams buffered; open_bi / open_uni waiting for stream credit"""
        L = []
        pool = [0, 4, 8, 64, 16384, 2**30] + BIG_IDS
        for _ in range(reps):
            for connect in pool:
                seed = rng.randrange(0, 1000)
                cfg = "g0,wt=1,%s,seed=%d" % (flags(rng), seed)
                head = ["o2", "s2:" + PEER_SETTINGS]
                get_first = connect >= 4 and rng.random() < 0.5
                if get_first:
                    head += ["o0", "s0:" + GET, "f0", "conn.A", "q0.res", "q0.sr:200", "q0.fi"]
                head += ["o%d" % connect, "s%d:%s" % (connect, CONNECT)]
                b = first_bidi(connect)
                pay = [0xa0 + rng.randrange(16)] + [rng.getrandbits(8) for _ in range(rng.choice([0, 1, 5]))]
                sess = rng.choice([connect, connect, 0, 4, 2**40 + 4])
                # (a) unknown frames, then the signal
                for trunc in (False, False, True):
                    pre = self.unknown_frames(rng)
                    hdr = self.wt_header(rng, True, sess)
                    if trunc:
                        data = (pre + hdr + pay)[:rng.randrange(1, len(pre) + len(hdr))]
                        endop = ["f%d" % b] if rng.random() < 0.7 else []
                    else:
                        data = pre + hdr + pay
                        endop = rng.choice([["f%d" % b], ["f%d" % b], [], ["r%d:7" % b]])
                    ev = ["o%d" % b] + self.cuts(b, data, len(pre), rng)
                    k = rng.random()
                    if k < 0.4:
                        ops = ev + endop + ["conn.ab"]
                    elif k < 0.8:
                        ops = ev + ["conn.ab"] + endop
                    else:
                        j = rng.randrange(1, len(ev) + 1)
                        ops = ev[:j] + ["conn.ab"] + ev[j:] + endop
                    ops += ["w%d.%s" % (b, self.read_op(rng, 8))]
                    # a proper stream behind it
                    ops += ["o%d" % (b + 4), "s%d:%s" % (b + 4, hx(self.wt_header(rng, True, connect) + [0xcc])), "f%d" % (b + 4),
                            "conn.ab", "w%d.ra" % (b + 4)]
                    L.append("wt server %s %s" % (cfg, " ".join(head + ["conn.WT", "conn.sid"] + ops)))
                # (b) bidi (and uni) streams in front of conn.WT
                hdr = self.wt_header(rng, True, sess)
                ev = ["o%d" % b] + self.cuts(b, hdr + pay, len(hdr), rng) + rng.choice([["f%d" % b], []])
                j = rng.randrange(1, len(ev) + 1)
                ops = head + ev[:j] + ["conn.WT", "conn.sid"] + ev[j:]
                ops += ["conn.ab", "f%d" % b, "w%d.%s" % (b, self.read_op(rng, 8))]
                L.append("wt server %s %s" % (cfg, " ".join(ops)))
                # (c) return direction; big session ids on opened streams; stream credit
                for _ in range(2):
                    credit = rng.random() < 0.5
                    c2 = cfg + (",uc=%d,bc=%d" % (3 + rng.choice([0, 1]), rng.choice([0, 1])) if credit else "")
                    ops = head + ["conn.WT", "conn.sid"]
                    ucr, bcr = (int(c2.split("uc=")[1].split(",")[0]) - 3, int(c2.split("bc=")[1])) if credit else (99, 99)
                    nb, nu = 1, 15
                    threads = []
                    for _ in range(rng.randrange(1, 4)):
                        bidi = rng.random() < 0.6
                        arg = rng.choice(["", ":%d" % rng.choice(OPEN_IDS), ":%d" % rng.choice(BIG_IDS)])
                        ops.append(("conn.ob" if bidi else "conn.ou") + arg)
                        left = bcr if bidi else ucr
                        if left == 0:
                            if rng.random() < 0.1:
                                break
                            ops.append("gb1" if bidi else "gu1")
                            left = 1
                        if bidi:
                            bcr = left - 1
                            sid, nb = nb, nb + 4
                            threads.append(self.returning(rng, sid))
                        else:
                            ucr = left - 1
                            sid, nu = nu, nu + 4
                        threads.append(["w%d.wr:%s" % (sid, hx([rng.getrandbits(8) for _ in range(rng.choice([1, 3]))]))])
                    else:
                        rest = []
                        for t in threads:
                            rest = self.merge(rng, rest, t)
                        ops += rest
                    L.append("wt server %s %s" % (c2, " ".join(ops)))
                # (d) a request through accept_bi, then a WebTransport stream
                g = [int(GET[i:i + 2], 16) for i in range(0, len(GET), 2)]
                ev = ["o%d" % b] + self.cuts(b, g, rng.choice([1, 2, 5]), rng) + ["f%d" % b]
                j = rng.randrange(1, len(ev) + 1)
                ops = head + ["conn.WT", "conn.sid"] + ev[:j] + ["conn.ab"] + ev[j:]
                if rng.random() < 0.5:
                    ops += ["q%d.sr:200" % b, "q%d.fi" % b]
                ops += ["o%d" % (b + 4), "s%d:%s" % (b + 4, hx(self.wt_header(rng, True, sess) + pay)), "f%d" % (b + 4), "conn.ab",
                        "w%d.ra" % (b + 4)]
                L.append("wt server %s %s" % (cfg, " ".join(ops)))
        return L

    def datagram_ops(self, rng, connect):
        """(ops, malformed): datagrams in both directions over the simulated transport"""
        k = rng.random()
        if k < 0.3:
            return ["conn.dgs:" + hx([rng.getrandbits(8) for _ in range(rng.choice([0, 1, 3, 20]))])], False
        payload = [rng.getrandbits(8) for _ in range(rng.choice([0, 0, 1, 4, 30]))]
        bad = False
        if k < 0.6:
            q = connect // 4
            need = 0 if q < 64 else 1 if q < 2**14 else 2 if q < 2**30 else 3
            d = varint(q, max(rng.choice([0, 0, 1, 2, 3]), need)) + payload
        elif k < 0.8:
            q = rng.choice([0, 1, 63, 64, 16383, 16384, 2**30 - 1, 2**30, 2**60 - 1])
            d = varint(q) + payload
        elif k < 0.9:
            # truncated quarter stream id (incl. the empty datagram)
            form = rng.choice([0, 1, 2, 3])
            full = varint(rng.getrandbits(6 if form == 0 else 14 if form == 1 else 30 if form == 2 else 60), form)
            d = full[:rng.randrange(0, len(full))]
            bad = True
        else:
            d = varint(rng.choice([2**60, 2**60 + 1, 2**61, 2**62 - 1]), 3) + payload
            bad = True
        ops = ["d:" + hx(d), "conn.dgr"]
        if rng.random() < 0.15:
            ops.reverse()
        return ops, bad

    def one_case_dg(self, rng):
        """datagrams only (also used by C18): CONNECT ids in every varint form of the quarter id, datagrams sent for the
        session, received for it / for other ids / malformed, the close that follows a malformed one"""
        cfg = "g0,wt=1,ec=1,dg=1,seed=%d" % rng.randrange(0, 1000)
        connect = rng.choice([0, 4, 8, 60, 64, 252, 256, 16380, 16384, 65532, 65536, 2**30 - 4, 2**30, 2**32, 2**32 - 4,
                              2**40 + 4, 2**61, 2**62 - 4])
        ops = ["o2", "s2:" + PEER_SETTINGS, "o%d" % connect, "s%d:%s" % (connect, CONNECT), "conn.WT", "conn.sid"]
        for _ in range(rng.randrange(1, 7)):
            if rng.random() < 0.04:
                # the peer closes the connection / it times out: both datagram calls report the transport's error
                tail = [rng.choice(["C0", "C7", "C256", "T"])]
                for _ in range(rng.randrange(1, 4)):
                    tail.append(rng.choice(["conn.dgs:0a", "conn.dgr", "conn.dgr", "d:00ff"]))
                if rng.random() < 0.3:
                    tail.append(rng.choice(["conn.ab", "conn.au"]))
                if rng.random() < 0.3:
                    tail = ["conn.dgr"] + tail      # the reader is waiting when it happens
                ops += tail
                break
            d, bad = self.datagram_ops(rng, connect)
            if rng.random() < 0.05 and d[0].startswith("conn.dgs"):
                d = ["conn.dgs:" + hx([rng.getrandbits(8) for _ in range(rng.choice([100, 1200, 1500]))])]
            ops += d
            if bad:
                t = rng.random()
                if t < 0.3:
                    ops.append("conn.ab")
                elif t < 0.6:
                    ops.append("conn.au")
                elif t < 0.7:
                    ops += ["conn.dgs:0102", "conn.ab"]
                break
        return "wt server %s %s" % (cfg, " ".join(ops))

    def one_case_io(self, rng, dg_focus=False):
        wt = rng.random() < 0.92
        wc = rng.choice([0, 1, 2, 3, 5]) if rng.random() < 0.3 else None
        # stream credit: the three setup streams take theirs, `open_uni` / `open_bi` wait for `gu` / `gb`
        sc = None if (dg_focus or rng.random() >= 0.15) else [rng.choice([0, 0, 1, 2]), rng.choice([0, 0, 1, 2])]
        cfg = "g0,wt=%d,%s,seed=%d%s%s" % (1 if wt else 0, flags(rng), rng.randrange(0, 1000), "" if wc is None else ",wc=%d" % wc,
                                          "" if sc is None else ",uc=%d,bc=%d" % (3 + sc[0], sc[1]))
        connect = rng.choice([0, 4, 8, 12, 60, 64, 256, 16380, 16384, 65536, 2**30, 2**30 + 4] + BIG_IDS)
        lim = wc is not None
        ops = []
        if lim:
            ops += ["cw3:%d" % U, "cw7:%d" % U, "cw11:%d" % U]
        ops += ["o2", "s2:" + PEER_SETTINGS]
        if rng.random() < 0.3 and connect >= 4:
            ops += ["o0"] + (["cw0:%d" % U] if lim else []) + ["s0:" + GET, "f0", "conn.A", "q0.res", "q0.sr:200", "q0.fi"]
        ops += ["o%d" % connect] + (["cw%d:%d" % (connect, U)] if lim else []) + ["s%d:%s" % (connect, CONNECT), "conn.WT", "conn.sid"]
        used_b, used_u, nb, nu = first_bidi(connect), 6, 1, 15
        threads = []

        def advance(p):
            for t in threads:
                while t and rng.random() < p:
                    ops.append(t.pop(0))

        stop = False
        if wt and not dg_focus and rng.random() < 0.2:
            # several incoming streams outstanding before the first accept; their data and the reads run alongside the rest
            pre, accepts, late, reads, used_u, used_b = self.burst(rng, connect, used_u, used_b, wt, allow_trunc=False)
            ops += pre + accepts
            t = late
            for r in reads:
                t = self.merge(rng, t, r) if rng.random() < 0.5 else t + r
            threads.append(t)
        for _ in range(rng.randrange(1, 6)):
            k = rng.random()
            if dg_focus and k < 0.6:
                k = 0.95
            if k < 0.22:
                # a stream the server opens
                bidi = rng.random() < 0.5
                sid = nb if bidi else nu
                if bidi:
                    nb += 4
                else:
                    nu += 4
                sess = connect if rng.random() < 0.7 else rng.choice(OPEN_IDS)
                ops.append(("conn.ob" if bidi else "conn.ou") + ("" if sess == connect and rng.random() < 0.8 else ":%d" % sess))
                if sc is not None:
                    if sc[1 if bidi else 0] == 0:
                        # no stream credit: the open waits until the peer grants some (or for ever)
                        advance(0.2)
                        if rng.random() < 0.08:
                            stop = True
                            break
                        g = rng.choice([1, 1, 2])
                        ops.append("%s%d" % ("gb" if bidi else "gu", g))
                        sc[1 if bidi else 0] += g
                    sc[1 if bidi else 0] -= 1
                if lim:
                    hlen = 2 + (1 if sess < 64 else 2 if sess < 2**14 else 4 if sess < 2**30 else 8)
                    credit = wc
                    short = rng.random() < 0.06
                    while credit < hlen:
                        g = rng.choice([1, 1, 2, 3, 9])
                        if short and credit + g >= hlen:
                            break
                        ops.append("gw%d:%d" % (sid, g))
                        credit += g
                        advance(0.2)
                    if credit < hlen:
                        stop = True     # open_bi / open_uni keeps waiting: the session task is busy for ever
                        break
                if rng.random() < 0.85:
                    w, _ = self.write_program(rng, "w%d" % sid, sid, lim)
                    if bidi and rng.random() < 0.15:
                        w.append("w%d.ss:%d" % (sid, rng.choice([1, 77])))
                    threads.append(w)
                if bidi and rng.random() < 0.6:
                    # the RETURN direction of a stream the server opened: no header there, every byte is payload
                    threads.append(self.returning(rng, sid))
            elif k < 0.85:
                bidi = rng.random() < 0.5
                if bidi:
                    sid = used_b
                    used_b += 4
                else:
                    sid = used_u
                    used_u += 4
                pre, thread = self.incoming(rng, sid, bidi, connect, lim)
                if not bidi and not wt:
                    ops += [o for o in pre if not o.startswith("conn.")] + ["conn.au"]
                    stop = True         # the session task now waits in accept_uni for ever
                    break
                ops += pre
                threads.append(thread)
            else:
                d, bad = self.datagram_ops(rng, connect)
                ops += d
                if bad:
                    # the connection error surfaces at the next accept
                    t = rng.random()
                    if t < 0.3:
                        ops.append("conn.ab")
                    elif t < 0.6 and wt:
                        ops.append("conn.au")
                    elif t < 0.8:
                        ops += ["o%d" % used_b, "s%d:%s" % (used_b, hx(varint(0x41, 1) + varint(connect) + [1, 2])), "conn.ab"]
                    stop = True
                    break
            advance(0.45)
        # the rest of every thread, interleaved
        rest = []
        for t in threads:
            rest = self.merge(rng, rest, t)
        ops += rest
        return "wt server %s %s" % (cfg, " ".join(ops))

    def cases(self, tier, rng):
        big = tier == "thorough"
        L = [self.one_case_basic(rng) for _ in range(6000 if big else 1200)]
        L += [self.one_case_buffered(rng) for _ in range(40000 if big else 8000)]
        L += self.trunc_cases(rng, 3 if big else 1)
        L += self.class_cases(rng, 40 if big else 12)
        L += [self.one_case_io(rng) for _ in range(200000 if big else 30000)]
        L += [self.one_case_io(rng, dg_focus=True) for _ in range(20000 if big else 4000)]
        L += [self.one_case_dg(rng) for _ in range(10000 if big else 2000)]
        return L

    def shrink_candidates(self, line):
        w = line.split()
        ops = w[3:]
        out = []
        # the session itself stays: the peer's SETTINGS, the CONNECT request and its stream, conn.WT
        keep = {"o2", "conn.WT"}
        for o in ops:
            m = re.match(r"^s(\d+):" + CONNECT + "$", o)
            if m:
                keep |= {o, "o" + m.group(1)}
        # bytes of a peer stream are never taken out of the middle (what is left would be another stream: the shrinker
        # once walked from a lost buffered stream into `o6 s6:00a7` = a second control stream): a stream goes as a
        # whole (with the ops of its task), or loses its LAST event
        def sid_of(o):
            m = re.match(r"^[osfr](\d+)(:|$)", o)
            return int(m.group(1)) if m else None
        sids = []
        for o in ops:
            k = sid_of(o)
            if k is not None and k != 2 and o not in keep and k not in sids:
                sids.append(k)
        for k in sids:
            mine = [i for i, o in enumerate(ops) if sid_of(o) == k or re.match(r"^w%ds?\." % k, o)]
            if any(ops[i] in keep for i in mine):
                continue
            out.append(" ".join(w[:3] + [o for i, o in enumerate(ops) if i not in mine]))
            evs = [i for i in mine if sid_of(ops[i]) == k and not ops[i].startswith("o")]
            if evs:
                out.append(" ".join(w[:3] + ops[:evs[-1]] + ops[evs[-1] + 1:]))
        for i in range(len(ops)):
            if ops[i] in keep or ops[i].startswith("s2:") or sid_of(ops[i]) is not None:
                continue
            out.append(" ".join(w[:3] + ops[:i] + ops[i + 1:]))
        return out


PROP = C19()
