"""Engine `hnd5` (C05): whole connections over SimQuic in which a REAL request handle detects the connection error
(`resolve_request` / `recv_response` meeting a frame error or a QPACK failure on its request stream —
`handle_frame_stream_error_on_request_stream` —, or a pending read meeting the transport's connection error), with the
driver's calls (`accept` / `wait_idle` / `shutdown`), `send_request` and the other handles' calls in every order.

Projection: the history `@<op>` / answers / `close:<code>` / `goaway` / `pending=[…]` in the normal form of
`lean/H3/Drv/Hnd.lean` (within one op's segment the request handles' answers first, sorted), prefixed with the verdict of
the oracle `H3.Drv.Hnd.verdict` on it (judge engine `hndj`).  The Lean driver prints the same for the model's history."""
import itertools
import re

from props.c04 import CODES

CODES = dict(CODES, QPACK_DECOMPRESSION_FAILED=0x200, QPACK_ENCODER_STREAM_ERROR=0x201, QPACK_DECODER_STREAM_ERROR=0x202)
CFG = "g0,ev=1,ops=1"
REQ = "010a0000d1d750831af1ffc1"      # HEADERS: GET https://a.b/
RESP = "01030000d9"                   # HEADERS: 200
SND = "snd.R:GET:68747470733a2f2f612e622f:-"
# (content, needs FIN, what it is)
POISON = [("0000", False, "DATA before HEADERS: H3_FRAME_UNEXPECTED"),
          ("0003616263", False, "DATA before HEADERS"),
          ("0400", False, "SETTINGS on a request stream: H3_FRAME_UNEXPECTED"),
          ("0100", False, "HEADERS with an empty field section: QPACK_DECOMPRESSION_FAILED"),
          ("0105", True, "HEADERS cut by the end of the stream: H3_FRAME_ERROR"),
          ("0103", True, "the same"),
          ("00", True, "a frame header cut by the end of the stream: H3_FRAME_ERROR")]


def canon(res):
    m = re.match(r"^err:(?:conn:)?local:(\w+)$", res)
    if m:
        return "E:local:%s" % CODES.get(m.group(1), m.group(1))
    m = re.match(r"^err:(?:conn:)?(remote:\S+|timeout)$", res)
    if m:
        return "E:" + m.group(1)
    if res == "no-task":
        return res
    if res.startswith("err:"):
        return "se"
    return "ok"


def observe(line, impl):
    if " | " not in impl:
        return None
    server = line.split()[1] == "server"
    ctl = 3 if server else 2
    trace, summary = impl.split(" | ", 1)
    hist, seg = [], []

    def flush():
        hs = sorted(t for t in seg if re.match(r"^(q\d+s?|snd)\.", t))
        hist.extend(hs + [t for t in seg if t not in hs])
        del seg[:]

    started = False
    for t in trace.split():
        if t.startswith("@"):
            started = True
            flush()
            hist.append(t)
        elif not started:
            continue                        # the setup: `w…` of the own streams, `<task>.build=ok`
        elif t.startswith("close:"):
            seg.append(t)
        elif re.match(r"^w%d:07" % ctl, t):
            seg.append("goaway")
        elif "=" in t and not re.match(r"^(w\d+|fin\d+|rst\d+|stop\d+):?", t):
            k, v = t.split("=", 1)
            seg.append("%s=%s" % (k, canon(v)))
    flush()
    pend = []
    for t in summary.split():
        if t.startswith("pending="):
            pend = sorted(p for p in t[len("pending=["):-1].split(",") if p)
    hist.append("pending=[%s]" % ",".join(pend))
    return hist


def project_all(lines, impls):
    import vlib
    obs = [observe(l, o) for l, o in zip(lines, impls)]
    inp = ["hndj %s %s" % (l.split()[1], " ".join(o)) for l, o in zip(lines, obs) if o is not None]
    out = []
    if inp:
        rc, out, err = vlib.run_lines(vlib.DRV, inp)
        if rc != 0 or len(out) != len(inp):
            raise RuntimeError("h3drv hndj failed rc=%s %s" % (rc, err[-300:]))
    verdicts = iter(out)
    return [impl if o is None else "%s %s" % (next(verdicts), " ".join(o)) for o, impl in zip(obs, impls)]


def klass(line, impl):
    w = line.split()
    toks = impl.split()
    errs = sorted(set(t.split("=E:")[1] for t in toks if "=E:" in t))
    by = next((t.split("=")[0].split(".")[0][0] for t in toks if "=E:" in t), "-")
    closes = [t[6:] for t in toks if t.startswith("close:")]
    calls = sorted(set(re.sub(r"\d+", "", t.split("=")[0]) + "=" + ("E" if "=E:" in t else t.split("=")[1])
                       for t in toks if "=" in t and not t.startswith("@") and not t.startswith("pending")))
    return "hnd/%s/%s/first-by=%s/err=%s/close=%s/%s/%s" % (w[1], toks[0] if toks else "empty", {"q": "handle", "s": "send_request"}.get(by, "driver" if by != "-" else "-"),
                                                      "+".join(errs) or "-", ",".join(closes) or "-", ",".join(calls), toks[-1] if toks else "")


def trivial(line, impl):
    return "=E:" not in impl


def merges(seqs, rng, limit):
    """all merges of the sequences if there are at most `limit`, else `limit` random ones"""
    from props.c05 import interleavings, n_interleavings, random_merge
    seqs = [s for s in seqs if s]
    if n_interleavings([len(s) for s in seqs]) <= limit:
        return list(interleavings(seqs))
    return [random_merge(seqs, rng) for _ in range(limit)]


def cases(big, rng):
    L = []

    def line(role, ops, seed=None):
        cfg = CFG + (",seed=%d" % seed if seed is not None else "")
        return "hnd5 %s %s %s" % (role, cfg, " ".join(ops))

    lim = 400 if big else 60
    # ---- server: the resolver of request 0 meets the poison; the driver's and the other handle's calls in every order
    for hexs, need_fin, _ in POISON:
        deliver = ["s0:" + hexs] + (["f0"] if need_fin else [])
        pre = ["o2", "s2:000400", "o0"]
        # (a) the read is made with the bytes there / posted first and woken by the bytes; accept / shutdown around it
        for drv in (["conn.A"], ["conn.S:0"], ["conn.A", "conn.S:0"], ["conn.S:0", "conn.A"], ["conn.A", "conn.A", "conn.S:0", "conn.A"]):
            for il in merges([deliver, ["q0.res", "q0.res"], ["#"] + drv], rng, lim):
                # `#` = the point behind which the driver's later calls come; before it the accept that hands out request 0
                ops = pre + ["conn.A"] + [x for x in il if x != "#"]
                L.append(line("server", ops, rng.randrange(1, 9) if rng.random() < 0.3 else None))
        # (b) an accept is waiting (parked) while the handle raises: the error must reach it
        for il in merges([deliver, ["q0.res"]], rng, lim):
            L.append(line("server", pre + ["conn.A", "conn.A"] + il + ["conn.A", "conn.S:0", "q0.res"]))
        # (c) a second request: healthy, or poisoned with another error (the first one detected wins on every handle)
        for other, ofin in [(REQ, True)] + [(p[0], p[1]) for p in POISON if p[0] != hexs][:(6 if big else 2)]:
            d4 = ["s4:" + other] + (["f4"] if ofin else [])
            for il in merges([deliver + ["q0.res"], d4 + ["q4.res"], ["conn.A", "conn.S:0"]], rng, lim // 2):
                L.append(line("server", pre + ["o4", "conn.A", "conn.A"] + il + ["q0.res", "conn.A"]))
    # ---- client: the response stream of request 0 is poisoned
    for hexs, need_fin, _ in POISON:
        deliver = ["s0:" + hexs] + (["f0"] if need_fin else [])
        pre = ["o3", "s3:000400", SND]
        for drv in (["drv.W"], ["drv.S"], ["drv.W", "drv.S"], ["drv.S", "drv.W"], ["drv.W", "drv.S", "drv.W", SND]):
            for il in merges([deliver, ["q0.rr"], drv], rng, lim):
                L.append(line("client", pre + il + ["drv.W", "drv.S"], rng.randrange(1, 9) if rng.random() < 0.3 else None))
        for other, ofin in [(RESP, True)] + [(p[0], p[1]) for p in POISON if p[0] != hexs][:(6 if big else 2)]:
            d4 = ["s4:" + other] + (["f4"] if ofin else [])
            for il in merges([deliver + ["q0.rr"], d4 + ["q4.rr"], ["drv.W", "drv.S"]], rng, lim // 2):
                L.append(line("client", pre + [SND] + il + ["drv.W"]))
    # ---- the transport fails while real handles wait: the pending reads raise it (handle_quic_stream_error)
    for end in ("T", "C256", "C0"):
        for il in merges([["q0.res", end], ["conn.A"]], rng, lim):
            L.append(line("server", ["o2", "s2:000400", "o0", "conn.A"] + il + ["conn.A", "conn.S:0"]))
        for il in merges([["q0.res", "q4.res", end], ["conn.A"]], rng, lim):
            L.append(line("server", ["o2", "s2:000400", "o0", "o4", "conn.A", "conn.A"] + il + ["conn.S:0", "conn.A"], rng.randrange(1, 9)))
        for il in merges([["q0.rr", end, SND], ["drv.W"]], rng, lim):
            L.append(line("client", ["o3", "s3:000400", SND] + il + ["drv.W", "drv.S"]))
    return L


def shrink_candidates(line):
    w = line.split()
    return [" ".join(w[:3] + w[3:3 + i] + w[4 + i:]) for i in range(len(w) - 3) if len(w) > 4]
