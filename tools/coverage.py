#!/usr/bin/env python3
"""coverage.py [--tier quick|thorough] [Cxx ...]

How much of the repository's source the correspondence runs actually execute (generator
quality bounds what the tie between model and code can see; DESIGN.md section 6).

Builds the harness once more with `-C instrument-coverage` (nightly toolchain, whose
llvm-tools match the profile format) into a scratch target directory outside /verif and /repo,
runs every claimed property's case lines through it, merges the profiles and writes

    evidence_coverage/summary.json      per source file: lines / regions covered, by which properties
    evidence_coverage/uncovered/<file>  the uncovered line ranges of each anchored file

This is a *supporting* measurement: it decides nothing, proves nothing, and is not registered as
a check.  It is what is used to direct the generators at code no case reaches."""
import importlib
import json
import os
import random
import re
import shutil
import subprocess
import sys

ROOT = os.path.dirname(os.path.dirname(os.path.abspath(__file__)))
sys.path.insert(0, os.path.join(ROOT, "tools"))
import vlib  # noqa: E402

SCRATCH = os.environ.get("VERIF_COV_DIR", "/root/w/cov")
TOOLS = "/root/.rustup/toolchains/nightly-x86_64-unknown-linux-gnu/lib/rustlib/x86_64-unknown-linux-gnu/bin"


def sh(cmd, **kw):
    return subprocess.run(cmd, stdout=subprocess.PIPE, stderr=subprocess.STDOUT, text=True, **kw)


def load_props():
    props = {}
    d = os.path.join(ROOT, "tools", "props")
    for f in sorted(os.listdir(d)):
        if f.startswith("c") and f.endswith(".py"):
            m = importlib.import_module("props." + f[:-3])
            props[m.PROP.id] = m.PROP
    return props


def main():
    args = sys.argv[1:]
    tier = "quick"
    if "--tier" in args:
        i = args.index("--tier")
        tier = args[i + 1]
        del args[i:i + 2]
    props = load_props()
    ids = [a for a in args if a in props] or sorted(props)
    os.makedirs(SCRATCH, exist_ok=True)
    tgt = os.path.join(SCRATCH, "target")
    # build scripts and proc macros are instrumented too: keep their profiles out of the source trees
    env = dict(os.environ, CARGO_NET_OFFLINE="true", CARGO_TARGET_DIR=tgt,
               LLVM_PROFILE_FILE=os.path.join(SCRATCH, "buildprof", "%p-%m.profraw"),
               RUSTFLAGS="-C instrument-coverage --cfg hyperium_h3_verif -C debug-assertions=on -C overflow-checks=on")
    r = sh(["cargo", "+nightly", "build", "--release", "--offline"], cwd=vlib.HARNESS, env=env)
    if r.returncode != 0:
        print(r.stdout[-3000:])
        return 2
    binary = os.path.join(tgt, "release", "h3run")
    per_prop = {}
    profs = []
    for pid in ids:
        p = props[pid]
        rng = random.Random(1)
        lines = p.cases(tier, rng)
        pdir = os.path.join(SCRATCH, "prof", pid)
        shutil.rmtree(pdir, ignore_errors=True)
        os.makedirs(pdir)
        e = dict(os.environ, LLVM_PROFILE_FILE=os.path.join(pdir, "%p-%m.profraw"))
        step = 2000
        for i in range(0, len(lines), step):
            try:
                subprocess.run([binary], input="\n".join(lines[i:i + step]) + "\n", stdout=subprocess.DEVNULL,
                               stderr=subprocess.DEVNULL, text=True, env=e, timeout=1200)
            except subprocess.TimeoutExpired:
                pass
        out = os.path.join(SCRATCH, "prof", pid + ".profdata")
        raws = [os.path.join(pdir, f) for f in os.listdir(pdir)]
        r = sh([os.path.join(TOOLS, "llvm-profdata"), "merge", "-sparse", "-o", out] + raws)
        if r.returncode != 0:
            print(pid, r.stdout[-500:])
            continue
        shutil.rmtree(pdir, ignore_errors=True)
        profs.append(out)
        per_prop[pid] = export(binary, out)
        print(pid, "cases=%d" % len(lines), "files=%d" % len(per_prop[pid]), flush=True)
    allp = os.path.join(SCRATCH, "prof", "all.profdata")
    sh([os.path.join(TOOLS, "llvm-profdata"), "merge", "-sparse", "-o", allp] + profs)
    total = export(binary, allp, segments=True)
    outdir = os.path.join(ROOT, "evidence_coverage")
    shutil.rmtree(outdir, ignore_errors=True)
    os.makedirs(os.path.join(outdir, "uncovered"))
    summary = {"tier": tier, "repo_head": vlib.repo_head() if hasattr(vlib, "repo_head") else None,
               "properties": ids, "files": {}}
    for f, d in sorted(total.items()):
        rel = f.split("/repo/", 1)[-1] if "/repo/" in f else f
        by = {pid: per_prop[pid][f]["lines_pct"] for pid in per_prop if f in per_prop[pid] and per_prop[pid][f]["lines_cov"] > 0}
        summary["files"][rel] = {"lines": d["lines"], "lines_covered": d["lines_cov"], "lines_pct": d["lines_pct"],
                                 "regions": d["regions"], "regions_covered": d["regions_cov"],
                                 "functions": d["functions"], "functions_covered": d["functions_cov"],
                                 "covered_by": by}
        unc = d.get("uncovered_lines", [])
        if unc:
            src = open(f).read().split("\n") if os.path.exists(f) else []
            with open(os.path.join(outdir, "uncovered", rel.replace("/", "__") + ".txt"), "w") as fh:
                for (a, b) in ranges(unc):
                    fh.write("%d-%d\n" % (a, b))
                    for ln in range(a, b + 1):
                        if 0 < ln <= len(src):
                            fh.write("    %5d  %s\n" % (ln, src[ln - 1]))
    json.dump(summary, open(os.path.join(outdir, "summary.json"), "w"), indent=1)
    tl = sum(v["lines"] for v in summary["files"].values())
    tc = sum(v["lines_covered"] for v in summary["files"].values())
    print("total: %d/%d lines (%.1f%%) of %d files" % (tc, tl, 100.0 * tc / max(tl, 1), len(summary["files"])))
    if os.environ.get("VERIF_COV_KEEP") != "1":
        shutil.rmtree(SCRATCH, ignore_errors=True)
    return 0


def ranges(nums):
    out = []
    for n in sorted(set(nums)):
        if out and n == out[-1][1] + 1:
            out[-1][1] = n
        else:
            out.append([n, n])
    return out


def export(binary, prof, segments=False):
    """per file of the repository (not the harness, not dependencies): line/region/function totals"""
    cmd = [os.path.join(TOOLS, "llvm-cov"), "export", "-format=text", "-instr-profile=" + prof, binary,
           "-ignore-filename-regex=(\\.cargo|rustc|/verif/)"]
    if not segments:
        cmd.append("-summary-only")
    r = subprocess.run(cmd, stdout=subprocess.PIPE, stderr=subprocess.DEVNULL, text=True)
    if r.returncode != 0:
        return {}
    data = json.loads(r.stdout)
    res = {}
    for f in data["data"][0]["files"]:
        name = f["filename"]
        if "/h3" not in name:
            continue
        s = f["summary"]
        d = {"lines": s["lines"]["count"], "lines_cov": s["lines"]["covered"], "lines_pct": round(s["lines"]["percent"], 1),
             "regions": s["regions"]["count"], "regions_cov": s["regions"]["covered"],
             "functions": s["functions"]["count"], "functions_cov": s["functions"]["covered"]}
        if segments and "segments" in f:
            # segment = [line, col, count, has_count, is_region_entry, is_gap]
            unc = set()
            cov = set()
            segs = f["segments"]
            for i, sg in enumerate(segs):
                line, col, count, has_count = sg[0], sg[1], sg[2], sg[3]
                end = segs[i + 1][0] if i + 1 < len(segs) else line
                if not has_count:
                    continue
                tgt = cov if count > 0 else unc
                for ln in range(line, max(line, end - (0 if i + 1 < len(segs) and segs[i + 1][1] > 1 else 1)) + 1):
                    tgt.add(ln)
            d["uncovered_lines"] = sorted(unc - cov)
        res[name] = d
    return res


if __name__ == "__main__":
    sys.exit(main())
