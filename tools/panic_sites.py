#!/usr/bin/env python3
"""Inventory of panic-capable sites on h3's receive paths (property C06).

usage: panic_sites.py <repo> [--table tools/panic_table.json] [--dump]

Lists every `unwrap()`, `expect(`, `panic!`, `unreachable!`, `unimplemented!`, `todo!`,
`assert!`/`assert_eq!`/`assert_ne!` (not `debug_assert`), slice/array index `x[..]` (ranges included),
integer arithmetic that panics on overflow when overflow checks are on (`-`, `-=`, `+`, `+=`, `*`, `*=`,
`<<`, `<<=`, `>>`, `>>=`, `.pow(`) or on a zero divisor (`/`, `%` by anything but a literal), and the `bytes::Buf` / `BufMut` / `Bytes` calls that panic
when asked for more than is there (`get_u8` … `get_uint`, `advance`, `copy_to_bytes`, `copy_to_slice`,
`split_to`, `split_off`, `slice`, `put`, `put_slice`, `put_u8` …) outside `#[cfg(test)]` items and
comments in the receive-path files, keyed by (file, normalised source line).  (`as` casts never panic.)  Each key must appear in the committed table, which says
why the site cannot fire on peer input (the model guard / lemma / correspondence engine that
covers it) or that it is not on a receive path.  An unlisted site is a broken obligation: the
code changed in a way the argument does not cover.  Keys are line-number independent so that
unrelated edits do not disturb them."""
import json
import os
import re
import sys

FILES = [
    "h3/src/frame.rs", "h3/src/buf.rs", "h3/src/stream.rs", "h3/src/connection.rs",
    "h3/src/proto/frame.rs", "h3/src/proto/varint.rs", "h3/src/proto/coding.rs",
    "h3/src/proto/stream.rs", "h3/src/proto/push.rs", "h3/src/proto/headers.rs",
    "h3/src/qpack/decoder.rs", "h3/src/qpack/block.rs", "h3/src/qpack/static_.rs",
    "h3/src/qpack/prefix_int.rs", "h3/src/qpack/prefix_string/mod.rs",
    "h3/src/qpack/prefix_string/decode.rs", "h3/src/qpack/prefix_string/bitwin.rs",
    "h3/src/qpack/field.rs", "h3/src/qpack/parse_error.rs",
    "h3/src/server/connection.rs", "h3/src/server/request.rs", "h3/src/server/stream.rs",
    "h3/src/client/connection.rs", "h3/src/client/stream.rs", "h3/src/shared_state.rs",
    "h3/src/error/connection_error_creators.rs", "h3/src/error/internal_error.rs",
    "h3/src/error/error.rs", "h3/src/error/codes.rs", "h3/src/webtransport/session_id.rs",
]

PAT = re.compile(
    r"\.unwrap\(\)|\.expect\(|\bpanic!|\bunreachable!|\bunimplemented!|\btodo!|"
    r"(?<!debug_)\bassert(_eq|_ne)?!|"
    r"[A-Za-z0-9_\)\]]\[[^\]]*\]|"          # indexing
    r"[A-Za-z0-9_\)\]]\s-\s[A-Za-z0-9_\(]|-=|"  # subtraction
    r"[A-Za-z0-9_\)\]]\s(?:\+|\*|<<|>>)\s[A-Za-z0-9_\(!]|^(?:\+|\*|<<|>>)\s[A-Za-z0-9_\(!]|\+=|\*=|<<=|>>=|\.pow\(|"   # overflow
    r"[A-Za-z0-9_\)\]]\s(?:/|%)\s(?![0-9][0-9a-fA-Fx_]*\b)[A-Za-z0-9_\(!]|(?:/|%)=\s(?![0-9][0-9a-fA-Fx_]*\b)|"   # divisor not a literal
    r"\.(?:get_[ui](?:8|16|32|64|128|nt)(?:_le|_ne)?|advance|copy_to_bytes|copy_to_slice|split_to|split_off|slice|"
    r"put|put_slice|put_bytes|put_[ui](?:8|16|32|64|128|nt)(?:_le|_ne)?)\("   # Buf / BufMut / Bytes
)


def strip_comments(src):
    out = []
    i, n = 0, len(src)
    while i < n:
        if src.startswith("//", i):
            while i < n and src[i] != "\n":
                i += 1
        elif src.startswith("/*", i):
            j = src.find("*/", i + 2)
            j = n if j < 0 else j + 2
            out.append("\n" * src.count("\n", i, j))
            i = j
        elif src[i] == '"':
            # string literal (keep it as "" so that text inside never matches)
            j = i + 1
            while j < n and src[j] != '"':
                j += 2 if src[j] == "\\" else 1
            out.append('""' + "\n" * src.count("\n", i, j))
            i = j + 1
        elif src[i] == "'" and i + 2 < n and (src[i + 2] == "'" or (src[i + 1] == "\\" and src.find("'", i + 2) - i <= 4)):
            j = src.find("'", i + 2 if src[i + 1] != "\\" else i + 3)
            out.append("' '")
            i = j + 1
        else:
            out.append(src[i])
            i += 1
    return "".join(out)


def strip_cfg_test(src):
    """remove every item that follows `#[cfg(test)]` (brace matched, or up to `;`)."""
    out = []
    i = 0
    while True:
        m = re.compile(r"#\[cfg\(test\)\]").search(src, i)
        if not m:
            out.append(src[i:])
            break
        out.append(src[i:m.start()])
        j = m.end()
        # find the end of the item: first `{` ... matching `}` or a `;` before any `{`
        k = j
        depth = 0
        paren = 0
        started = False
        while k < len(src):
            c = src[k]
            if c in "([":
                paren += 1
            elif c in ")]":
                paren -= 1
            if c == "{":
                depth += 1
                started = True
            elif c == "}":
                depth -= 1
                if started and depth == 0:
                    k += 1
                    break
            elif c == ";" and not started:
                k += 1
                break
            elif c == "," and not started and depth == 0 and paren <= 0:
                # a cfg(test) struct field / match arm pattern
                k += 1
                break
            k += 1
        out.append("\n" * src.count("\n", m.start(), k))
        i = k
    return "".join(out)


def norm(line):
    return re.sub(r"\s+", " ", line.strip())


def sites(repo):
    res = []
    for rel in FILES:
        p = os.path.join(repo, rel)
        if not os.path.exists(p):
            res.append((rel, 0, "<file missing>"))
            continue
        code = strip_cfg_test(strip_comments(open(p).read()))
        for ln, line in enumerate(code.split("\n"), 1):
            l = line.strip()
            if not l or l.startswith("#[") or l.startswith("#!["):
                continue
            # array types / literals / attribute-like brackets are not indexing
            probe = re.sub(r"\[[^\]]*;[^\]]*\]", "", l)          # [0; 8], [u8; N]
            probe = re.sub(r"&\s*\[[^\]]*\]", "", probe)           # &[u8], &[a, b]
            probe = re.sub(r"\bvec!\[[^\]]*\]", "", probe)
            probe = re.sub(r":\s*\[[^\]]*\]", ":", probe)          # x: [T]
            probe = re.sub(r"<\s*\[[^\]]*\]\s*>", "<>", probe)
            probe = re.sub(r"->", "", probe)
            # `+` between trait bounds / lifetimes is not arithmetic
            probe = re.sub(r"\+\s*(?:Send|Sync|Unpin|Sized|Clone|Copy|Debug|Display|'[a-z_]+)\b", "", probe)
            if PAT.search(probe):
                res.append((rel, ln, norm(l)))
    return res


def main():
    args = sys.argv[1:]
    repo = args[0] if args else "/repo"
    root = os.path.dirname(os.path.dirname(os.path.abspath(__file__)))
    table_path = os.path.join(root, "tools", "panic_table.json")
    if "--table" in args:
        table_path = args[args.index("--table") + 1]
    found = sites(repo)
    if "--dump" in args:
        for rel, ln, l in found:
            print("%s:%d: %s" % (rel, ln, l))
        print("total", len(found))
        return 0
    table = json.load(open(table_path)) if os.path.exists(table_path) else {"sites": []}
    import collections
    cnt = collections.Counter((rel, l) for rel, ln, l in found)
    known = {(e["file"], e["line"]): e.get("count", 1) for e in table["sites"]}
    # a site is covered when its (file, line text) is listed with at least that many occurrences
    missing = [(rel, ln, l) for rel, ln, l in found if known.get((rel, l), 0) < cnt[(rel, l)]]
    present = {(rel, l) for rel, ln, l in found}
    stale = [e for e in table["sites"] if (e["file"], e["line"]) not in present]
    out = {"found": len(found), "listed": len(found) - len(missing),
           "unlisted": ["%s:%d: %s" % m for m in missing],
           "stale_entries": len(stale)}
    print(json.dumps(out))
    return 1 if missing else 0


if __name__ == "__main__":
    sys.exit(main())
