#!/usr/bin/env python3
"""resolve_merge.py : after `git merge --no-commit` of a builder's branch: evidence -> ours, DESIGN.md -> keep both,
known_findings.json -> union by (property, witness/key), harness/Cargo.toml -> /repo paths. Prints what is left."""
import json, re, subprocess, sys
def sh(*a): return subprocess.run(a, capture_output=True, text=True).stdout
un = sh("git", "diff", "--name-only", "--diff-filter=U").split()
for f in un:
    if f.startswith("evidence/") or f.startswith("evidence_coverage/") or f == "MANIFEST.json" or f.startswith("seeded/REGRESS"):
        subprocess.run(["git", "checkout", "--ours", "--", f]); subprocess.run(["git", "add", f])
    elif f == "known_findings.json":
        o = json.loads(sh("git", "show", ":2:" + f)); t = json.loads(sh("git", "show", ":3:" + f))
        b = json.loads(sh("git", "show", ":1:" + f))
        def key(e): return (e.get("property"), e.get("witness"), e.get("key"))
        for sec in ("findings", "fixed"):
            base = {key(e) for e in b.get(sec, [])}
            theirs = {key(e) for e in t[sec]}
            # entries the other side removed (present in base, absent in theirs) are removed here too
            o[sec] = [e for e in o[sec] if not (key(e) in base and key(e) not in theirs)]
            have = {key(e) for e in o[sec]}
            for e in t[sec]:
                if key(e) not in have:
                    o[sec].append(e)
        json.dump(o, open(f, "w"), indent=1); subprocess.run(["git", "add", f])
    elif f.endswith(".md"):
        s = open(f).read()
        s = re.sub(r"<<<<<<< HEAD\n(.*?)=======\n(.*?)>>>>>>> [0-9a-f]+\n", lambda m: m.group(1) + "\n" + m.group(2), s, flags=re.S)
        open(f, "w").write(s); subprocess.run(["git", "add", f])
p = "harness/Cargo.toml"
t = open(p).read()
t2 = re.sub(r'path = "[^"]*/(h3[a-z-]*)"', lambda m: 'path = "/repo/%s"' % m.group(1), t)
if t2 != t:
    open(p, "w").write(t2); print("harness/Cargo.toml: paths restored to /repo")
left = sh("git", "diff", "--name-only", "--diff-filter=U").split()
print("unresolved:", left)
