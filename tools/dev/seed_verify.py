#!/usr/bin/env python3
"""Independent confirmation of the seeded changes in a scratch worktree of /repo's HEAD."""
import json, os, re, subprocess, sys, time
WT="/tmp/sv"
def sh(cmd, cwd=WT, timeout=3000):
    p=subprocess.run(cmd, shell=True, cwd=cwd, stdout=subprocess.PIPE, stderr=subprocess.STDOUT, text=True, timeout=timeout, env=dict(os.environ, CARGO_NET_OFFLINE="true"))
    return p.returncode, p.stdout
res={}
subprocess.run("git -C /repo worktree remove --force %s 2>/dev/null; git -C /repo worktree add --detach %s HEAD -q" % (WT,WT), shell=True)
OUTROOT=os.environ.get("SEED_OUT","/tmp/seed/out")
for prop in sorted(os.listdir(OUTROOT)):
    out=OUTROOT+"/"+prop
    for k in (1,2,3):
        if not os.path.exists("%s/patch%d.diff"%(out,k)): continue
        key="%s_%d"%(prop,k)
        if len(sys.argv)>1 and key not in sys.argv[1:]: continue
        run=open("%s/demo%d/RUN.txt"%(out,k)).read()
        demo="%s/demo%d"%(out,k)
        base = demo if re.search(r"OUT is the directory this file lives in", run) else out
        run=run.replace("${OUT}",base).replace("$OUT",base).replace("{OUT}",base).replace("<OUT>",base)
        run=re.sub(r"\\\n\s*"," ",run)   # join backslash continuations
        # round 2 wrote literal absolute paths of the author's own worktree: run in OUR scratch worktree instead
        run=re.sub(r"/tmp/seed/%s(?=[/ \n\"'])" % prop, WT, run)
        setup=[l.strip() for l in run.split("\n") if re.match(r"^\s*(mkdir -p|cp |printf .*>> )", l)]
        tests=[]
        for l in run.split("\n"):
            l=l.strip()
            l=re.sub(r"^(\$\s+|>\s+)","",l)
            l=re.sub(r"^cd\s+\S+\s*&&\s*","",l)
            l=re.sub(r"^\(cd\s+\S+\s*&&\s*(.*)\)$",r"\1",l)
            l=re.sub(r"^(\w+=\S+\s+)+","",l)
            if l.startswith("cargo test") and l not in tests: tests.append(l)
        sh("git checkout -- . && git clean -fdq")
        for c in setup: sh(c)
        r={"setup":setup,"tests":tests}
        # HEAD: demo must pass
        ok=True; logs=[]
        for t in tests:
            rc,o=sh(t); logs.append((t,rc,o[-400:])); ok = ok and rc==0
        r["head_demo_pass"]=ok
        rc,o=sh("git apply %s/patch%d.diff"%(out,k)); r["applies"]=rc==0
        rc,o=sh("cargo build --workspace --offline 2>&1 | tail -3"); r["builds"]=("error" not in o)
        rc,o=sh("cargo test -p h3 --offline --lib 2>&1 | grep -E '^test result'"); r["h3_lib_suite"]=o.strip()
        touched=subprocess.run("git diff --name-only", shell=True, cwd=WT, stdout=subprocess.PIPE, text=True).stdout.split()
        r["touched"]=touched
        crates=sorted({t.split("/")[0] for t in touched if not t.startswith("h3/")})
        for c in crates:
            rc,o=sh("cargo test -p %s --offline --lib 2>&1 | grep -E '^test result'"%c); r["suite_"+c]=o.strip()
        fail=False; 
        for t in tests:
            rc,o=sh(t); fail = fail or rc!=0; r.setdefault("patched_demo",[]).append((t,rc,o[-300:]))
        r["patched_demo_fails"]=fail
        res[key]=r
        print(key, "head_pass=%s applies=%s builds=%s suite=%s patched_fails=%s"%(r["head_demo_pass"],r["applies"],r["builds"],r["h3_lib_suite"][:40],fail), flush=True)
        json.dump(res,open("/tmp/seed/verify_result.json","w"),indent=1)
sh("git checkout -- . && git clean -fdq")
subprocess.run("rm -rf %s/target; git -C /repo worktree remove --force %s"%(WT,WT), shell=True)
