import subprocess,sys
agent,base=sys.argv[1],sys.argv[2]
d=subprocess.run(["git","-C","/root/w/%s/verif"%agent,"diff","-U0",base+"..HEAD","--","tools/extract.py"],capture_output=True,text=True).stdout
add=[]; 
for l in d.split("\n"):
    if l.startswith("+") and not l.startswith("+++"):
        add.append(l[1:])
    elif l.startswith("-") and not l.startswith("---"):
        print("NOTE: agent removed/changed line:", l[:120])
p='/verif/tools/extract.py'
s=open(p).read()
i=s.index("def main():")
block="\n".join(add).strip("\n")
s=s[:i]+block+"\n\n\n"+s[i:]
open(p,'w').write(s)
import ast; ast.parse(s); print("added",len(add),"lines")
