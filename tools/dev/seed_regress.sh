#!/bin/sh
# usage: tools/dev/seed_regress.sh [<seed-id> ...]
# Re-runs the committed quick checks against every seeded change under /verif/seeded, in a scratch
# clone of /verif and a scratch clone of /repo (so neither /repo nor /verif is touched and other
# runs reading /repo are not disturbed). Prints one line per seed: DETECTED(with-input) /
# DETECTED(no-failing-input-found) / MISSED.  Results: /verif/seeded/REGRESS.txt
set -u
S=/root/w/sr
rm -rf $S; mkdir -p $S
git clone -q /verif $S/verif
git clone -q /repo $S/repo
echo $S/repo > $S/verif/.repo_path
cp /repo/Cargo.lock $S/verif/harness/Cargo.lock
ids="$*"
[ -z "$ids" ] && ids=$(ls /verif/seeded | grep -E '^C[0-9]+-[0-9]+$')
out=/verif/seeded/REGRESS.txt
: > $out.tmp
# baseline: the clone must be green first (also warms the builds)
for id in $ids; do
  P=${id%-*}
  git -C $S/repo checkout -q -- . ; git -C $S/repo clean -fdq
  if ! git -C $S/repo apply /verif/seeded/$id/patch.diff; then echo "$id PATCH-DOES-NOT-APPLY" | tee -a $out.tmp; continue; fi
  (cd $S/verif && VERIF_IMPL_BUDGET=${VERIF_IMPL_BUDGET:-600} timeout 2700 bin/check $P) > $S/log.$id 2>&1; rc=$?
  git -C $S/repo checkout -q -- .
  nv=$(grep -c '^VIOLATION' $S/log.$id)
  nf=$(grep -c 'no-failing-input-found' $S/log.$id)
  if [ $rc -ne 0 ] && [ $nv -gt 0 ] && [ $nf -eq 0 ]; then r="DETECTED(with-input)"
  elif [ $rc -ne 0 ] && [ $nv -gt 0 ]; then r="DETECTED(no-failing-input-found)"
  else r="MISSED"; fi
  echo "$id $r rc=$rc violations=$nv $(grep -E '^C[0-9]+ tier' $S/log.$id | cut -c1-160)" | tee -a $out.tmp
done
# and the unchanged clone must be green for every property touched
for P in $(for id in $ids; do echo ${id%-*}; done | sort -u); do
  (cd $S/verif && bin/check $P) > $S/log.base.$P 2>&1; rc=$?
  echo "$P unchanged-tree rc=$rc $(grep -c '^VIOLATION' $S/log.base.$P) violations" | tee -a $out.tmp
done
mv $out.tmp $out
rm -rf $S
