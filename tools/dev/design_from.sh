#!/bin/sh
# usage: design_from.sh <agent> <base> <title> : insert the lines the agent added to its DESIGN.md at the end of /verif/DESIGN.md §12 (before §13)
A=$1; B=$2; T=$3
(cd /root/w/$A/verif && git diff $B..HEAD -- DESIGN.md) | grep '^+' | grep -v '^+++' | sed 's/^+//' > /tmp/design_$A.txt
if [ -s /tmp/design_$A.txt ]; then
  python3 - "$A" "$T" <<'PY'
import sys
a,t=sys.argv[1],sys.argv[2]
add=open("/tmp/design_%s.txt"%a).read()
s=open("/verif/DESIGN.md").read()
mark="\n\n## 13. Defects shown"
i=s.index(mark)
s=s[:i]+"\n\n### %s (text of the builder's DESIGN.md additions)\n\n"%t+add.rstrip("\n")+"\n"+s[i:]
open("/verif/DESIGN.md","w").write(s)
PY
  wc -l /tmp/design_$A.txt
else echo "no DESIGN changes by $A"; fi
