#!/bin/sh
# usage: design_from.sh <agent> <base> <title> : append the lines the agent added to its DESIGN.md to /verif/DESIGN.md §12
A=$1; B=$2; T=$3
(cd /root/w/$A/verif && git diff $B..HEAD -- DESIGN.md) | grep '^+' | grep -v '^+++' | sed 's/^+//' > /tmp/design_$A.txt
if [ -s /tmp/design_$A.txt ]; then
  { echo; echo "### $T (text of the builder's DESIGN.md additions)"; echo; cat /tmp/design_$A.txt; } >> /verif/DESIGN.md
  wc -l /tmp/design_$A.txt
else echo "no DESIGN changes by $A"; fi
