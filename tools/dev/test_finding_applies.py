#!/usr/bin/env python3
"""Self-test of the per-op application of known findings (tools/props/c20.py `finding_applies`, vlib `waiving_findings`).
Needs built h3run / h3drv.  Exit code 0 = as intended."""
import os
import sys

sys.path.insert(0, os.path.join(os.path.dirname(os.path.abspath(__file__)), ".."))
import vlib  # noqa: E402
from props.c20 import PROP  # noqa: E402

F = vlib.load_findings()


def answers(line):
    raw = vlib.run_impl([line])[0]
    impl = PROP.project_all([line], [raw])[0]
    model, spec = vlib.run_model([line])
    return impl, model[0], spec[0]


def main():
    ok = True
    # 1. the recorded witnesses: the only mismatching op carries the tag -> waived, by that finding only
    for key, line in (("site:D-20c", "dyn 200 1 enc:0:61=31 denc:99 dblk:0 dack:99 cap:40 enc:4:62=32 dblk:4"),
                      ("site:D-20d", "dyn 35 100 enc:0:61=31 cancel:0 dack:9 enc:4:61=32 dblk:4")):
        impl, model, spec = answers(line)
        fs = [f["key"] for f in vlib.waiving_findings(PROP, line, impl, model, spec, F)]
        print("%-11s witness waived by %s" % (key, fs))
        ok &= fs == [key] and not vlib.spec_match(spec, impl)
    # 2. the same line with a second mismatch at an op WITHOUT a tag (here simulated on both sides: the first encode is
    #    reported as failed by implementation and model alike, i.e. a defect the model reproduces): not waived
    line = "dyn 200 1 enc:0:61=31 denc:99 dblk:0 dack:99 cap:40 enc:4:62=32 dblk:4"
    impl, model, spec = answers(line)
    impl2, model2 = impl.replace("X:ok", "X:err", 1), model.replace("X:ok", "X:err", 1)
    ops = PROP.mismatching_ops(impl2, model2, spec)
    fs = vlib.waiving_findings(PROP, line, impl2, model2, spec, F)
    per_line = vlib.finding_for("C20", line, model2, F) is not None and vlib.untag(impl2) == vlib.untag(model2)
    print("second mismatch at an untagged op: mismatching ops %s; per-line rule would waive: %s; per-op rule waives: %s"
          % ([t for _, t in ops], per_line, bool(fs)))
    ok &= per_line and not fs
    # 3. a tag somewhere on the line but the mismatch elsewhere only (the tagged op's answer made right): not waived
    impl3 = impl2.replace("B:ok 61=31 ~20c", "B:blocked r=2 ~20c")
    model3 = model2.replace("B:ok#D-20c 61=31 ~20c", "B:blocked#D-20c r=2 ~20c")
    fs = vlib.waiving_findings(PROP, line, impl3, model3, spec, F)
    print("tag on a matching op, mismatch at an untagged op only: per-op rule waives: %s" % bool(fs))
    ok &= not fs and not vlib.spec_match(spec, impl3)
    print("OK" if ok else "FAILED")
    return 0 if ok else 1


if __name__ == "__main__":
    sys.exit(main())
