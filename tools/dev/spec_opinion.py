#!/usr/bin/env python3
"""spec_opinion.py <Cxx> [quick|thorough]: how many generated cases get `?` (no opinion) from the
specification side of the driver, by role / documented-pattern or not (needs a built h3drv)."""
import collections
import importlib
import os
import random
import sys

ROOT = os.path.dirname(os.path.dirname(os.path.dirname(os.path.abspath(__file__))))
sys.path.insert(0, os.path.join(ROOT, "tools"))
import vlib  # noqa: E402


def main():
    pid = sys.argv[1]
    tier = sys.argv[2] if len(sys.argv) > 2 else "quick"
    prop = importlib.import_module("props." + pid.lower()).PROP
    lines = prop.cases(tier, random.Random(1))
    model, spec = vlib.run_model(lines, workers=8)
    tot = collections.Counter()
    q = collections.Counter()
    ex = {}
    for l, m, s in zip(lines, model, spec):
        w = l.split()
        doc = ("rda!" in l and l.rstrip().endswith(("q0.rt", "f0", "q0.rt!")) or " q0.rda! q0.rt" in l)
        key = (w[1], "documented" if doc else "raw-calls")
        tot[key] += 1
        if s == "?":
            q[key] += 1
            ex.setdefault(key, l)
    for k in sorted(tot):
        print("%-8s %-11s cases=%8d  no-opinion=%8d (%.2f %%)" % (k[0], k[1], tot[k], q[k], 100.0 * q[k] / tot[k]))
        if k in ex:
            print("     e.g. " + ex[k][:200])
    print("total %d, no opinion %d (%.2f %%)" % (sum(tot.values()), sum(q.values()), 100.0 * sum(q.values()) / sum(tot.values())))


if __name__ == "__main__":
    main()
