#!/bin/sh
# usage: tools/dev/seed_try.sh <Cxx> <patch.diff> [tier]
# Runs the COMMITTED check of /verif for property Cxx against a scratch clone of /repo with the patch
# applied (scratch clones under /root/w/st are kept between calls for their build caches; remove
# them with `rm -rf /root/w/st` when done). Neither /repo nor /verif is touched.
set -u
P=$1; D=$2; T=${3:-quick}
S=${ST:-/root/w/st}
mkdir -p $S
if [ -d $S/verif/.git ]; then git -C $S/verif fetch -q /verif main && git -C $S/verif reset -q --hard FETCH_HEAD; else git clone -q /verif $S/verif; fi
if [ -d $S/repo/.git ]; then git -C $S/repo fetch -q /repo main && git -C $S/repo reset -q --hard FETCH_HEAD && git -C $S/repo clean -fdq -e target; else git clone -q /repo $S/repo; fi
echo $S/repo > $S/verif/.repo_path
cp /repo/Cargo.lock $S/verif/harness/Cargo.lock
git -C $S/repo apply "$D" || { echo "patch does not apply"; exit 2; }
(cd $S/verif && bin/check $P --tier $T) > $S/log.$P 2>&1; rc=$?
git -C $S/repo checkout -q -- .
grep -E "^(VIOLATION|BROKEN|KNOWN|NOTE|C[0-9][0-9] tier)" $S/log.$P | cut -c1-600 | head -10
echo "rc=$rc"
