#!/usr/bin/env python3
"""Independent confirmation of the round-3 seeded changes (layout <SEED_OUT>/<Cxx>/{patch1.diff,demo1/RUN.txt,NOTES.md},
RUN.txt of the form `Copy: demo/X -> h3/tests/X` + `Run: cargo test …`) in a scratch worktree of /repo's HEAD.
Writes /tmp/seed/verify_result3.json in the format tools/dev/pack_seed.py reads."""
import json, os, re, shutil, subprocess, sys
WT = "/tmp/sv3"
OUTROOT = os.environ.get("SEED_OUT", "/tmp/seed3/out3")


def sh(cmd, cwd=WT, timeout=3000):
    p = subprocess.run(cmd, shell=True, cwd=cwd, stdout=subprocess.PIPE, stderr=subprocess.STDOUT, text=True,
                       timeout=timeout, env=dict(os.environ, CARGO_NET_OFFLINE="true"))
    return p.returncode, p.stdout


res = {}
subprocess.run("git -C /repo worktree remove --force %s 2>/dev/null; git -C /repo worktree add --detach %s HEAD -q" % (WT, WT), shell=True)
os.makedirs("/tmp/seed", exist_ok=True)
for prop in sorted(os.listdir(OUTROOT)):
    out = OUTROOT + "/" + prop
    if len(sys.argv) > 1 and prop not in sys.argv[1:]:
        continue
    run = open(out + "/demo1/RUN.txt").read()
    run = re.sub(r"\\\n\s*", " ", run)
    copies = re.findall(r"demo/(\S+)\s+->\s+(\S+)", run)
    tests = []
    for l in run.split("\n"):
        l = re.sub(r"^\s*Run:\s*", "", l).strip()
        m = re.search(r"((?:\w+=(?:\"[^\"]*\"|\S+)\s+)*cargo test .*)$", l)
        if m and m.group(1) not in tests:
            tests.append(m.group(1))
    sh("git checkout -- . && git clean -fdq -e target")
    for (s, d) in copies:
        os.makedirs(os.path.dirname(os.path.join(WT, d)), exist_ok=True)
        shutil.copy(os.path.join(out, "demo1", s), os.path.join(WT, d))
    r = {"setup": ["copy %s -> %s" % c for c in copies], "tests": tests}
    ok = bool(tests)
    for t in tests:
        rc, o = sh(t)
        ok = ok and rc == 0 and re.search(r"test result: ok\. [1-9]", o) is not None
    r["head_demo_pass"] = ok
    rc, o = sh("git apply %s/patch1.diff" % out)
    r["applies"] = rc == 0
    rc, o = sh("cargo build --workspace --offline 2>&1 | tail -3")
    r["builds"] = ("error" not in o and "warning" not in o)
    # the demo file is in h3/tests: run the library suite and the doc tests only (what the baseline counts)
    rc, o = sh("cargo test -p h3 --offline --lib 2>&1 | grep -E '^test result'")
    r["h3_lib_suite"] = o.strip()
    touched = subprocess.run("git diff --name-only", shell=True, cwd=WT, stdout=subprocess.PIPE, text=True).stdout.split()
    r["touched"] = touched
    for c in sorted({t.split("/")[0] for t in touched if not t.startswith("h3/")}):
        rc, o = sh("cargo test -p %s --offline --lib 2>&1 | grep -E '^test result'" % c)
        r["suite_" + c] = o.strip()
    fail = False
    for t in tests:
        rc, o = sh(t)
        fail = fail or rc != 0
        r.setdefault("patched_demo", []).append((t, rc, o[-300:]))
    r["patched_demo_fails"] = fail
    res["%s_1" % prop] = r
    print(prop, "head_pass=%s applies=%s builds=%s suite=%s patched_fails=%s" % (
        r["head_demo_pass"], r["applies"], r["builds"], r["h3_lib_suite"][:44], fail), flush=True)
    json.dump(res, open("/tmp/seed/verify_result3.json", "w"), indent=1)
sh("git checkout -- . && git clean -fdq")
subprocess.run("rm -rf %s/target; git -C /repo worktree remove --force %s" % (WT, WT), shell=True)
