#!/bin/sh
# usage: merge_shared.sh <agent> <base> <file>...   3-way apply the agent's changes to shared files
A=$1; B=$2; shift 2
for f in "$@"; do
  (cd /root/w/$A/verif && git diff $B..HEAD -- $f) > /tmp/ms_$A.diff
  if [ -s /tmp/ms_$A.diff ]; then
    (cd /verif && git apply --3way /tmp/ms_$A.diff 2>&1 | tail -2)
    if grep -q "<<<<<<<" /verif/$f; then echo "CONFLICT in $f"; fi
  fi
done
