#!/usr/bin/env python3
"""pack_seed.py <Cxx> <k> <caught-by text> : copy a confirmed seeded change into /verif/seeded/<Cxx>-<k>/"""
import json, os, shutil, sys, re
prop, k, caught = sys.argv[1], int(sys.argv[2]), sys.argv[3]
src = "%s/%s" % (os.environ.get("SEED_OUT", "/tmp/seed/out"), prop)
num = k + int(os.environ.get("SEED_OFFSET", "0"))      # round 2 seeds are numbered 3, 4, 5
dst = "/verif/seeded/%s-%d" % (prop, num)
os.makedirs(dst, exist_ok=True)
shutil.copy("%s/patch%d.diff" % (src, k), "%s/patch.diff" % dst)
if os.path.isdir("%s/demo" % dst):
    shutil.rmtree("%s/demo" % dst)
shutil.copytree("%s/demo%d" % (src, k), "%s/demo" % dst, ignore=shutil.ignore_patterns("*.log"))
notes = open("%s/NOTES.md" % src).read()
import glob
ver = {}
key = "%s_%d" % (prop, k)
round2 = "out2" in src
for f in sorted(glob.glob("/tmp/seed/verify_result*.json"), key=os.path.getmtime, reverse=True):
    try:
        d = json.load(open(f))
    except Exception:
        continue
    v = d.get(key)
    # round 1 and round 2 use the same keys: tell them apart by the demo path recorded with the result
    if v and (("out2" in json.dumps(v.get("setup", [])) or "out2" in json.dumps(v.get("tests", []))) == round2) \
            and v.get("head_demo_pass") and v.get("patched_demo_fails"):
        ver = v
        break
meta = {
    "property": prop,
    "seed": "%s-%d" % (prop, num),
    "origin": "written by an independent sub-agent that saw only the property text and its own scratch worktree of the repository",
    "touched_files": ver.get("touched", []),
    "needs_to_manifest": "see notes",
    "notes_from_author": notes,
    "confirmed_by_lead": {
        "where": "scratch worktree /tmp/sv of /repo HEAD (removed afterwards)",
        "patch_applies": ver.get("applies"),
        "workspace_builds": ver.get("builds"),
        "existing_h3_lib_suite_with_change": ver.get("h3_lib_suite"),
        "other_touched_crate_suites": {kk: v for kk, v in ver.items() if kk.startswith("suite_")},
        "demo_passes_on_head": ver.get("head_demo_pass"),
        "demo_fails_with_change": ver.get("patched_demo_fails"),
        "demo_commands": ver.get("tests"),
    },
    "detection": {
        "how_run": "tools/dev/seed_try.sh %s seeded/%s-%d/patch.diff (the committed check of /verif run against a scratch clone of /repo with the change applied; same result as tools/seedtest.sh, which applies it to /repo itself and undoes it)" % (prop, prop, num),
        "result": caught,
    },
}
json.dump(meta, open("%s/meta.json" % dst, "w"), indent=1)
print("packed", dst)
