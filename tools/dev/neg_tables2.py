#!/usr/bin/env python3
"""Negative / harmless edits for the second-round decision tables (DESIGN.md section 12, "Translator: decision tables,
second round"): does the edit compile, what does the translator say, which generated files change, which agreement-lemma
modules stop building.

usage: NEG_REPO=<scratch clone of the repository> NEG_LEAN=<scratch copy of <verif>/lean, with .lake> neg_tables2.py [name prefix …]
Never point NEG_REPO at /repo or NEG_LEAN at the lean directory of a copy in which a check is running."""
import os, re, subprocess, sys, filecmp, shutil, tempfile

VERIF = os.path.dirname(os.path.dirname(os.path.dirname(os.path.abspath(__file__))))
REPO = os.environ.get("NEG_REPO", "")
LEAN = os.environ.get("NEG_LEAN", "")
GEN = os.path.join(LEAN, "H3", "Gen")
BASE = os.environ.get("NEG_BASE") or tempfile.mkdtemp(prefix="gen_base_")     # generated from the unchanged /repo
CTARGET = os.environ.get("NEG_CARGO_TARGET") or os.path.join(tempfile.gettempdir(), "neg_tables2_target")
MODS = ["H3.Lemmas.GenAgreeSend", "H3.Lemmas.GenAgreeGoaway", "H3.Lemmas.GenAgreeQpack",
        "H3.Lemmas.GenAgreeCtl", "H3.Lemmas.GenAgreeReq", "H3.Lemmas.GenAgreeFrame"]


def sh(cmd, cwd=None, env=None):
    e = dict(os.environ)
    e.update(env or {})
    p = subprocess.run(cmd, cwd=cwd, env=e, stdout=subprocess.PIPE, stderr=subprocess.STDOUT, text=True)
    return p.returncode, p.stdout


EDITS = {}


def edit(name, area, *subs):
    EDITS[name] = (area, subs)


C = "h3/src/connection.rs"
# ------------------------------------------------------------------ A
edit("A1 snapshot of the peer limit taken in RequestStream::new, used by send_trailers", "A",
     (C, "    pub(super) max_field_section_size: u64,\n    send_grease_frame: bool,\n}",
         "    pub(super) max_field_section_size: u64,\n    peer_max_field_section_size: u64,\n    send_grease_frame: bool,\n}"),
     (C, "        Self {\n            stream,\n            conn_state,\n            max_field_section_size,",
         "        Self {\n            stream,\n            peer_max_field_section_size: conn_state.settings().max_field_section_size,\n            conn_state,\n            max_field_section_size,"),
     (C, "                max_field_section_size: 0,\n", "                max_field_section_size: 0,\n                peer_max_field_section_size: self.peer_max_field_section_size,\n"),
     (C, "                max_field_section_size: self.max_field_section_size,\n                send_grease_frame: self.send_grease_frame,\n            },\n        )",
         "                max_field_section_size: self.max_field_section_size,\n                peer_max_field_section_size: self.peer_max_field_section_size,\n                send_grease_frame: self.send_grease_frame,\n            },\n        )"),
     (C, "        let max_mem_size = self.settings().max_field_section_size;", "        let max_mem_size = self.peer_max_field_section_size;"))
edit("A2 From<&frame::Settings>: an advertised 0 max_field_section_size is filtered out (= unlimited)", "A",
     ("h3/src/config.rs", "                .get(frame::SettingId::MAX_HEADER_LIST_SIZE)\n                .unwrap_or(",
                          "                .get(frame::SettingId::MAX_HEADER_LIST_SIZE)\n                .filter(|v| *v != 0)\n                .unwrap_or("))
edit("A3 send_trailers writes the grease frame before the trailers", "A",
     (C, "        stream::write(&mut self.stream, Frame::Headers(block.freeze()))\n            .await\n            .map_err(|e| self.handle_quic_stream_error(e))?;\n\n        Ok(())\n    }\n\n    /// Stops a stream",
         "        if self.send_grease_frame {\n            stream::write(&mut self.stream, Frame::Grease)\n                .await\n                .map_err(|e| self.handle_quic_stream_error(e))?;\n            self.send_grease_frame = false;\n        }\n"
         "        stream::write(&mut self.stream, Frame::Headers(block.freeze()))\n            .await\n            .map_err(|e| self.handle_quic_stream_error(e))?;\n\n        Ok(())\n    }\n\n    /// Stops a stream"))
edit("A4 send_response refuses with >= instead of >", "A",
     ("h3/src/server/stream.rs", "        if mem_size > max_mem_size {", "        if mem_size >= max_mem_size {"))
edit("A5 finish() no longer clears the grease flag", "A",
     (C, "                .map_err(|e| self.handle_quic_stream_error(e))?;\n            self.send_grease_frame = false;\n        }\n\n        future::poll_fn(|cx| self.stream.poll_finish(cx))",
         "                .map_err(|e| self.handle_quic_stream_error(e))?;\n        }\n\n        future::poll_fn(|cx| self.stream.poll_finish(cx))"))
edit("A6 send_request reads the limit before encoding and tests it after the write", "A",
     ("h3/src/client/connection.rs",
      "        let peer_max_field_section_size = self.settings().max_field_section_size;\n        if mem_size > peer_max_field_section_size {\n            return Err(StreamError::HeaderTooBig {\n                actual_size: mem_size,\n                max_size: peer_max_field_section_size,\n            });\n        }\n\n        stream::write(&mut stream, Frame::Headers(block.freeze()))\n            .await\n            .map_err(|e| self.handle_quic_stream_error(e))?;\n",
      "        let peer_max_field_section_size = self.settings().max_field_section_size;\n        stream::write(&mut stream, Frame::Headers(block.freeze()))\n            .await\n            .map_err(|e| self.handle_quic_stream_error(e))?;\n        if mem_size > peer_max_field_section_size {\n            return Err(StreamError::HeaderTooBig {\n                actual_size: mem_size,\n                max_size: peer_max_field_section_size,\n            });\n        }\n\n"))
edit("A7 server accept keeps the connection's grease flag set", "A",
     ("h3/src/server/connection.rs", "        // send the grease frame only once\n        self.inner.send_grease_frame = false;\n", ""))
# ------------------------------------------------------------------ B
S = "h3/src/server/connection.rs"
edit("B1 accept filter: >= becomes >", "B", (S, "if s.send_id() >= max_id {", "if s.send_id() > max_id {"))
edit("B2 ConnectionInner::shutdown stores the new id before the only-if-lower test", "B",
     (C, "        if let Some(sent_id) = sent_closing {\n            if *sent_id <= max_id {\n                return Ok(());\n            }\n        }\n\n        *sent_closing = Some(max_id);\n",
         "        *sent_closing = Some(max_id);\n        if let Some(sent_id) = sent_closing {\n            if *sent_id <= max_id {\n                return Ok(());\n            }\n        }\n\n"))
edit("B2' the same with sent_closing.replace(max_id)", "B",
     (C, "        if let Some(sent_id) = sent_closing {\n            if *sent_id <= max_id {\n                return Ok(());\n            }\n        }\n\n        *sent_closing = Some(max_id);\n",
         "        if let Some(sent_id) = sent_closing.replace(max_id) {\n            if sent_id <= max_id {\n                return Ok(());\n            }\n        }\n\n"))
edit("B3 last_accepted_stream overwritten instead of max", "B",
     (S, "self.last_accepted_stream = self.last_accepted_stream.max(Some(s.send_id()));", "self.last_accepted_stream = Some(s.send_id());"))
edit("B4 accept no longer sends the last GOAWAY (shutdown(0))", "B",
     (S, "                self.shutdown(0).await?;\n                return Ok(None);", "                return Ok(None);"))
edit("B5 process_goaway: < becomes <=", "B", (C, "                if prev_id < id {", "                if prev_id <= id {"))
edit("B6 rejected streams are reset with H3_REQUEST_CANCELLED", "B",
     (S, "s.reset(Code::H3_REQUEST_REJECTED.value());", "s.reset(Code::H3_REQUEST_CANCELLED.value());"))
edit("B7 ConnectionInner::shutdown: <= becomes <", "B", (C, "            if *sent_id <= max_id {", "            if *sent_id < max_id {"))
edit("B8 Ok(None) decided without looking at recv_closing", "B",
     (S, "                        self.recv_closing.is_some() && self.poll_requests_completion(cx).is_ready()", "                        self.poll_requests_completion(cx).is_ready()"))
edit("B9 server shutdown announces largest + n (not n + 1)", "B",
     (S, "Some(id) => id + max_requests.saturating_add(1),", "Some(id) => id + max_requests,"))
edit("B11 ConnectionInner::shutdown without its leading error check (the D-05s repair undone)", "B",
     (C, "        self.check_connection_error()?;\n\n        if let Some(sent_id) = sent_closing {", "        if let Some(sent_id) = sent_closing {"))
edit("B10 send_request: the closing gate behind poll_open_bidi", "B",
     ("h3/src/client/connection.rs", "        if let Some(error) = self.check_peer_connection_closing() {\n            return Err(error);\n        };\n\n", ""),
     ("h3/src/client/connection.rs", "            .map_err(|e| self.handle_quic_stream_error(e))?;\n\n        //= https://www.rfc-editor.org/rfc/rfc9114#section-4.2\n        //= type=TODO\n        //# Characters in field names MUST be\n        //# converted to lowercase prior to their encoding.\n\n        //= https://www.rfc-editor.org/rfc/rfc9114#section-4.2.1",
      "            .map_err(|e| self.handle_quic_stream_error(e))?;\n        if let Some(error) = self.check_peer_connection_closing() {\n            return Err(error);\n        };\n\n        //= https://www.rfc-editor.org/rfc/rfc9114#section-4.2\n        //= type=TODO\n        //# Characters in field names MUST be\n        //# converted to lowercase prior to their encoding.\n\n        //= https://www.rfc-editor.org/rfc/rfc9114#section-4.2.1"))
# ------------------------------------------------------------------ C
BL, ST, DE, EN = "h3/src/qpack/block.rs", "h3/src/qpack/stream.rs", "h3/src/qpack/decoder.rs", "h3/src/qpack/encoder.rs"
edit("C1 HeaderBlockField::decode: the patterns of IndexedWithPostBase and LiteralWithPostBaseNameRef swapped", "C",
     (BL, "        } else if first & 0b1111_0000 == 0b0001_0000 {\n            HeaderBlockField::IndexedWithPostBase", "        } else if first & 0b1111_0000 == 0 {\n            HeaderBlockField::IndexedWithPostBase"),
     (BL, "        } else if first & 0b1111_0000 == 0 {\n            HeaderBlockField::LiteralWithPostBaseNameRef", "        } else if first & 0b1111_0000 == 0b0001_0000 {\n            HeaderBlockField::LiteralWithPostBaseNameRef"))
edit("C2 Indexed::decode reads a 5-bit prefix", "C", (BL, "        match prefix_int::decode(6, buf)? {\n            (0b11, i) => {", "        match prefix_int::decode(5, buf)? {\n            (0b11, i) => {"))
edit("C3 EncoderInstruction::decode: Duplicate and DynamicTableSizeUpdate swapped", "C",
     (ST, "        } else if first & 0b1110_0000 == 0 {\n            EncoderInstruction::Duplicate\n        } else if first & 0b0010_0000 == 0b0010_0000 {\n            EncoderInstruction::DynamicTableSizeUpdate",
          "        } else if first & 0b1110_0000 == 0 {\n            EncoderInstruction::DynamicTableSizeUpdate\n        } else if first & 0b0010_0000 == 0b0010_0000 {\n            EncoderInstruction::Duplicate"))
edit("C4 HeaderAck::encode writes a 6-bit prefix", "C", (ST, "        prefix_int::encode(7, 0b1, self.0, buf);", "        prefix_int::encode(6, 0b1, self.0, buf);"))
edit("C5 decode_stateless: mem_size > max_size becomes >=", "C", (DE, "        if mem_size > max_size {", "        if mem_size >= max_size {"))
edit("C6 encode_stateless tries the static name match before the static full match", "C",
     (EN, "        if let Some(index) = StaticTable::find(field) {\n            Indexed::Static(index).encode(block);\n        } else if let Some(index) = StaticTable::find_name(&field.name) {\n            LiteralWithNameRef::new_static(index, field.value.clone()).encode(block)?;\n        } else {",
          "        if let Some(index) = StaticTable::find_name(&field.name) {\n            LiteralWithNameRef::new_static(index, field.value.clone()).encode(block)?;\n        } else if let Some(index) = StaticTable::find(field) {\n            Indexed::Static(index).encode(block);\n        } else {"))
edit("C7 parse_header_field resolves Indexed::Dynamic through get_postbase", "C",
     (DE, "                Indexed::Dynamic(index) => table.get_relative(index)?.clone(),", "                Indexed::Dynamic(index) => table.get_postbase(index)?.clone(),"))
edit("C8 LiteralWithNameRef::decode: static / dynamic flag patterns swapped", "C",
     (BL, "            (f, i) if f & 0b0101 == 0b0101 => {", "            (f, i) if f & 0b0101 == 0b0100 => {"),
     (BL, "            (f, i) if f & 0b0101 == 0b0100 => {\n                if i > (usize::MAX as u64) {\n                    return Err(ParseError::Integer(\n                        crate::qpack::prefix_int::Error::Overflow,\n                    ));\n                }\n\n                Ok(LiteralWithNameRef::new_dynamic(",
          "            (f, i) if f & 0b0101 == 0b0101 => {\n                if i > (usize::MAX as u64) {\n                    return Err(ParseError::Integer(\n                        crate::qpack::prefix_int::Error::Overflow,\n                    ));\n                }\n\n                Ok(LiteralWithNameRef::new_dynamic("))
edit("C9 on_decoder_recv: a Stream Cancellation untracks once only", "C",
     (EN, "                    if self.table.untrack_block(stream_id).is_ok() {\n                        let _ = self.table.untrack_block(stream_id);\n                    }", "                    self.table.untrack_block(stream_id)?"))
edit("C10 encode_field writes InsertWithNameRef::new_static for a dynamic name reference", "C",
     (EN, "                InsertWithNameRef::new_dynamic(relative, field.value.clone()).encode(encoder)?;", "                InsertWithNameRef::new_static(relative, field.value.clone()).encode(encoder)?;"))
# ------------------------------------------------------------------ harmless
edit("H1 arms reordered: shutdown's write match, decode_stateless, parse_instruction, poll_requests_completion; disjoint first-byte tests swapped", "harmless",
     (C, "            Ok(()) => Ok(()),\n            Err(StreamErrorIncoming::ConnectionErrorIncoming { connection_error }) => {\n                Err(self.handle_connection_error(connection_error))\n            }\n",
         "            Err(StreamErrorIncoming::ConnectionErrorIncoming { connection_error }) => {\n                Err(self.handle_connection_error(connection_error))\n            }\n            Ok(()) => Ok(()),\n"),
     (DE, "            HeaderBlockField::IndexedWithPostBase => return Err(DecoderError::MissingRefs(0)),\n            HeaderBlockField::LiteralWithPostBaseNameRef => {\n                return Err(DecoderError::MissingRefs(0))\n            }\n",
          "            HeaderBlockField::LiteralWithPostBaseNameRef => {\n                return Err(DecoderError::MissingRefs(0))\n            }\n            HeaderBlockField::IndexedWithPostBase => return Err(DecoderError::MissingRefs(0)),\n"),
     (DE, "            EncoderInstruction::Unknown => return Err(DecoderError::UnknownPrefix(first)),\n            EncoderInstruction::DynamicTableSizeUpdate => {\n                DynamicTableSizeUpdate::decode(&mut buf)?.map(|x| Instruction::TableSizeUpdate(x.0))\n            }\n",
          "            EncoderInstruction::DynamicTableSizeUpdate => {\n                DynamicTableSizeUpdate::decode(&mut buf)?.map(|x| Instruction::TableSizeUpdate(x.0))\n            }\n            EncoderInstruction::Unknown => return Err(DecoderError::UnknownPrefix(first)),\n"),
     (S, "                // The channel is closed\n                Poll::Ready(None) => return Poll::Ready(()),\n                // A request has completed\n                Poll::Ready(Some(id)) => {\n                    self.ongoing_streams.remove(&id);\n                }\n",
         "                // A request has completed\n                Poll::Ready(Some(id)) => {\n                    self.ongoing_streams.remove(&id);\n                }\n                // The channel is closed\n                Poll::Ready(None) => return Poll::Ready(()),\n"),
     (BL, "        } else if first & 0b1111_0000 == 0b0001_0000 {\n            HeaderBlockField::IndexedWithPostBase\n        } else if first & 0b1100_0000 == 0b0100_0000 {\n            HeaderBlockField::LiteralWithNameRef\n",
          "        } else if first & 0b1100_0000 == 0b0100_0000 {\n            HeaderBlockField::LiteralWithNameRef\n        } else if first & 0b1111_0000 == 0b0001_0000 {\n            HeaderBlockField::IndexedWithPostBase\n"))
edit("H2 locals renamed: mem_size / max_mem_size / block in send_trailers and send_response, sent_id in shutdown, prev_id in process_goaway, index in Duplicate::decode", "harmless",
     (C, "        let mut block = BytesMut::new();\n\n        let mem_size =\n            qpack::encode_stateless(&mut block, Header::trailer(trailers))",
         "        let mut section = BytesMut::new();\n\n        let section_size =\n            qpack::encode_stateless(&mut section, Header::trailer(trailers))"),
     (C, "        let max_mem_size = self.settings().max_field_section_size;", "        let peer_limit = self.settings().max_field_section_size;"),
     (C, "        if mem_size > max_mem_size {\n            return Err(StreamError::HeaderTooBig {\n                actual_size: mem_size,\n                max_size: max_mem_size,\n            });\n        }\n\n        stream::write(&mut self.stream, Frame::Headers(block.freeze()))",
         "        if section_size > peer_limit {\n            return Err(StreamError::HeaderTooBig {\n                actual_size: section_size,\n                max_size: peer_limit,\n            });\n        }\n\n        stream::write(&mut self.stream, Frame::Headers(section.freeze()))"),
     (C, "        if let Some(sent_id) = sent_closing {\n            if *sent_id <= max_id {", "        if let Some(previous) = sent_closing {\n            if *previous <= max_id {"),
     (C, "            if let Some(prev_id) = recv_closing.map(VarInt::from) {\n                if prev_id < id {", "            if let Some(before) = recv_closing.map(VarInt::from) {\n                if before < id {"),
     (C, "                            id, prev_id\n", "                            id, before\n"),
     (ST, "        let index = match prefix_int::decode(5, buf) {\n            Ok((0, x)) => {\n                if x > (usize::MAX as u64) {\n                    return Err(ParseError::Integer(\n                        crate::qpack::prefix_int::Error::Overflow,\n                    ));\n                }\n                x as usize\n            }\n            Ok((f, _)) => return Err(ParseError::InvalidPrefix(f)),\n            Err(IntError::UnexpectedEnd) => return Ok(None),\n            Err(e) => return Err(e.into()),\n        };\n        Ok(Some(Duplicate(index)))",
          "        let relative = match prefix_int::decode(5, buf) {\n            Ok((0, v)) => {\n                if v > (usize::MAX as u64) {\n                    return Err(ParseError::Integer(\n                        crate::qpack::prefix_int::Error::Overflow,\n                    ));\n                }\n                v as usize\n            }\n            Ok((flags, _)) => return Err(ParseError::InvalidPrefix(flags)),\n            Err(IntError::UnexpectedEnd) => return Ok(None),\n            Err(err) => return Err(err.into()),\n        };\n        Ok(Some(Duplicate(relative)))"))


def run(name):
    area, subs = EDITS[name]
    sh(["git", "checkout", "-q", "."], cwd=REPO)
    for f in os.listdir(BASE):                       # a refused extractor leaves its file as it was: start from the unchanged tables
        if not filecmp.cmp(os.path.join(BASE, f), os.path.join(GEN, f), shallow=False):
            shutil.copy(os.path.join(BASE, f), os.path.join(GEN, f))
    for rel, old, new in subs:
        p = os.path.join(REPO, rel)
        s = open(p).read()
        if s.count(old) != 1:
            return "EDIT DOES NOT APPLY (%d occurrences in %s of %r)" % (s.count(old), rel, old[:50])
        open(p, "w").write(s.replace(old, new))
    rc, out = sh(["cargo", "check", "--offline", "-q", "-p", "h3"], cwd=REPO, env={"CARGO_TARGET_DIR": CTARGET})
    compiles = "compiles" if rc == 0 else "DOES NOT COMPILE: " + " ".join(l for l in out.split("\n") if l.startswith("error"))[:200]
    rc, out = sh([sys.executable, os.path.join(VERIF, "tools", "extract.py"), REPO, GEN])
    refusals = [l for l in out.strip().split("\n") if l.startswith("extract:")]
    changed = sorted(f for f in os.listdir(BASE) if not filecmp.cmp(os.path.join(BASE, f), os.path.join(GEN, f), shallow=False))
    failed = []
    if changed:
        for m in MODS:
            rc, out = sh(["lake", "build", m], cwd=LEAN)
            if rc != 0:
                errs = re.findall(r"error: (H3/\S+?):(\d+):\d+", out)
                thms = []
                src_cache = {}
                for f, ln in errs:
                    src = src_cache.setdefault(f, open(os.path.join(LEAN, f)).read().split("\n"))
                    k = int(ln) - 1
                    while k >= 0 and not re.match(r"(theorem|def|example)\s", src[k]):
                        k -= 1
                    if k >= 0:
                        t = src[k].split()[1]
                        if t not in thms:
                            thms.append(t)
                failed.append("%s (%s)" % (m.split(".")[-1], ", ".join(thms) or "?"))
    return "%s | refused: %s | generated files changed: %s | lemma modules failing: %s" % (
        compiles, "; ".join(r[:230] for r in refusals) or "-", ", ".join(changed) or "none (byte-identical)", "; ".join(failed) or "-")


if __name__ == "__main__":
    if not REPO or not LEAN or os.path.realpath(REPO) == "/repo":
        sys.exit(__doc__)
    sh([sys.executable, os.path.join(VERIF, "tools", "extract.py"), "/repo", BASE])
    sel = sys.argv[1:]
    for name in EDITS:
        if sel and not any(name.startswith(x) for x in sel):
            continue
        print("##", name)
        print("   ", run(name), flush=True)
    sh(["git", "checkout", "-q", "."], cwd=REPO)
    sh([sys.executable, os.path.join(VERIF, "tools", "extract.py"), "/repo", GEN])
