#!/usr/bin/env python3
"""seed_table.py : markdown rows for the seeds numbered >= 3 (round 2) from seeded/*/meta.json + the short
descriptions below (what the change is / what it needs)."""
import json, os, re
DESC = {
"C01-3": "size hint kept after a consumed frame (`FrameDecoder::decode`; HEADERS frame in ≥ 2 chunks, shorter remainder)",
"C01-4": "`Pseudo::request` replaces a path not starting with `/` by `/` (target with authority + query, empty path)",
"C01-5": "`RequestStream::split` via `new(..)` drops remembered trailers (body read to the end, split, then `recv_trailers`)",
"C02-3": "stale size hint after a skipped unknown frame (split unknown frame, shorter frame behind)",
"C02-4": "`single_varint` helper checks canonical size (non-minimal varint in CANCEL_PUSH/GOAWAY/MAX_PUSH_ID)",
"C02-5": "`FrameStream::split` resets `remaining_data` (split in the middle of a DATA payload)",
"C03-3": "same slip as C02-3, through the request stream",
"C03-4": "PUSH_PROMISE skipped in the shared body loop (client→server, body position)",
"C03-5": "`FrameStream::split` loses `remaining_data` (read part of a body, split, read on)",
"C04-3": "`poll_type` stores the type only after the id (type and id in two reads with a poll in between)",
"C04-4": "trailing-bytes test applied to HTTP/2-reserved frames (reserved frame with payload ⇒ H3_FRAME_ERROR)",
"C04-5": "`poll_control` waits for the grease stream (stream opened, no byte taken, second control frame)",
"C05-3": "`close_if_needed` before `set_conn_error` (request task raises inside a driver poll)",
"C05-4": "only internal errors wake the driver (transport `InternalError` on a stream operation)",
"C05-5": "driver waker registered on the first poll only (driver polled from a second task)",
"C06-3": "tokio `poll_read` passes `capacity()` instead of `remaining()` (partly filled `ReadBuf`, larger chunk)",
"C06-4": "`poll_next_varint` loops for ever (uni stream finished inside a multi-byte varint)",
"C06-5": "`poll_control` gated on the grease stream (peer grants three uni streams, control stream reset)",
"C07-3": "`poll_data` hands out buffered pieces before a saved error, wrong arm order (RESET inside a DATA payload between two reads)",
"C07-4": "`StreamTerminated(H3_NO_ERROR)` mapped to `Ok(())` in `send_data` (STOP_SENDING with code 0x100, one more write)",
"C07-5": "stale size hint after a skipped unknown frame (split grease frame, fewer bytes, FIN before HEADERS)",
"C08-3": "GOAWAY id from the newest request still running (older request running, newer one completed and collected)",
"C08-4": "`Add<usize> for StreamId` by raw shift (shutdown counts ≥ 2^60)",
"C08-5": "`process_goaway` stores only the first identifier (GOAWAY 8, 4, 8)",
"C09-3": "`poll_requests_completion` returns Pending after one notification (≥ 3 requests ending between two polls)",
"C09-4": "request-end channel bounded at 128 with `try_send` (> 128 handles dropped between two polls)",
"C09-5": "`RequestEnd` held by value and cloned by `split()` (split, one half dropped, peer GOAWAY)",
"C10-3": "peer limit read before `poll_open_bidi().await` (send_request parked on the stream limit while SETTINGS arrive)",
"C10-4": "431 written with `stream::write`, skipping the peer-limit check (client limit ≤ 41)",
"C10-5": "peer limit stored at stream creation (SETTINGS between creation and trailers / response)",
"C11-3": "`MAX_POWER` widened with `checked_shl` (ten continuation bytes, even last byte)",
"C11-4": "static entries 73/74 lower-cased on both sides",
"C11-5": "reusable header buffer not cleared on `HeaderTooBig` (refused request, then another on the same handle)",
"C12-3": "Host compared through `Authority ==` (values differing only in case)",
"C12-4": "`Pseudo::len` derived from the fields without `:protocol` (trailers whose only pseudo field is `:protocol`)",
"C12-5": "only the `try_from` path still sends STOP_SENDING (responses refused at assembly)",
"C13-3": "`break` instead of `continue` on Pending in `poll_accept_recv` (incomplete uni stream ahead of the control stream)",
"C13-4": "SETTINGS longer than `MAX_ENCODED_SIZE` refused (payload > 128 bytes)",
"C13-5": "`WriteBuf::advance`: `pos = cnt` (control stream header taken in ≥ 3 pieces)",
"C14-3": "`WriteBuf::advance`: `pos = header` (frame header taken in ≥ 2 pieces)",
"C14-4": "`VarInt::size` wrong on [2^30, 2^31)",
"C14-5": "grease stream state set to `DataSent` before `poll_ready` is matched (Pending inside the 8-byte type, second control frame)",
"C15-3": "`MAX_POWER` widened, shift unguarded (ten continuation bytes)",
"C15-4": "string payload copied from `chunk()` only (non-contiguous `Buf`, boundary inside the payload)",
"C15-5": "`take(max_symbols)` skips the padding check (maximally packed short-code string, damaged padding)",
"C16-3": "`read_tail` assumes ≤ 2 chunks (varint tail spread over ≥ 3 chunks)",
"C16-4": "`Add<usize>` by raw shift (increment ≥ 2^62)",
"C16-5": "4- and 8-byte arms merged, second length check lost (8-byte encoding cut after 4–7 bytes)",
"C17-3": "deferred stop applied at the next read, not at completion (stop while a read is pending, no further poll)",
"C17-4": "`Stopped(H3_NO_ERROR)` answered `Ok(())` in `poll_ready` (peer stops with 0x100)",
"C17-5": "`writing.take()` + `ready!` drops the rest on Pending (back-pressure inside a buffer)",
"C18-3": "`advance` crossing from a partly consumed header (header ≥ 2 bytes, two advances)",
"C18-4": "`VarInt::size` wrong on [2^30, 2^31) (quarter id in that window)",
"C18-5": "range error built with `got_frame_error` ⇒ H3_ID_ERROR (quarter id ≥ 2^60)",
"C19-3": "`poll_type` loses the type across a Pending id (header cut after the type, poll in between)",
"C19-4": "session id compared with the buffered payload as a length (session ≥ 4, short payload)",
"C19-5": "header re-encoded on every poll of `OpenBi`/`OpenUni` (send window closes inside the header)",
"C20-3": "`relative_base` refuses a Base above the received insert count (block overtakes an unrelated instruction)",
"C20-4": "decoder rounds MaxEntries up (capacity not a multiple of 32)",
"C20-5": "post-base lookup no longer pins the entry (after an eviction, delayed block)",
}
root = "/verif/seeded"
rows = []
for d in sorted(os.listdir(root), key=lambda x: (x.split("-")[0], int(x.split("-")[1])) if re.match(r"^C\d\d-\d+$", x) else ("Z", 0)):
    m = re.match(r"^(C\d\d)-(\d+)$", d)
    if not m or int(m.group(2)) < 3:
        continue
    meta = json.load(open(os.path.join(root, d, "meta.json")))
    res = meta["detection"]["result"]
    first = "**missed at first**" if res.upper().startswith("MISSED") else ("**weak at first**" if "at first" in res[:40] else "caught")
    short = res.split(". Now caught:")[-1] if "Now caught:" in res else res
    short = re.sub(r"^caught \(quick\): ", "", short).strip()
    rows.append("| %s | %s | %s | %s |" % (d, DESC.get(d, "?"), short[:260], first))
missing = [k for k in DESC if not os.path.isdir(os.path.join(root, k))]
print("\n".join(rows))
print("\nNOT PACKED YET:", missing)
