#!/usr/bin/env python3
"""Regenerates MANIFEST.json from tools/props/*.py (claimed checks) and properties.jsonl."""
import importlib
import json
import os
import sys

ROOT = os.path.dirname(os.path.dirname(os.path.abspath(__file__)))
sys.path.insert(0, os.path.join(ROOT, "tools"))

BASELINE = ("cd /repo && cargo nextest run --workspace --no-fail-fast --test-threads 8 --offline "
            "|| cargo test --workspace --no-fail-fast --offline")


def _sanity():
    """a merged private copy must not leave scratch paths behind"""
    import os, re, sys
    root = os.path.dirname(os.path.dirname(os.path.abspath(__file__)))
    t = open(os.path.join(root, "harness", "Cargo.toml")).read()
    bad = [m for m in re.findall(r'path = "([^"]*)/h3[a-z-]*"', t) if m != "/repo"]
    if bad:
        print("ERROR: harness/Cargo.toml points at %s, not /repo" % sorted(set(bad)))
        sys.exit(1)
    if os.path.exists(os.path.join(root, ".repo_path")):
        print("WARNING: .repo_path present: checks do not run against /repo")


def main():
    _sanity()
    props = {}
    d = os.path.join(ROOT, "tools", "props")
    for f in sorted(os.listdir(d)):
        if f.startswith("c") and f.endswith(".py"):
            m = importlib.import_module("props." + f[:-3])
            if m.PROP.claim:
                props[m.PROP.id] = m.PROP
    all_ids = [json.loads(l)["id"] for l in open(os.path.join(ROOT, "properties.jsonl"))]
    hooks_file = os.path.join(ROOT, "hooks.json")
    hook_commits = json.load(open(hooks_file))["source_commits"] if os.path.exists(hooks_file) else []
    checks = []
    for pid in all_ids:
        if pid not in props:
            continue
        p = props[pid]
        checks.append({
            "property_id": pid,
            "quick_cmd": "bin/check %s --tier quick" % pid,
            "thorough_cmd": "bin/check %s --tier thorough" % pid,
            "evidence_file": "evidence/%s.json" % pid,
            "replay_cmd_template": "bin/check replay {path}",
            "engine": "lean-proof+correspondence",
            "level_claimed": {
                "category": "proof",
                "text": p.level_text,
                "design_ref": p.design_ref,
            },
            "level_note": p.level_note,
            "technique": "machine-checked proof in Lean 4: theorems (induction / invariants / refinement, unbounded) over an executable model of the code; the model is tied to /repo's current source on every run by a translator (tables, constants and the match-arm decision tables, with kernel-checked agreement lemmas between the hand-written model and the regenerated tables) and by a differential correspondence run of model, specification and real code on the same case lines; a broken obligation or correspondence triggers the failing-input search",
        })
    na = []
    pending = json.load(open(os.path.join(ROOT, "tools", "not_claimed.json")))
    for pid in all_ids:
        if pid not in props:
            na.append({"property_id": pid, "reason": pending.get(pid, "not yet claimed: model and theorems not built yet")})
    man = {
        "version": 1,
        "setup_cmd": "bin/setup",
        "hooks": {
            "guard": "hyperium_h3_verif",
            "enable": "harness/.cargo/config.toml sets rustflags = [\"--cfg\", \"hyperium_h3_verif\"] for the harness build (path dependencies on /repo/*)",
            "baseline_off_cmd": BASELINE,
            "source_commits": hook_commits,
            "add_only": True,
        },
        "engines": [
            {"name": "h3drv", "path": "lean/Main.lean", "serves_properties": sorted(props), "kind_free_text": "compiled Lean driver: model and specification answers for case lines"},
            {"name": "h3run", "path": "harness/src/main.rs", "serves_properties": sorted(props), "kind_free_text": "Rust harness calling the real hyperium/h3 code in-process on the same case lines"},
            {"name": "lean-theorems", "path": "lean/H3/Props", "serves_properties": sorted(props), "kind_free_text": "property theorems, one module per property, re-checked by lake build on every run"},
        ],
        "checks": checks,
        "notes": "Every check: regenerate lean/H3/Gen from /repo, lake build (theorems re-checked), #print axioms audit, cargo build of the harness against /repo's working tree, differential run impl vs model vs spec. See DESIGN.md.",
        "not_applicable": na,
    }
    with open(os.path.join(ROOT, "MANIFEST.json"), "w") as f:
        json.dump(man, f, indent=1)
    print("claimed:", " ".join(sorted(props)), "| not claimed:", " ".join(x["property_id"] for x in na))


if __name__ == "__main__":
    main()
