#!/bin/sh
# usage: tools/seedtest.sh <Cxx> <patch.diff> : apply a seeded change to /repo, run the check, undo
set -u
P=$1; D=$2
cd /repo || exit 2
git status --porcelain --untracked-files=no | grep -q . && { echo "/repo not clean"; exit 2; }
git apply "$D" || { echo "patch does not apply"; exit 2; }
cd /verif && bin/check "$P" > /tmp/seedtest.$P.out 2>&1; rc=$?
git -C /repo checkout -- . 
grep -E "^(VIOLATION|BROKEN|KNOWN|C[0-9][0-9] tier)" /tmp/seedtest.$P.out | cut -c1-400 | head -8
echo "rc=$rc"
